#!/usr/bin/env python3
"""Self-test: applies each breaking change (seeded/*/patch.diff, selftest/mutants/*/*.diff) to a scratch worktree of /repo
(under /tmp, removed afterwards), confirms that the repository's stable tests still pass there and that the demonstration
(if any) fails with the change and passes without, then runs the registered check(s) with VERIF_REPO pointing at the scratch
tree (evidence redirected) and records caught / missed / inconclusive.

    selftest/run.py [--tier quick|thorough] [--only <substring> [--merge]] [--jobs N] [--all-checks]

Writes selftest/results.json and selftest/RESULTS.md.  Never touches /repo's working tree.
"""
from __future__ import annotations

import argparse
import glob
import json
import os
import shutil
import subprocess
import sys
import tempfile
from concurrent.futures import ThreadPoolExecutor

V = os.path.dirname(os.path.dirname(os.path.abspath(__file__)))
REPO = "/repo"
PY = "/venv/bin/python"
TESTS = ["tests/unit", "tests/integration/setup/test_base_setup.py", "tests/integration/setup/test_single_setup.py"]


def sh(cmd, **kw):
    return subprocess.run(cmd, stdout=subprocess.PIPE, stderr=subprocess.STDOUT, text=True, **kw)


def stable_set():
    b = json.load(open("/root/.vp/BASELINE.json"))
    return set(b["stable_pass"])


def run_tests(tree):
    with tempfile.NamedTemporaryFile(suffix=".xml", delete=False) as f:
        xml = f.name
    env = dict(os.environ, PYTHONPATH=os.path.join(tree, "src"), MPLBACKEND="Agg", PYTHONDONTWRITEBYTECODE="1")
    sh([PY, "-m", "pytest", "-q", "-p", "no:cacheprovider", "--timeout=900", f"--junitxml={xml}", *TESTS], cwd=tree, env=env, timeout=1800)
    import xml.etree.ElementTree as ET
    passed = set()
    try:
        for tc in ET.parse(xml).getroot().iter("testcase"):
            if not any(ch.tag in ("failure", "error", "skipped") for ch in tc):
                passed.add(f"{tc.get('classname')}::{tc.get('name')}")
    finally:
        os.unlink(xml)
    return passed


def collect(only):
    items = []
    for d in sorted(glob.glob(os.path.join(V, "seeded", "*"))):
        if os.path.isfile(os.path.join(d, "patch.diff")):
            meta = json.load(open(os.path.join(d, "meta.json"))) if os.path.exists(os.path.join(d, "meta.json")) else {}
            items.append(dict(id=os.path.basename(d), kind="seeded", patch=os.path.join(d, "patch.diff"), demo=os.path.join(d, "demo.py") if os.path.exists(os.path.join(d, "demo.py")) else None,
                              props=[meta.get("property")] if meta.get("property") else [], summary=meta.get("summary", "")))
    for pth in sorted(glob.glob(os.path.join(V, "selftest", "mutants", "*", "*.diff"))):
        pid = os.path.basename(os.path.dirname(pth))
        items.append(dict(id=f"{pid}/{os.path.basename(pth)[:-5]}", kind="mutant", patch=pth, demo=None, props=[pid], summary=open(pth).readline().strip("# \n")))
    for pth in sorted(glob.glob(os.path.join(V, "selftest", "controls", "*", "*.diff"))):
        pid = os.path.basename(os.path.dirname(pth))
        items.append(dict(id=f"control:{pid}/{os.path.basename(pth)[:-5]}", kind="control", patch=pth, demo=None, props=[pid], summary=open(pth).readline().strip("# \n")))
    if only:
        items = [i for i in items if only in i["id"]]
    return items


PREVIOUS = {}  # --checks-only: rows of the stored table, by id (the test-suite and demonstration columns are taken from there)


def one(item, tier, all_checks, stable):
    tree = tempfile.mkdtemp(prefix="vfmut_", dir="/tmp")
    os.rmdir(tree)
    res = dict(id=item["id"], kind=item["kind"], props=item["props"], summary=item["summary"])
    try:
        r = sh(["git", "-C", REPO, "worktree", "add", "--detach", "-q", tree, "HEAD"])
        if r.returncode:
            res["error"] = "worktree: " + r.stdout[-300:]
            return res
        r = sh(["git", "-C", tree, "apply", "--whitespace=nowarn", item["patch"]])
        if r.returncode:
            res["error"] = "patch does not apply: " + r.stdout[-300:]
            return res
        prev = PREVIOUS.get(item["id"])
        if prev is not None and "stable_tests_still_pass" in prev:
            # only the checks changed since the stored run: the library-side columns (tests with the change, demonstration) are its
            for k_ in ("stable_tests_still_pass", "stable_tests_lost", "demo_fails_with_change", "demo_passes_without"):
                if k_ in prev:
                    res[k_] = prev[k_]
        else:
            passed = run_tests(tree)
            if not stable <= passed:  # tests/unit/functions/test_fdd.py::test_EFDD_mpe[cor] draws unseeded random data: retry once
                passed |= run_tests(tree)
            res["stable_tests_still_pass"] = stable <= passed
            res["stable_tests_lost"] = sorted(stable - passed)[:5]
        if item["demo"] and "demo_passes_without" not in res:
            env = dict(os.environ, MPLBACKEND="Agg", PYTHONDONTWRITEBYTECODE="1")
            a = sh([PY, item["demo"]], env=dict(env, PYTHONPATH=os.path.join(tree, "src")), timeout=1800, cwd=tempfile.gettempdir())
            b = sh([PY, item["demo"]], env=dict(env, PYTHONPATH=os.path.join(REPO, "src")), timeout=1800, cwd=tempfile.gettempdir())
            res["demo_fails_with_change"] = a.returncode != 0
            res["demo_passes_without"] = b.returncode == 0
        props = item["props"]
        if all_checks or (item["kind"] == "control" and os.environ.get("VERIF_CONTROLS_ALL") == "1"):
            props = [c["property_id"] for c in json.load(open(os.path.join(V, "MANIFEST.json")))["checks"]]
        out = tempfile.mkdtemp(prefix="vfout_", dir="/tmp")
        res["checks"] = {}
        for pid in props:
            env = dict(os.environ, VERIF_REPO=tree, VERIF_OUT=out, VERIF_SEED=os.environ.get("VERIF_SEED", "0"))
            r = sh([os.path.join(V, "check"), pid, tier], env=env, timeout=7200)
            viol = [ln for ln in r.stdout.splitlines() if ln.startswith("VIOLATION")]
            verdict = "caught" if (r.returncode == 1 and viol) else ("inconclusive" if r.returncode == 2 else ("missed" if r.returncode == 0 else f"exit {r.returncode}"))
            if item["kind"] == "control":
                verdict = {"caught": "FALSE ALARM", "missed": "silent (as required)"}.get(verdict, verdict)
            res["checks"][pid] = dict(verdict=verdict, first=(viol[0][:400] if viol else r.stdout.strip().splitlines()[-1][:300] if r.stdout.strip() else ""), n_signatures=len(viol))
        shutil.rmtree(out, ignore_errors=True)
    except subprocess.TimeoutExpired as e:
        res["error"] = f"timeout: {e}"
    finally:
        sh(["git", "-C", REPO, "worktree", "remove", "--force", tree])
        shutil.rmtree(tree, ignore_errors=True)
    return res


def main():
    ap = argparse.ArgumentParser()
    ap.add_argument("--tier", default="quick")
    ap.add_argument("--only", default=None)
    ap.add_argument("--jobs", type=int, default=3)
    ap.add_argument("--all-checks", action="store_true")
    ap.add_argument("--no-write", action="store_true")
    ap.add_argument("--checks-only", action="store_true", help="re-run only the checks; tests / demonstration columns are taken from the stored results.json")
    ap.add_argument("--merge", action="store_true", help="with --only: replace the rows of the re-run changes in results.json / RESULTS.md")
    a = ap.parse_args()
    items = collect(a.only)
    stable = stable_set()
    if a.checks_only:
        PREVIOUS.update({r["id"]: r for r in json.load(open(os.path.join(V, "selftest", "results.json")))["results"]})
    with ThreadPoolExecutor(a.jobs) as ex:
        results = list(ex.map(lambda it: one(it, a.tier, a.all_checks, stable), items))
    for r in results:
        own = {p: r.get("checks", {}).get(p, {}).get("verdict") for p in r["props"]}
        if r["kind"] == "control":  # every check that was run must be silent: show the ones that were not
            own.update({p: c.get("verdict") + " :: " + c.get("first", "")[:200] for p, c in r.get("checks", {}).items() if not str(c.get("verdict")).startswith("silent")})
            own["checks_run"] = len(r.get("checks", {}))
        print(r["id"], "tests_ok=" + str(r.get("stable_tests_still_pass")), "demo=" + str((r.get("demo_fails_with_change"), r.get("demo_passes_without"))), own, r.get("error", ""))
    if a.no_write or (a.only and not a.merge):
        return
    path = os.path.join(V, "selftest", "results.json")
    if a.only and a.merge:
        # a partial re-run (after a check changed): its rows replace the rows of the same changes in the stored table
        old = json.load(open(path))["results"]
        new = {r["id"]: r for r in results}
        current = {it["id"] for it in collect(None)}  # rows of changes that no longer exist (moved / renamed) are dropped
        results = [new.pop(r["id"], r) for r in old if r["id"] in current] + list(new.values())
    json.dump(dict(tier=a.tier, results=results), open(path, "w"), indent=1)
    with open(os.path.join(V, "selftest", "RESULTS.md"), "w") as f:
        f.write(f"# Self-test results (tier {a.tier})\n\nEach breaking change is applied to a scratch worktree; `tests` = the 75 stable tests still pass there; "
                "`demo` = (fails with the change, passes without); then the registered check of the targeted property runs against the scratch tree.\n\n")
        f.write("| change | kind | tests | demo | property check | first VIOLATION line / last line |\n|---|---|---|---|---|---|\n")
        for r in results:
            for p in (list(r.get("checks", {}).keys()) or r["props"] or ["-"]):
                c = r.get("checks", {}).get(p, {})
                f.write(f"| {r['id']} | {r['kind']} | {r.get('stable_tests_still_pass')} | {(r.get('demo_fails_with_change'), r.get('demo_passes_without')) if r['kind']=='seeded' else '-'} | {p}: **{c.get('verdict', r.get('error','?'))}** | {c.get('first','')[:160].replace('|','/')} |\n")
        br = [r for r in results if r["kind"] != "control"]
        n = sum(1 for r in br for p in r["props"] if r.get("checks", {}).get(p, {}).get("verdict") == "caught")
        m = sum(len(r["props"]) for r in br)
        ct = [c for r in results if r["kind"] == "control" for c in r.get("checks", {}).values()]
        f.write(f"\nbreaking changes caught by the check of the targeted property: {n} of {m}\n")
        f.write(f"behaviour-preserving controls: {sum(1 for c in ct if c['verdict'].startswith('silent'))} of {len(ct)} check runs silent\n")


if __name__ == "__main__":
    sys.exit(main())
