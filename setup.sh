#!/bin/bash
# setup_cmd: offline install of the contract library next to the repository's interpreter (git-ignored target)
cd "$(dirname "$0")" || exit 1
set -e
if [ ! -d .deps/icontract ]; then
  /venv/bin/pip install --quiet --no-index --find-links /opt/veriftools/wheels --target .deps icontract
fi
/venv/bin/python -c "import sys; sys.path.append('.deps'); import icontract, numpy, scipy, pandas, matplotlib; print('setup ok', icontract.__version__)"
