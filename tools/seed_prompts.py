#!/usr/bin/env python3
"""writes the task files for a round of independent breaking-change authors (fresh sub-agents).
usage: seed_prompts.py <round-dir e.g. /tmp/wt4> <prompt-dir> <letter1> <letter2> <focus-file>
Each author gets only the text of one property, the summaries of the changes already proposed for it (so that mechanisms
differ) and its own scratch `git clone` of /repo (clones, not worktrees: `git stash` is shared between worktrees)."""
import glob, json, os, sys
V = os.path.dirname(os.path.dirname(os.path.abspath(__file__)))
wt, pd, L1, L2, focus = sys.argv[1:6]
focus = open(focus).read().strip()
tmpl = '''You are working in a scratch git clone of the Python library dagghe/pyOMA2 (operational modal analysis: FDD/EFDD, SSI, pLSCF, multi-setup merging, plotting) at {d}. Work ONLY inside {d}; never read or modify /repo, /verif or any other directory. Do not use `git stash`; to undo a change use `git checkout -- src` or `git apply -R`.

The library must be imported from this clone: use the interpreter /venv/bin/python with PYTHONPATH={d}/src (the package is also installed from another location, so without PYTHONPATH you would import the wrong copy - verify with: PYTHONPATH={d}/src /venv/bin/python -c "import pyoma2; print(pyoma2.__file__)"). No network is available. Set MPLBACKEND=Agg for anything that plots.

A semantic property that this library is supposed to satisfy:

  id: {id}
  title: {title}
  statement: {statement}
  quantified over: {quant}

Other engineers have ALREADY proposed the following breaking changes for this property - do NOT repeat them or close variants:
{prev}

YOUR TASK: produce TWO different, independent source changes (seed {L1} and seed {L2}) to the library under {d}/src/pyoma2, each of which
 (1) still imports and runs,
 (2) keeps the existing stable test suite exactly as green as before. The command is
       cd {d} && PYTHONPATH={d}/src /venv/bin/python -m pytest -q -p no:cacheprovider --timeout=900 tests/unit tests/integration/setup/test_base_setup.py tests/integration/setup/test_single_setup.py
     On the unchanged clone it reports 75 passed, 9 failed, 2 errors (the failures need network / openpyxl and fail on the unchanged tree as well; tests/unit/functions/test_fdd.py::test_EFDD_mpe[cor] and [paer] use unseeded random data and are occasionally flaky on their own). With your change the same 75 tests must still pass,
 (3) BREAKS the property above for some input / configuration / history INSIDE the quantifier's stated range.

{focus}

The change must still be something a developer could plausibly write while refactoring, vectorising, adding a guard, a cache or a convenience, or "optimising", and it must produce a silently wrong result (not an exception) wherever possible. Do not use randomness, environment variables, time, or special-casing on magic constants; do not edit tests. The two seeds must use different mechanisms.

For each seed X in {{{L1}, {L2}}} write these files:
  {d}/SEED/X/patch.diff  - `git diff` of that seed alone against the unchanged HEAD (must apply with `git apply` on a clean checkout),
  {d}/SEED/X/demo.py     - a small self-contained program, run as  PYTHONPATH=<clone>/src MPLBACKEND=Agg /venv/bin/python demo.py , that exits 0 on the UNCHANGED library and exits non-zero (failed assertion with a clear message) when the patch is applied, demonstrating the violation through the library's public API or functions (deterministic: fix all random seeds),
  {d}/SEED/X/meta.json   - JSON with keys: "property" ("{id}"), "summary" (what the change does), "needs" (what specific circumstance is needed for it to manifest), "files" (list of touched files).
Restore the source (git checkout -- src) between the seeds so that the patches are independent; at the end the clone must be clean except for the SEED/ directory (delete scratch files you created).

VERIFY everything by actually running it: the test suite with each patch applied (75 passed), each demo with and without its patch. Read the relevant source first. Finish with a brief report: for each seed, the file/function changed, the mechanism, what is needed to trigger it, and the verification you ran.'''
os.makedirs(pd, exist_ok=True)
for l in open(os.path.join(V, "properties.jsonl")):
    p = json.loads(l)
    prev = []
    for m in sorted(glob.glob(os.path.join(V, "seeded", f"{p['id']}-*", "meta.json"))):
        prev.append(f"  - {json.load(open(m)).get('summary', '')[:350]}")
    d = f"{wt}/{p['id']}"
    open(f"{pd}/{p['id']}.txt", "w").write(tmpl.format(d=d, id=p["id"], title=p["title"], statement=p["statement"], quant=p["quantifier"]["text"], prev="\n".join(prev), L1=L1, L2=L2, focus=focus))
print("ok")
