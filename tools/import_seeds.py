#!/usr/bin/env python3
"""copies finished sub-agent seeds /tmp/wt/Cxx/SEED/{A,B} into /verif/seeded/Cxx-{A,B}/ (patch.diff, demo.py, meta.json)"""
import glob, json, os, shutil, sys
V = os.path.dirname(os.path.dirname(os.path.abspath(__file__)))
for d in sorted(glob.glob("/tmp/wt/C*/SEED/*") + glob.glob("/tmp/wt2/C*/SEED/*") + glob.glob("/tmp/wt3/C*/SEED/*") + glob.glob("/tmp/wt4/C*/SEED/*") + glob.glob("/tmp/wt5/C*/SEED/*") + glob.glob("/tmp/wt6/C*/SEED/*") + glob.glob("/tmp/wt7/C*/SEED/*") + glob.glob("/tmp/wt8/C*/SEED/*") + glob.glob("/tmp/wt9/C*/SEED/*") + glob.glob("/tmp/wt10/C*/SEED/*") + glob.glob("/tmp/wt11/C*/SEED/*") + glob.glob("/tmp/wt13/C*/SEED/*")):
    pid = d.split("/")[3]; x = os.path.basename(d)
    if not all(os.path.exists(os.path.join(d, f)) for f in ("patch.diff", "demo.py", "meta.json")):
        continue
    dst = os.path.join(V, "seeded", f"{pid}-{x}")
    if os.path.exists(dst):
        continue
    os.makedirs(dst)
    for f in ("patch.diff", "demo.py", "meta.json"):
        shutil.copy(os.path.join(d, f), dst)
    m = json.load(open(os.path.join(dst, "meta.json")))
    m["property"] = pid
    m["origin"] = "independent sub-agent given only the property text and a scratch worktree"
    json.dump(m, open(os.path.join(dst, "meta.json"), "w"), indent=1)
    print("imported", dst)
