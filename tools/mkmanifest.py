#!/usr/bin/env python3
"""Regenerates MANIFEST.json from the table below (kept next to the checks so that it never drifts)."""
import json
import os

V = os.path.dirname(os.path.dirname(os.path.abspath(__file__)))

TRUSTED = ("Trusted base: NumPy/SciPy/pandas/matplotlib, the oracle's own reference implementations (written independently of the "
           "code they judge) and the generators. Held = held on the executions listed in the evidence file, nothing more.")

PLUMBED = {"C01", "C03", "C04", "C05", "C06", "C07", "C09", "C10", "C11", "C12", "C13", "C14", "C15", "C17"}
PLUMB = (" A hand-over layer (DESIGN.md section 2a) replays eight history scenarios on the classes of this property (re-run after a parameter change made in "
         "four different ways, diagrams looked at, the same object in another setup at another sampling rate, re-added after a decimation, a sibling named like "
         "the class, twin algorithms / a shared parameter object, several extractions with different arguments, the same extraction twice) and requires the property's result fields to "
         "equal those of a new algorithm with the current parameters on a new setup with the current data.")

CHECKS = {
    "C01": dict(
        technique="runtime monitoring: ground-truth oracle on pole tables of real SSI runs (synthetic noise-free systems)",
        text="Exploration: seeded noise-free free decays of random known systems are pushed through SingleSetup+SSIcov/SSIdat and "
             "through SSI_fast/SSI/SSI_poles on exact rank-2m Hankel products; a monitor compares the order-2m column (count, "
             "conjugate pairing, f, xi, MAC, normalisation) and mpe() with the generating system at eps*cond tolerance.",
        ref="3/C01"),
    "C02": dict(
        technique="runtime monitoring: ground-truth oracle on merge_mode_shapes / MultiSetup_PoSER.merge_results outputs",
        text="Exploration: random global mode-shape matrices are restricted, permuted and re-scaled per setup and fed to merge_mode_shapes "
             "and to MultiSetup_PoSER (prescribed results, and real SSIcov runs on noise-free decays); monitors compare every merged row with "
             "c_1k*G, the row order with flatten_sns_names, and Fn/Xi statistics with statistics.fmean/pstdev.",
        ref="3/C02"),
    "C03": dict(
        technique="runtime monitoring: ground-truth oracle on PreGER SSI pole tables + postcondition on every pre_multisetup call (exhaustive layouts)",
        text="Exploration: noise-free multi-setup decays of known global systems through MultiSetup_PreGER+SSIcov_MS/SSIdat_MS and "
             "SSI_multi_setup, order-2m column compared with the system and between gain assignments; the reference/roving split is checked "
             "for every channel count 2..6 and every ordered proper reference subset on the direct call and on every call the setup object makes.",
        ref="3/C03"),
    "C04": dict(
        technique="runtime monitoring: metamorphic oracle (one recording cut into setups vs single-setup SD_est; per-setup block recomputation; gain change)",
        text="Exploration: one coloured-noise recording is cut into 2..4 setups with arbitrary reference layouts and merged by SD_PreGER and by "
             "FDD_MS/EFDD_MS/pLSCF_MS runs; every line of the merged matrix is compared with SD_est of all channels against the references at the "
             "same nxseg/pov/estimator; with independent recordings the blocks are recomputed from per-setup SD_est outputs and a gain change "
             "on one setup must only move the mean reference block.",
        ref="3/C04"),
    "C13": dict(
        technique="runtime monitoring: postconditions on SD_est against an independent Welch implementation + convention workloads (delay, sinusoid)",
        text="Exploration: every (channel, reference) entry of the 'per' estimate is compared with an independently written Welch estimate; grid, "
             "shape, bilinearity, g^2 scaling (both estimators), Hermitian PSD, Parseval; multi-channel gain-and-delay records and grid-line "
             "sinusoids fix the conjugation/pairing convention.",
        ref="3/C13"),
    "C12": dict(
        technique="runtime monitoring: postcondition on build_hank evaluated on all unit-impulse pairs (complete basis) + definition/projection oracles",
        text="Exploration with an exhaustive part: for every channel count 1..4, reference subset, br 1..5 and the listed record lengths the real "
             "build_hank is evaluated on all pairs of unit impulses, which determines the bilinear map (lag, channel, block, weight of every cell); "
             "random larger shapes are compared entry-wise with the definition, the data-driven matrix through its projection Gram identity, and "
             "the H stored by real SSIcov/SSIdat runs with the same oracles.",
        ref="3/C12"),
    "C18": dict(
        technique="runtime monitoring: icontract postconditions on gen.MAC/MPC/MPD/MCF + metamorphic scale invariance + exact collinear values",
        text="Exploration: range/shape/finiteness contracts (icontract.ensure) wrap the real indicator functions and fire on every call of the "
             "workload (ten input classes, 2..64 components, factors over 12 decades) and during a real SSI run; invariance under complex scaling, "
             "exact values on complex multiples of real vectors, MSF(v,cv)=c. Two genuine defects pinned by unit tests are reported as KNOWN-FINDING.",
        ref="3/C18"),
    "C10": dict(
        technique="runtime monitoring: postcondition on every gen.SC_apply call (function level and inside six run() methods) against an independent cell-by-cell model",
        text="Exploration: every label of every generated or real pole table is recomputed by an independent model (nearest finite pole of the previous "
             "column, three strict relative tests, own MAC) and compared; the same postcondition wraps SC_apply while SSIcov, SSIdat, pLSCF and the "
             "multi-setup variants run on noisy data, and result.Lab is checked to be the label table of the final filtered tables; purity checked.",
        ref="3/C10"),
    "C11": dict(
        technique="runtime monitoring: postcondition on SSI_mpe / pLSCF_mpe with uniquely tagged pole tables (whole-cell, nearest, in-band, minimal order)",
        text="Exploration: pole tables whose cells carry unique tags in xi, phi and covariances make every returned mode identify the cell(s) it was "
             "assembled from; oracle: one whole retained pole of the requested order, the nearest one, returned iff within rtol of its own request; "
             "find_min = lowest column with exactly one stable pole per band; the same value-based oracle on mpe() after real SSIcov/pLSCF runs. "
             "pLSCF find_min's legacy label 7 is reported as KNOWN-FINDING.",
        ref="3/C11"),
    "C06": dict(
        technique="runtime monitoring: postconditions on every SD_svalsvec / FDD_mpe call (independent SVD per line) + narrow-band amplitude workload",
        text="Exploration: the stored decomposition is checked per line (non-negative, sorted, unitary, diagonalising, values or consistently roots) and "
             "every FDD pick (function, FDD, FDD_MS, first stage of EFDD) is checked to be a grid line of the band whose sigma1/sigma2, recomputed by an "
             "independent SVD of Sy, dominates the interior lines, with MAC 1 against conj(u1); sinusoids with known complex amplitudes pin the convention.",
        ref="3/C06"),
    "C07": dict(
        technique="runtime monitoring: ground-truth oracle on EFDD_mpe / EFDD.mpe / FSDD.mpe outputs for analytic SDOF spectra + scale metamorphosis",
        text="Exploration: analytic single-mode spectral matrices drawn from exactly the quantifier's class are given to EFDD_mpe (both methods) and to the "
             "EFDD/FSDD classes (SD_est replaced by the analytic matrix); MAC >= 0.999, 2.5 % frequency and 15 % damping accuracy and 1e-8 invariance "
             "under Sy -> c*Sy are asserted.",
        ref="3/C07"),
    "C05": dict(
        technique="runtime monitoring: ground-truth oracle on pLSCF coefficients/poles for exact matrix fractions + per-call postconditions on rmfd2ac / pLSCF_poles",
        text="Exploration: exactly rational spectra B(z)A(z)^-1 are given to pLSCF; the order-n coefficients must equal the normalised true ones and column "
             "n-1 of the pole tables the stable roots of det A from an independent generalised eigenproblem, everything else NaN; the same root/column "
             "postconditions fire on every rmfd2ac / pLSCF_poles call, also while pLSCF.run processes noisy data.",
        ref="3/C05"),
    "C09": dict(
        technique="runtime monitoring: probes at SSI_poles / pLSCF_poles capture the unfiltered solution of the same execution; every run() result judged cell by cell; fault injection for the conjugate criterion",
        text="Exploration: for SSIcov, SSIdat, SSIcov_MS, SSIdat_MS, pLSCF, pLSCF_MS the filtered result tables are compared with the unfiltered tables captured "
             "inside the same run: soundness and completeness per criterion with the oracle's own MPC/MPD/conjugate tests, adaptive thresholds at observed "
             "quantiles so that every criterion rejects poles on its own, one NaN pattern across all tables, covariance criterion with calc_unc; the "
             "conjugate criterion is exercised by blanking partners at the probe.",
        ref="3/C09"),
    "C08": dict(
        technique="runtime monitoring: metamorphic oracle over pairs of real runs (gain, permutation, orthogonal mixing, time unit) with a rounding probe as conditioning guard",
        text="Exploration: every algorithm class (FDD, EFDD, FSDD, SSIcov cov_mm/cov_R, SSIdat, pLSCF and the five multi-setup variants) is run through a setup "
             "on base and transformed data; whole pole tables are compared column by column as multisets of (f, xi, shape), plus extracted modes, grid and "
             "unit normalisation; a third run on data perturbed at 1e-15 marks ill-conditioned columns as not judged.",
        ref="3/C08"),
    "C14": dict(
        technique="runtime monitoring: history of public preprocessing calls replayed against an executable scipy model; invariants checked after every step",
        text="Exploration with exhaustive parts: all sequences up to length 3 (quick) / 4 (thorough) over 7 concrete operations on a SingleSetup and a PreGER object "
             "plus sampled length-5 sequences with random keywords/layouts; after every step data, fs, dt, sample counts, durations, the data bound to a probe "
             "algorithm and checksums of the user's arrays and the stored initial copy are compared with the model. The duration after decimation (pinned by "
             "three stable tests) is reported as KNOWN-FINDING, matched by mechanism (T*q == Ndat*dt).",
        ref="3/C14"),
    "C15": dict(
        technique="runtime monitoring: recorded API histories checked against an executable model whose expected result digests come from solo runs; enumerated PoSER constructor configurations",
        text="Exploration with exhaustive parts: all add/run_by_name/mpe/run_all sequences up to length 3 (quick) / 4 (thorough) over three pools of real algorithm "
             "instances (one pool with a parameterless member) plus sampled histories over all six classes and the PreGER variants; after every call the "
             "exception outcome, every algorithm's result digest and data checksums are compared with the model; save/load round trips; every PoSER "
             "constructor configuration over 7 type-list templates x 0..3 setups (4 sampled), name-list lengths 0..3 and single not-run / no-mpe members.",
        ref="3/C15"),
    "C16": dict(
        technique="runtime monitoring: the real dialog driven head-less by real matplotlib events; list-of-pairs model checked after every action; real hand-over through mpe_from_plot",
        text="Exploration with an exhaustive part: SelFromPlot is constructed for real (Tk replaced by inert stand-ins) and receives Mouse/Key events through the "
             "canvas callback registry; all sequences up to length 3 (quick) / 4 (thorough) over 11 actions on a 3x4 pole table, random length-6 sequences at "
             "arbitrary coordinates over tables of real SSIcov / pLSCF / FDD runs; after every action the selection is compared with a list-of-pairs model; "
             "mpe_from_plot is executed for real and (Fn, order_out) compared with the picked pairs.",
        ref="3/C16"),
    "C17": dict(
        technique="runtime monitoring: derivative monitor (reported variance vs squared central finite differences of the real identification at two step sizes) + definitional postcondition on build_hank's factor",
        text="Exploration: SSI_fast+SSI_poles with calc_unc are evaluated on well-conditioned Hankel matrices with synthetic covariance factors (1..20 columns) and with "
             "the factor build_hank derives from data; Fn_cov at several orders is compared with the sum of squared directional derivatives obtained by central "
             "differences of the same functions (two step sizes must agree); the data factor is compared with vec_F(H_k - H)/sqrt(nb(nb-1)); SSIcov(calc_unc) is "
             "checked to feed exactly that factor through the same propagation.",
        ref="3/C17"),
    "C19": dict(
        technique="runtime monitoring: ground-truth oracle on geometry objects built from generated table sets (labelled rows, prime-valued shapes), single-fault corruptions, artist read-back",
        text="Exploration: valid table sets with rows permuted against the sensor order are passed through def_geoN_by_file (reader replaced by the tables pandas "
             "returns), def_geoN with the documented argument types and check_on_geoN on real SingleSetup / MultiSetup_PreGER objects; row k of every table must "
             "be the row labelled names[k], indices zero-based, omitted sheets None/default; 25 single-fault corruptions must raise ValueError; prime-valued "
             "mode shapes identify every mapped cell; quiver segments and displaced points are read back from Agg figures.",
        ref="3/C19"),
    "C20": dict(
        technique="runtime monitoring: artist monitor - data of the Line2D / PathCollection artists on the returned Agg axes compared with the tables",
        text="Exploration: stab_plot, cluster_plot and CMIF_plot are called on random non-square tables (any NaN pattern, labels 0/1, step 1..3, freqlim, covariance) and "
             "through the plot methods of real SSIcov / pLSCF / FDD runs; stable markers, unstable markers and singular-value curves are read back from the artists "
             "and compared as multisets with the tables; the ordinate of a stable marker is fed back to mpe(order=.) and must return that pole.",
        ref="3/C20"),
}

PENDING_REASON = "check not built yet in this session (work in progress; the design in DESIGN.md section 3 applies)"


def main():
    props = [json.loads(line)["id"] for line in open(os.path.join(V, "properties.jsonl"))]
    checks = []
    for pid in props:
        if pid not in CHECKS:
            continue
        c = CHECKS[pid]
        checks.append({
            "property_id": pid,
            "quick_cmd": f"./check {pid} quick",
            "thorough_cmd": f"./check {pid} thorough",
            "evidence_file": f"evidence/{pid}.json",
            "replay_cmd_template": f"./check {pid} --replay {{path}}",
            "engine": "vf",
            "level_claimed": {"category": "exploration", "text": c["text"] + (PLUMB if pid in PLUMBED else "") + " Input classes and histories were widened over "
                              "thirteen rounds of independently written breaking changes and reviews (DESIGN.md section 5; selftest/RESULTS.md).",
                              "design_ref": f"DESIGN.md section {c['ref']}"},
            "level_note": c.get("note", TRUSTED),
            "technique": c["technique"],
        })
    man = {
        "version": 1,
        "setup_cmd": "./setup.sh",
        "hooks": {
            "guard": "PYOMA2_VERIF",
            "enable": "no source hooks: the checks wrap module and class attributes of the imported package from outside "
                      "(PYTHONPATH=/repo/src, PYOMA2_VERIF=1 set by ./check for form)",
            "baseline_off_cmd": "cd /repo && env -u PYOMA2_VERIF /venv/bin/python -m pytest -ra -q -p no:cacheprovider --timeout=900 --continue-on-collection-errors",
            "source_commits": [],
            "add_only": True,
        },
        "engines": [{"name": "vf", "path": "vf/", "serves_properties": [c["property_id"] for c in checks],
                     "kind_free_text": "runtime monitors (postconditions on wrapped library functions, ground-truth / metamorphic / "
                                       "history-vs-model oracles, artist read-back) over seeded and enumerated workloads; 16-way sharded"}],
        "checks": checks,
        "not_applicable": [{"property_id": p, "reason": PENDING_REASON} for p in props if p not in CHECKS],
        "notes": "All checks: ./check <id> quick|thorough, VERIF_SEED honoured, exit 0 held / 1 VIOLATION / 2 INCONCLUSIVE. "
                 "Genuine defects of the pinned commit are repaired by fix: commits in /repo or listed in known_findings.json (DESIGN.md section 4).",
    }
    with open(os.path.join(V, "MANIFEST.json"), "w") as f:
        json.dump(man, f, indent=1)
    print("checks:", [c["property_id"] for c in checks])


if __name__ == "__main__":
    main()
