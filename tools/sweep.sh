#!/bin/bash
# tools/sweep.sh <tier> <seed...>  : runs every claimed check, prints one line per check (and any VIOLATION / INCONCLUSIVE line)
cd "$(dirname "$0")/.." || exit 2
tier=${1:-quick}; shift
seeds=${*:-0}
rc=0
for s in $seeds; do
  for p in $(python3 -c "import json; print(' '.join(c['property_id'] for c in json.load(open('MANIFEST.json'))['checks']))"); do
    out=$(VERIF_SEED=$s ./check $p $tier 2>&1); e=$?
    echo "$out" | grep -E "^(VIOLATION|INCONCLUSIVE|Traceback)" | cut -c1-400
    echo "exit=$e $(echo "$out" | tail -1 | cut -c1-200)"
    [ $e -ne 0 ] && rc=1
  done
done
exit $rc
