#!/bin/bash
cd "$(dirname "$0")/.." || exit 2
for p in "$@"; do out=$(./check $p thorough 2>&1); e=$?; echo "$out" | grep -E "^(VIOLATION|INCONCLUSIVE|Traceback)" | cut -c1-400; echo "exit=$e $(echo "$out" | tail -1 | cut -c1-200)"; done
