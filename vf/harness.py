"""Runner for the runtime-monitoring checks (see DESIGN.md section 1).

    python -m vf.harness <Cxx> quick|thorough
    python -m vf.harness <Cxx> --replay <path>

Exit status: 0 held on everything explored, 1 violation (prints VIOLATION lines), 2 inconclusive.
"""
from __future__ import annotations

import collections
import hashlib
import importlib
import json
import os
import subprocess
import sys
import tempfile
import time
from concurrent.futures import ThreadPoolExecutor

VERIF = os.path.dirname(os.path.dirname(os.path.abspath(__file__)))
REPO = os.environ.get("VERIF_REPO", "/repo")
OUT = os.environ.get("VERIF_OUT", VERIF)  # evidence / replays go here (self-test runs redirect it)
PY = os.environ.get("VERIF_PY", "/venv/bin/python")
NPROC = int(os.environ.get("VERIF_NPROC", "16"))
MAX_SAMPLES = 6


def child_env():
    env = dict(os.environ)
    env.update(
        PYTHONPATH=os.pathsep.join([os.path.join(REPO, "src"), VERIF]),
        PYTHONDONTWRITEBYTECODE="1",
        PYTHONHASHSEED="0",
        MPLBACKEND="Agg",
        TQDM_DISABLE="1",
        OMP_NUM_THREADS="1",
        OPENBLAS_NUM_THREADS="1",
        MKL_NUM_THREADS="1",
        PYOMA2_VERIF="1",
        VERIF_REPO=REPO,
    )
    return env


def load_known():
    with open(os.path.join(VERIF, "known_findings.json")) as f:
        return json.load(f)["findings"]


def case_hash(case):
    return hashlib.sha1(json.dumps(case, sort_keys=True, default=str).encode()).hexdigest()[:12]


class Merged:
    def __init__(self):
        self.monitors = collections.Counter()
        self.classes = collections.Counter()
        self.not_judged = collections.Counter()
        self.states = collections.Counter()
        self.nontrivial = set()
        self.samples = []
        self.violations = []
        self.inconclusive = []
        self.cover = collections.defaultdict(set)
        self.cover_total = {}
        self.cases = 0
        self.class_wall = collections.Counter()
        self.extra = {}
        self.maxima = {}

    def add(self, r):
        self.monitors.update(r["monitors"])
        self.classes.update(r["classes"])
        self.not_judged.update(r["not_judged"])
        self.states.update(r["states"])
        self.nontrivial.update(r["nontrivial"])
        for s in r["samples"]:
            if len(self.samples) < MAX_SAMPLES:
                self.samples.append(s)
        self.violations.extend(r["violations"])
        self.inconclusive.extend(r["inconclusive"])
        for k, v in r["cover"].items():
            self.cover[k].update(v)
        self.cover_total.update(r["cover_total"])
        self.cases += r["cases"]
        self.class_wall.update(r["class_wall"])
        for k, v in r.get("maxima", {}).items():
            self.maxima[k] = max(self.maxima.get(k, -1e300), v)
        for k, v in r.get("extra", {}).items():
            if isinstance(v, (int, float)):
                self.extra[k] = self.extra.get(k, 0) + v
            elif isinstance(v, list):
                self.extra.setdefault(k, [])
                self.extra[k].extend(v)
                del self.extra[k][40:]
            elif isinstance(v, dict):
                d = self.extra.setdefault(k, {})
                for kk, vv in v.items():
                    d[kk] = d.get(kk, 0) + vv


def run_shards(pid, cases, tier, timeout):
    nshard = max(1, min(NPROC, len(cases)))
    shards = [cases[i::nshard] for i in range(nshard)]
    merged = Merged()
    with tempfile.TemporaryDirectory(prefix="vf_") as td:
        def one(i):
            inp = os.path.join(td, f"in{i}.json")
            out = os.path.join(td, f"out{i}.json")
            with open(inp, "w") as f:
                json.dump({"pid": pid, "tier": tier, "cases": shards[i]}, f)
            try:
                p = subprocess.run(
                    [PY, "-m", "vf.worker", inp, out],
                    cwd=VERIF, env=child_env(), timeout=timeout,
                    stdout=subprocess.PIPE, stderr=subprocess.PIPE,
                )
            except subprocess.TimeoutExpired:
                return {"_fail": f"shard {i}: watchdog {timeout}s fired"}
            if p.returncode != 0 or not os.path.exists(out):
                return {"_fail": f"shard {i}: worker exit {p.returncode}: " + p.stderr.decode(errors="replace")[-1500:]}
            with open(out) as f:
                return json.load(f)

        with ThreadPoolExecutor(nshard) as ex:
            for r in ex.map(one, range(nshard)):
                if "_fail" in r:
                    merged.inconclusive.append(r["_fail"])
                else:
                    merged.add(r)
    return merged


def main(argv):
    pid = argv[0]
    os.chdir(VERIF)
    sys.path.insert(0, VERIF)
    t0 = time.time()
    seed = int(os.environ.get("VERIF_SEED", "0"))
    mod = importlib.import_module(f"vf.props.{pid.lower()}")
    if argv[1] == "--replay":
        with open(argv[2]) as f:
            rp = json.load(f)
        cases = [rp["case"]]
        tier = rp.get("tier", "quick")
        replay = True
    else:
        tier = argv[1]
        os.environ["VERIF_TIER"] = tier
        cases = mod.cases(tier, seed)
        replay = False
    for c in cases:
        c.setdefault("seed", seed)
    timeout = 900 if tier == "quick" else 7200
    merged = run_shards(pid, cases, tier, timeout)

    known = [k for k in load_known() if k["property"] == pid]
    open_keys = {k["key"]: k for k in known if k["status"] == "open"}
    kf_seen = collections.OrderedDict()
    real = collections.OrderedDict()
    for v in merged.violations:
        if v["sig"] in open_keys:
            kf_seen.setdefault(v["sig"], []).append(v)
        else:
            real.setdefault(v["sig"], []).append(v)

    lines = []
    for sig, vs in kf_seen.items():
        lines.append(f"KNOWN-FINDING: property={pid} {open_keys[sig]['what']} [{sig}; seen {len(vs)}x, e.g. {vs[0]['msg'][:160]}]")
    rdir = os.path.join(OUT, "replays", pid)
    for sig, vs in real.items():
        os.makedirs(rdir, exist_ok=True)
        v = vs[0]
        safe = "".join(ch if ch.isalnum() or ch in "-_." else "_" for ch in sig)[:80]
        path = os.path.join(rdir, f"{safe}-{case_hash(v['case'])}.json")
        if not replay:
            with open(path, "w") as f:
                json.dump({"property": pid, "tier": tier, "sig": sig, "msg": v["msg"], "detail": v.get("detail"),
                           "case": v["case"], "count": len(vs)}, f, indent=1, default=str)
        else:
            path = argv[2]
        lines.append(f"VIOLATION property={pid} replay={os.path.relpath(path, VERIF)} sig={sig} n={len(vs)} :: {v['msg'][:300]}")

    # inconclusive conditions
    inconc = list(merged.inconclusive)
    if not replay:
        for m in getattr(mod, "REQUIRED_MONITORS", []):
            if merged.monitors.get(m, 0) == 0:
                inconc.append(f"deciding monitor '{m}' was never evaluated")
        # anchors are observation coverage, reported in the evidence; only the ones a module declares as REQUIRED_ANCHORS decide
        # (a correct refactoring may legitimately stop calling a helper; the deciding monitors are covered by REQUIRED_MONITORS)
        for a in getattr(mod, "REQUIRED_ANCHORS", []):
            if a in merged.cover_total and len(merged.cover.get(a, ())) == 0:
                inconc.append(f"anchor {a} never entered")
        for s in getattr(mod, "REQUIRED_STATES", []):
            if merged.states.get(s, 0) == 0:
                inconc.append(f"abstract state '{s}' never observed")
        if len(merged.nontrivial) < 2:
            inconc.append("fewer than 2 distinct non-trivial cases")

    wall = time.time() - t0
    if not replay:
        evals = int(sum(merged.monitors.values()))
        cov = {
            "evaluations": max(evals, 0),
            "distinct_nontrivial": len(merged.nontrivial),
            "rule": getattr(mod, "RULE", ""),
            "samples": merged.samples,
            "cases_run": merged.cases,
            "monitors": dict(merged.monitors),
            "classes": dict(merged.classes),
            "abstract_states_seen": dict(merged.states),
            "abstract_states_missing": [s for s in getattr(mod, "ALL_STATES", []) if merged.states.get(s, 0) == 0],
            "not_judged": dict(merged.not_judged),
            "anchor_coverage": {a: f"{len(merged.cover.get(a, ()))}/{merged.cover_total[a]}" for a in merged.cover_total},
            "anchors_not_entered": [a for a in merged.cover_total if len(merged.cover.get(a, ())) == 0],
            "known_findings_seen": {k: len(v) for k, v in kf_seen.items()},
            "inconclusive_reasons": inconc,
            "observed_maxima": {k: float(f"{v:.3g}") for k, v in merged.maxima.items()},
            "class_wall_s": {k: round(v, 2) for k, v in merged.class_wall.items()},
            "verdict": "violated" if real else ("inconclusive" if inconc else "held on what was observed"),
        }
        if getattr(mod, "EXHAUSTIVE", None):
            cov["exhaustive"] = bool(mod.EXHAUSTIVE(tier)) if callable(mod.EXHAUSTIVE) else True
            cov["exhaustive_part"] = getattr(mod, "EXHAUSTIVE_NOTE", "")
        cov.update(merged.extra)
        ev = {
            "property_id": pid, "tier": tier, "seed": seed, "level": "exploration",
            "coverage": cov,
            "assumptions": getattr(mod, "ASSUMPTIONS", []),
            "wall_s": round(wall, 2),
            "violations": sum(len(v) for v in real.values()),
        }
        os.makedirs(os.path.join(OUT, "evidence"), exist_ok=True)
        with open(os.path.join(OUT, "evidence", f"{pid}.json"), "w") as f:
            json.dump(ev, f, indent=1, default=str)

    for ln in lines:
        print(ln)
    summ = (f"{pid} {tier}{' replay' if replay else ''} seed={seed}: cases={merged.cases} evals={sum(merged.monitors.values())} "
            f"nontrivial={len(merged.nontrivial)} not_judged={sum(merged.not_judged.values())} "
            f"violations={sum(len(v) for v in real.values())} known={sum(len(v) for v in kf_seen.values())} wall={wall:.1f}s")
    print(summ)
    if real:
        return 1
    if inconc:
        for r in inconc[:10]:
            print(f"INCONCLUSIVE property={pid} {r[:600]}")
        return 2
    return 0


if __name__ == "__main__":
    sys.exit(main(sys.argv[1:]))
