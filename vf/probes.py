"""Observation points: wrapping of real functions from outside the repository, write-protection, digests."""
from __future__ import annotations

import contextlib
import hashlib
import sys

import numpy as np


@contextlib.contextmanager
def patched(obj, name, new):
    old = getattr(obj, name)
    setattr(obj, name, new)
    try:
        yield old
    finally:
        setattr(obj, name, old)


def rebind_all(orig, new, prefix="pyoma2"):
    """Replace every module-level name in the package that is bound to `orig` (covers `from m import f`).
    Returns an undo list."""
    undo = []
    for mname, mod in list(sys.modules.items()):
        if mod is None or not mname.startswith(prefix):
            continue
        for attr, val in list(vars(mod).items()):
            if val is orig:
                setattr(mod, attr, new)
                undo.append((mod, attr, orig))
    return undo


def undo_rebind(undo):
    for mod, attr, orig in undo:
        setattr(mod, attr, orig)


@contextlib.contextmanager
def wrapped_everywhere(orig, make_wrapper):
    """make_wrapper(orig) -> callable; installed under every name bound to orig inside the package."""
    new = make_wrapper(orig)
    new.__wrapped__ = orig
    undo = rebind_all(orig, new)
    try:
        yield new
    finally:
        undo_rebind(undo)


def digest(x):
    """stable digest of nested results (arrays hashed with dtype and shape)."""
    h = hashlib.sha1()

    def walk(v):
        if v is None:
            h.update(b"N")
        elif isinstance(v, np.ndarray):
            h.update(str(v.dtype).encode() + str(v.shape).encode())
            h.update(np.ascontiguousarray(v).tobytes())
        elif isinstance(v, dict):
            for k in sorted(v, key=str):
                h.update(str(k).encode())
                walk(v[k])
        elif isinstance(v, (list, tuple)):
            h.update(b"[")
            for y in v:
                walk(y)
            h.update(b"]")
        elif hasattr(v, "model_dump"):
            walk(v.model_dump())
        elif isinstance(v, (float, np.floating)):
            h.update(np.float64(v).tobytes())
        else:
            h.update(repr(v).encode())

    walk(x)
    return h.hexdigest()[:16]


def sha(a):
    a = np.ascontiguousarray(a)
    return hashlib.sha1(str(a.dtype).encode() + str(a.shape).encode() + a.tobytes()).hexdigest()[:16]
