"""Seeded workload generators shared by the property modules."""
from __future__ import annotations

import numpy as np
from scipy import signal


def rng_of(case):
    return np.random.default_rng([int(case["seed"]) & 0x7FFFFFFF, int(case.get("k", 0))])


def mac(a, b):
    a = np.asarray(a)
    b = np.asarray(b)
    return float(abs(np.vdot(a, b)) ** 2 / (np.vdot(a, a).real * np.vdot(b, b).real))


def make_system(rng, m, nch, fs, complex_shapes=False, xi_rng=(0.002, 0.08), fmin=0.02, fmax=0.45, minsep=0.02):
    """m underdamped modes, distinct frequencies in (fmin, fmax)*fs, shapes nch x m."""
    for _ in range(1000):
        fn = np.sort(rng.uniform(fmin * fs, fmax * fs, m))
        if m == 1 or np.min(np.diff(fn)) > minsep * fs:
            break
    else:
        fn = np.linspace(fmin * fs, fmax * fs, m + 2)[1:-1]
    xi = rng.uniform(*xi_rng, m)
    Phi = rng.standard_normal((nch, m))
    if complex_shapes:
        Phi = Phi + 1j * 0.5 * rng.standard_normal((nch, m))
    lam = 2 * np.pi * fn * (-xi + 1j * np.sqrt(1 - xi**2))
    return fn, xi, Phi, lam


def free_decay(rng, Phi, lam, fs, N, q0=None):
    """Noise-free free vibration, returns (nch, N) and the initial modal amplitudes."""
    m = len(lam)
    t = np.arange(N) / fs
    if q0 is None:
        q0 = rng.uniform(0.5, 2, m) * np.exp(1j * rng.uniform(0, 2 * np.pi, m))
    Y = np.real((Phi * q0[None, :]) @ np.exp(lam[:, None] * t[None, :]))
    return Y, q0


def obs_index(Phi_rows, lam, fs, kmax=40, tol=1e-8):
    """Numerical observability index of (A=diag(e^{lam dt}, conj), C=[Phi, conj Phi]) restricted to rows."""
    m = len(lam)
    mu = np.concatenate([np.exp(lam / fs), np.exp(np.conj(lam) / fs)])
    C = np.hstack([Phi_rows, np.conj(Phi_rows)]).astype(complex)
    blocks = []
    P = np.ones_like(mu)
    for k in range(1, kmax + 1):
        blocks.append(C * P[None, :])
        P = P * mu
        O = np.vstack(blocks)
        s = np.linalg.svd(O, compute_uv=False)
        if len(s) >= 2 * m and s[2 * m - 1] > tol * s[0]:
            return k
    return None


def sim_response(rng, nch, N, fs, m=3, xi_rng=(0.01, 0.03), noise=0.05, complex_modes=False, fmax=0.4, minsep=0.08):
    """Random response of an m-mode system to white noise (exact pole placement), (N, nch)."""
    fn, xi, Phi, lam = make_system(rng, m, nch, fs, complex_modes, xi_rng, 0.03, fmax, minsep)
    if complex_modes:
        Phi = Phi.real + 1j * rng.uniform(0, 1.0, m)[None, :] * Phi.imag * 2
    Y = np.zeros((nch, N))
    for k in range(m):
        p = np.exp(lam[k] / fs)
        a = np.poly([p, np.conj(p)]).real
        q1 = signal.lfilter([1], a, rng.standard_normal(N))
        Y += np.real(Phi[:, [k]]) * q1[None, :] / np.std(q1)
        if complex_modes:
            q2 = signal.lfilter([1], a, rng.standard_normal(N))
            Y += np.imag(Phi[:, [k]]) * q2[None, :] / np.std(q2)
    Y += noise * rng.standard_normal(Y.shape)
    return Y.T.copy(), fn, xi, Phi


def coloured(rng, nch, N):
    X = rng.standard_normal((nch, N))
    A = rng.standard_normal((nch, nch)) * 0.3 + np.eye(nch)
    X = A @ X
    b, a = signal.butter(2, rng.uniform(0.1, 0.6))
    return X + 0.7 * signal.lfilter(b, a, X, axis=1)


def multiset_dist(a, b, scale=None):
    """bidirectional nearest-neighbour distance between two complex multisets (relative)."""
    a = np.asarray(a)
    b = np.asarray(b)
    if len(a) == 0 and len(b) == 0:
        return 0.0
    if len(a) == 0 or len(b) == 0:
        return np.inf
    D = np.abs(a[:, None] - b[None, :])
    sc = np.maximum(np.abs(a)[:, None], 1e-300) if scale is None else scale
    return float(max((D / sc).min(axis=1).max(), (D / sc).min(axis=0).max()))


def unit_component_error(phi):
    """|largest-magnitude component - 1| (the component itself must equal 1, not only its modulus); rows = shapes if 2-D."""
    phi = np.atleast_2d(np.asarray(phi))
    idx = np.argmax(np.abs(phi), axis=1)
    return np.abs(phi[np.arange(phi.shape[0]), idx] - 1.0)
