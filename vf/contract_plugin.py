"""pytest plugin: keeps the C18 range/shape contracts switched on while the repository's own tests run.
Loaded with  -p vf.contract_plugin ; writes counts and broken contracts to $VERIF_CONTRACT_OUT (JSON)."""
import json
import os
import sys

sys.path.append(os.path.join(os.path.dirname(os.path.dirname(os.path.abspath(__file__))), ".deps"))

_REC = {"evaluations": {}, "broken": []}


class _Counter:
    def __init__(self):
        self.monitors = {}

    def ev(self, name, n=1):
        _REC["evaluations"][name] = _REC["evaluations"].get(name, 0) + n


def pytest_configure(config):
    import numpy as np

    from vf import probes
    from vf.props import c18
    import pyoma2.functions.gen as G_

    c18.STATE["ctx"] = _Counter()
    contracts = c18.make_contracts()
    for nm in ("MAC", "MPC", "MPD", "MCF"):
        orig = getattr(G_, nm)
        con = contracts[nm]

        def guarded(*a, _con=con, _orig=orig, _nm=nm, **k):
            try:
                return _con(*a, **k)
            except c18.PostBroken as e:
                _REC["broken"].append({"contract": e.name, "input": np.array2string(np.asarray(a[0]).ravel()[:6], precision=4)})
                return _orig(*a, **k)

        guarded.__wrapped__ = orig
        probes.rebind_all(orig, guarded)


def pytest_sessionfinish(session, exitstatus):
    out = os.environ.get("VERIF_CONTRACT_OUT")
    if out:
        with open(out, "w") as f:
            json.dump(_REC, f)
