"""C06 - FDD picks the dominant line in the band and its singular vector  [P]."""
from __future__ import annotations

import numpy as np

from vf import gen, plumbing, probes

PID = "C06"
ANCHORS = ["pyoma2.functions.fdd:SD_svalsvec", "pyoma2.functions.fdd:FDD_mpe", "pyoma2.algorithms.fdd:FDD.run", "pyoma2.algorithms.fdd:FDD.mpe",
           "pyoma2.algorithms.fdd:FDD_MS.run", "pyoma2.algorithms.fdd:EFDD.mpe"]
REQUIRED_MONITORS = ["decomposition@SD_svalsvec", "pick@FDD_mpe(function, Hermitian)", "pick@FDD_mpe(function, half spectrum)", "pick@FDD.mpe",
                     "pick@FDD_MS.mpe", "pick@EFDD first stage", "narrow-band amplitudes@FDD"]
ALL_STATES = ["band clipped by grid start", "band clipped by grid end", "selected frequency between lines", "maximum at band edge candidate",
              "several peaks in band", "non-square spectrum", "2 channels", "8 channels"]
REQUIRED_STATES = ["band holding the 0 Hz line, which is the dominant line of the band", "band clipped by grid end", "selected frequency between lines", "several peaks in band", "non-square spectrum", "array object refilled in place", "band below 0 Hz while the dominant line of the grid is at Nyquist", "EFDD with cm=2",
                   "selected frequencies of integer type", "overlapping / repeated selections in one call", "EFDD extraction repeated with another DF1", "selections exactly on spectral lines", "more than 80 dB between first and last singular value", "two almost equally strong peaks in one band",
                   "two spectra of one shape and different content in one setup",
                   "designed ratio curve: twin", "designed ratio curve: fine", "designed ratio curve: plateau"]
RULE = ("spectral sequences: synthetic Hermitian (sums of rank-one bells with complex shapes + full-rank floor), half spectra from the 'cor' "
        "estimator, spectra of random responses through FDD / FDD_MS / EFDD; DF 1..15 line spacings, selected frequencies anywhere in the grid; "
        "postconditions on every SD_svalsvec and FDD_mpe call; non-trivial = band holds >= 3 lines and sigma1/sigma2 varies by > 1 % in it; "
        "distinct by (entry, spectrum digest, request)")
ASSUMPTIONS = ["band = lines nearest to f-DF and f+DF; the returned line may be either edge line but is compared only with strictly interior lines "
               "(DESIGN 3/C06); lines with sigma1/sigma2 < 1+1e-6 have no defined dominant vector and are not judged"]


PLUMB_CLASSES = ['FDD', 'EFDD', 'FDD_MS']
PLUMB_FIELDS = ['S_val', 'S_vec', 'Fn', 'Phi']
REQUIRED_MONITORS = list(REQUIRED_MONITORS) + [f"plumbing:{s_}" for s_ in plumbing.SCENARIOS]
REQUIRED_STATES = list(REQUIRED_STATES) + [f"plumbing scenario {s_}" for s_ in plumbing.SCENARIOS]


def cases(tier, seed):
    return _cases(tier, seed) + plumbing.cases(len(plumbing.SCENARIOS) * len(PLUMB_CLASSES) * (1 if tier == "quick" else 6), PLUMB_CLASSES)


def _cases(tier, seed):
    n1, n2, n3, n4 = (200, 60, 14, 30) if tier == "quick" else (4000, 1200, 200, 500)
    return ([{"cls": "hermitian_synthetic", "k": k} for k in range(n1)] + [{"cls": "half_spectrum", "k": k} for k in range(n2)]
            + [{"cls": "through_classes", "k": k} for k in range(n3)] + [{"cls": "narrow_band", "k": k} for k in range(n4)]
            + [{"cls": "designed_ratios", "k": k} for k in range(60 if tier == "quick" else 1000)])


# ------------------------------------------------------------------------------ monitors
def check_decomposition(ctx, SD, S_val, S_vec):
    nr, nc, nf = SD.shape
    ctx.ev("decomposition@SD_svalsvec")
    if not ctx.check(np.shape(S_val) == (nc, nc, nf) and np.shape(S_vec) == (nr, nr, nf), "svd:shape",
                     lambda: f"S_val {np.shape(S_val)} S_vec {np.shape(S_vec)} for SD {SD.shape}"):
        return
    choice = set()
    lines = range(nf) if nf <= 80 else sorted(set(np.linspace(0, nf - 1, 80).astype(int)))
    for k in lines:
        D = S_val[:, :, k]
        d = np.diag(D).real
        if np.max(np.abs(SD[:, :, k])) == 0:
            continue
        off = np.max(np.abs(D - np.diag(np.diag(D))))
        if not (np.all(d >= 0) and np.all(np.diff(d) <= 1e-12 * max(d[0], 1e-300)) and off == 0):
            ctx.fail("svd:values_not_sorted_nonneg_diagonal", f"line {k}: stored values {d} (off-diagonal max {off})")
            return
        U = S_vec[:, :, k].conj().T
        if not (np.max(np.abs(U.conj().T @ U - np.eye(nr))) <= 1e-9):
            ctx.fail("svd:vectors_not_unitary", f"line {k}: S_vec^H is not unitary")
            return
        s = np.linalg.svd(SD[:, :, k], compute_uv=False)
        rn = np.linalg.norm(U.conj().T @ SD[:, :, k], axis=1)[: len(s)]
        if not (np.max(np.abs(rn - s)) <= 1e-8 * s[0]):
            ctx.fail("svd:vectors_not_singular_vectors", f"line {k}: rows of S_vec do not diagonalise the spectral matrix (row norms {rn[:3]} vs singular values {s[:3]})")
            return
        if np.max(np.abs(d[: len(s)] - s)) <= 1e-9 * s[0]:
            choice.add("values")
        elif np.max(np.abs(d[: len(s)] - np.sqrt(s))) <= 1e-9 * np.sqrt(s[0]):
            choice.add("roots")
        else:
            ctx.fail("svd:values_neither_singular_values_nor_roots", f"line {k}: stored {d[:3]} vs singular values {s[:3]}")
            return
    ctx.check(len(choice) <= 1, "svd:inconsistent_convention", "stored values are singular values at some lines and square roots at others")


def check_pick(ctx, tag, sig, Sy, freq, sel, DF, Fn, Phi):
    """Sy is the spectral matrix the decomposition was computed from (independent SVD inside)."""
    nf = len(freq)
    Fn = np.atleast_1d(Fn)
    if not ctx.check(Fn.shape == (len(sel),) and np.shape(Phi) == (Sy.shape[0], len(sel)), f"{sig}:shape", lambda: f"{tag}: Fn {np.shape(Fn)} Phi {np.shape(Phi)}"):
        return
    ratio_cache = {}

    def ratio(k):
        if k not in ratio_cache:
            s = np.linalg.svd(Sy[:, :, k], compute_uv=False)
            ratio_cache[k] = s[0] / s[1] if s[1] > 0 else np.inf
        return ratio_cache[k]

    df = freq[1] - freq[0]
    for j, f in enumerate(sel):
        ctx.ev(tag)
        i0 = int(np.argmin(np.abs(freq - (f - DF))))
        i1 = int(np.argmin(np.abs(freq - (f + DF))))
        i = int(np.argmin(np.abs(freq - Fn[j])))
        if not ctx.check(abs(freq[i] - Fn[j]) <= 1e-12 * max(freq[-1], 1e-300), f"{sig}:not_a_grid_line", lambda: f"{tag}: Fn={Fn[j]!r} is not a line of the frequency grid"):
            continue
        # the band is [f - DF, f + DF]: every line inside it competes, a line within 1e-6 of a line spacing of a limit may be counted either way
        lo_, hi_, m_ = f - DF, f + DF, 1e-6 * df
        inner = [k for k in range(nf) if lo_ + m_ <= freq[k] <= hi_ - m_]
        edge_ = [k for k in range(nf) if (abs(freq[k] - lo_) < m_ or abs(freq[k] - hi_) < m_)]
        if not inner and not edge_:
            ctx.not_judged("no spectral line inside the band")
            continue
        if not ctx.check(i in inner or i in edge_, f"{sig}:outside_band",
                         lambda: f"{tag}: returned line {i} ({freq[i]:.6g} Hz) lies outside the band [{lo_:.6g}, {hi_:.6g}] (f={f:.6g} DF={DF:.4g}; lines inside: {inner[:1]}..{inner[-1:]})"):
            continue
        if inner and (freq[inner[0]] - lo_ < 0.5 * df or hi_ - freq[inner[-1]] < 0.5 * df):
            ctx.state("first line of the band judged (inside the band, unambiguous)")
        if len(inner):
            rin = np.array([ratio(k) for k in inner])
            rmax = rin.max()
            ri = ratio(i)
            ctx.maxi(f"{tag}: worst (max interior ratio)/(ratio at returned line)", rmax / ri if ri > 0 else np.inf)
            if not ri >= rmax * (1 - 1e-9):
                kbest = inner[int(np.argmax(rin))]
                ctx.fail(f"{sig}:not_the_dominant_line", f"{tag}: returned line {i} has sigma1/sigma2={ri:.6g}; interior line {kbest} of the band [{i0},{i1}] has {rmax:.6g} (f={f:.6g}, DF={DF:.4g}={DF/df:.2f} lines)")
            if len(inner) >= 2 and rin.max() > 1.01 * rin.min():
                ctx.nontrivial((tag, round(float(f), 6), round(float(DF), 6), probes.sha(np.abs(Sy[:, :, i0:i1 + 1]).round(9))[:8]))
            loc_max = sum(1 for a in range(1, len(rin) - 1) if rin[a] > rin[a - 1] and rin[a] > rin[a + 1])
            if loc_max >= 2:
                ctx.state("several peaks in band")
            if int(np.argmax(rin)) in (0, len(rin) - 1):
                ctx.state("maximum at band edge candidate")
        U, s, _ = np.linalg.svd(Sy[:, :, i])
        if s[1] > 0 and s[0] / s[1] < 1 + 1e-6:
            ctx.not_judged("sigma1 ~ sigma2: dominant vector undefined")
        else:
            m = gen.mac(Phi[:, j], np.conj(U[:, 0]))
            mc = gen.mac(Phi[:, j], U[:, 0])
            if not m >= 1 - 1e-9:
                ctx.fail(f"{sig}:{'vector_not_conjugated' if mc >= 1 - 1e-9 else 'not_the_dominant_vector'}",
                         f"{tag}: MAC(Phi, conj(u1)) = {m:.9f} at the returned line (MAC with u1 unconjugated: {mc:.9f})")
        nrm = float(gen.unit_component_error(Phi[:, j])[0])
        ctx.check(nrm <= 1e-12, f"{sig}:normalisation", lambda: f"{tag}: largest-magnitude component differs from 1 by {nrm!r}")
        if f - DF < freq[0]:
            ctx.state("band clipped by grid start")
        if f + DF > freq[-1]:
            ctx.state("band clipped by grid end")
        if abs(f - freq[int(np.argmin(np.abs(freq - f)))]) > 0.05 * df:
            ctx.state("selected frequency between lines")


def draw_requests(rng, freq, nsel=None):
    df = freq[1] - freq[0]
    nsel = nsel or int(rng.integers(1, 4))
    sel = []
    for _ in range(nsel):
        u = rng.random()
        if u < 0.15:
            sel.append(float(freq[0] + rng.uniform(0.2, 3) * df))
        elif u < 0.3:
            sel.append(float(freq[-1] - rng.uniform(0.0, 3) * df))
        else:
            sel.append(float(rng.uniform(freq[1], freq[-2])))
    DF = float(rng.uniform(1.0, 15.0) * df)
    draw_requests.on_grid = False
    u = rng.random()
    if u < 0.2:
        # the same peak asked for twice / overlapping bands in one call: every selection is answered on its own
        base = sel[0]
        sel.append(float(base) if rng.random() < 0.4 else float(np.clip(base + rng.uniform(-0.6, 0.6) * DF, freq[0] + 0.2 * df, freq[-1])))
        if rng.random() < 0.5:
            sel.append(float(np.clip(base + rng.uniform(-0.6, 0.6) * DF, freq[0] + 0.2 * df, freq[-1])))
    elif u < 0.55:
        # selections exactly ON spectral lines (values copied from the frequency axis): the band is still searched
        sel = [float(freq[int(rng.integers(1, len(freq) - 1))]) for _ in sel]
        draw_requests.on_grid = True
    elif u < 0.7 and freq[-1] >= 4:
        # whole numbers of integer type (python ints or an integer array)
        k = [int(v) for v in rng.integers(1, int(freq[-1]), size=len(sel))]
        sel = k if rng.random() < 0.5 else np.array(k, dtype=rng.choice([np.int64, np.int32]))
    return sel, DF


def run_synth(ctx, rng):
    from pyoma2.functions import fdd

    nch = int(rng.choice([2, 3, 4, 5, 8])) if rng.random() < 0.7 else int(rng.integers(2, 9))
    nf = int(rng.integers(20, 300))
    fs = float(10 ** rng.uniform(0, 3))
    freq = np.arange(nf) * fs / (2 * (nf - 1))
    df = freq[1]
    S = np.zeros((nch, nch, nf), complex)
    for _ in range(int(rng.integers(1, 5))):
        a = rng.standard_normal(nch) + 1j * rng.standard_normal(nch)
        f0 = rng.uniform(0.02, 0.98) * freq[-1]
        w = rng.uniform(1, 10) * df
        bell = 1 / ((freq - f0) ** 2 + w**2)
        S += np.conj(a)[:, None, None] * a[None, :, None] * bell[None, None, :]
    if rng.random() < 0.2:
        # two peaks of (almost) the same strength: the later one stronger by a relative 1e-7 .. 1e-3 - the stronger one is the dominant line
        a_ = rng.standard_normal(nch) + 1j * rng.standard_normal(nch)
        b_ = rng.standard_normal(nch) + 1j * rng.standard_normal(nch)
        k1_, k2_ = sorted(int(x) for x in rng.choice(np.arange(5, nf - 5), 2, replace=False))
        if k2_ - k1_ >= 4:
            w_ = rng.uniform(1, 3) * df
            amp_ = 1e3 * np.max(np.abs(S))
            S += np.conj(a_)[:, None, None] * a_[None, :, None] * (amp_ / ((freq - freq[k1_]) ** 2 + w_**2) * w_**2)[None, None, :] / np.vdot(a_, a_).real
            S += np.conj(b_)[:, None, None] * b_[None, :, None] * (amp_ * (1 + 10 ** rng.uniform(-7, -3)) / ((freq - freq[k2_]) ** 2 + w_**2) * w_**2)[None, None, :] / np.vdot(b_, b_).real
            run_synth.twin = (freq[k1_], freq[k2_])
        else:
            run_synth.twin = None
    else:
        run_synth.twin = None
    near_nyq = rng.random() < 0.25
    if near_nyq:
        # a tonal, nearly rank-one component in the last lines: the largest sigma1/sigma2 of the whole grid sits next to Nyquist
        a = rng.standard_normal(nch) + 1j * rng.standard_normal(nch)
        bell = np.zeros(nf)
        bell[-4:] = 50 * np.max(np.abs(S))
        S += np.conj(a)[:, None, None] * a[None, :, None] * bell[None, None, :]
    static = (not near_nyq) and rng.random() < 0.15
    if static:
        # a quasi-static, nearly rank-one component (common drift of all channels): the largest sigma1/sigma2 sits on the very first line (0 Hz),
        # a line of the grid like any other
        a = rng.standard_normal(nch) + 1j * rng.standard_normal(nch)
        bell = np.zeros(nf)
        bell[:3] = np.array([50.0, 20.0, 5.0]) * np.max(np.abs(S))
        S += np.conj(a)[:, None, None] * a[None, :, None] * bell[None, None, :]
    W = rng.standard_normal((nch, nch)) + 1j * rng.standard_normal((nch, nch))
    floor = 10 ** rng.uniform(-4, -1) if rng.random() < 0.6 else 10 ** rng.uniform(-13, -4)  # very clean records: > 80 dB between the singular values
    if floor < 1e-8:
        ctx.state("more than 80 dB between first and last singular value")
    S += (W @ W.conj().T)[:, :, None] * floor * np.max(np.abs(S)) * (1 + 0.5 * np.sin(np.arange(nf) * rng.uniform(0.1, 1)))[None, None, :]
    S *= 10 ** rng.uniform(-6, 6)
    Sc = S.copy()
    Sval, Svec = fdd.SD_svalsvec(S)
    check_decomposition(ctx, Sc, Sval, Svec)
    sel, DF = draw_requests(rng, freq)
    if getattr(run_synth, "twin", None) and not near_nyq:
        f1_, f2_ = run_synth.twin
        sel = [float(0.5 * (f1_ + f2_))]
        DF = float(0.5 * (f2_ - f1_) + 3 * df)  # one band holding both peaks
        ctx.state("two almost equally strong peaks in one band")
    if near_nyq:
        sel[0] = float(freq[0] + rng.uniform(0.5, 3) * df)
        DF = float(max(DF, sel[0] + rng.uniform(0.5, 3) * df))  # the band reaches below 0 Hz
        ctx.state("band below 0 Hz while the dominant line of the grid is at Nyquist")
    if static and not getattr(run_synth, "twin", None):
        sel = [float(v) for v in sel]
        sel[0] = float(freq[0] + rng.uniform(0.0, 2.5) * df)
        DF = float(max(DF, sel[0] + rng.uniform(0.6, 3) * df))  # the band holds the first line, where the ratio is largest
        ctx.state("band holding the 0 Hz line, which is the dominant line of the band")
    sel_arg = sel if isinstance(sel, np.ndarray) else list(sel)
    if isinstance(sel, np.ndarray) or all(isinstance(v, int) for v in sel):
        ctx.state("selected frequencies of integer type")
    sel = [float(v) for v in sel]
    if draw_requests.on_grid:
        ctx.state("selections exactly on spectral lines")
    if len(sel) >= 2 and min(abs(a - b) for i, a in enumerate(sel) for b in sel[i + 1:]) < 2 * DF:
        ctx.state("overlapping / repeated selections in one call")
    Fn, Phi = fdd.FDD_mpe(Sval, Svec, freq, sel_arg, DF=DF)
    check_pick(ctx, "pick@FDD_mpe(function, Hermitian)", "fn", Sc, freq, sel, DF, Fn, Phi)
    ctx.check(np.array_equal(S, Sc), "inputs_modified", "SD_svalsvec / FDD_mpe modified the spectral matrix")
    if rng.random() < 0.3:
        # the same array object refilled with another spectrum: the decomposition must follow the content
        S[...] = np.conj(S[::-1, ::-1, ::-1]) * 0.5 + S[:, :, [0]] * 0.1
        S2 = S.copy()
        Sval2, Svec2 = fdd.SD_svalsvec(S)
        check_decomposition(ctx, S2, Sval2, Svec2)
        ctx.state("array object refilled in place")
    ctx.state("2 channels" if nch == 2 else ("8 channels" if nch == 8 else "3..7 channels"))
    ctx.sample({"entry": "fdd.SD_svalsvec + fdd.FDD_mpe (synthetic Hermitian)", "channels": nch, "lines": nf, "fs": fs, "sel_freq": sel, "DF_in_lines": DF / df})


def run_designed(ctx, rng):
    """FDD_mpe on a hand-made decomposition whose s1/s2 curve is prescribed: twin maxima a relative 1e-7..1e-4 apart (the later one larger),
    very finely resolved smooth maxima, plateaus - the line with the LARGEST ratio of the band is the dominant one"""
    from pyoma2.functions import fdd

    nch = int(rng.integers(2, 6))
    nf = int(rng.integers(60, 4000))
    fs = float(10 ** rng.uniform(0, 3))
    freq = np.arange(nf) * fs / (2 * (nf - 1))
    df = freq[1]
    kind = str(rng.choice(["twin", "fine", "plateau"]))
    k0 = int(rng.integers(nf // 4, 3 * nf // 4))
    x = np.arange(nf)
    if kind == "twin":
        gap = int(rng.integers(4, max(5, nf // 6)))
        k1, k2 = k0 - gap // 2, k0 - gap // 2 + gap
        w = float(rng.uniform(1, 3))
        r = 1 + 50 / (1 + ((x - k1) / w) ** 2) + 50 * (1 + 10 ** rng.uniform(-7, -4)) / (1 + ((x - k2) / w) ** 2)
        sel, DF = [float(freq[k0])], float((gap / 2 + 3) * df)
    elif kind == "fine":
        w = float(rng.uniform(0.02, 0.2) * nf)  # hundreds of lines per bandwidth
        r = 1 + 1e3 / (1 + ((x - k0 - 0.3) / w) ** 2)
        sel, DF = [float(freq[max(1, k0 - int(0.3 * w))])], float(0.8 * w * df)
    else:
        r = 1 + 10 / (1 + ((x - k0) / 5.0) ** 2)
        r[k0 - 3:k0 + 4] = r[k0 - 3] * (1 + 1e-7 * np.arange(7))  # a nearly flat top, rising by 1e-7 per line
        sel, DF = [float(freq[k0])], float(8 * df)
    Sval = np.zeros((nch, nch, nf))
    Sval[0, 0] = r
    for c in range(1, nch):
        Sval[c, c] = 1.0 / c
    Q = np.linalg.qr(rng.standard_normal((nch, nch)) + 1j * rng.standard_normal((nch, nch)))[0]
    Svec = np.repeat(Q[:, :, None], nf, axis=2) * np.exp(1j * rng.uniform(0, 2 * np.pi, nf))[None, None, :]
    Fn, Phi = fdd.FDD_mpe(Sval, Svec, freq, list(sel), DF=DF)
    ctx.ev("pick@FDD_mpe(designed ratio curve)")
    i0 = int(np.argmin(np.abs(freq - (sel[0] - DF))))
    i1 = int(np.argmin(np.abs(freq - (sel[0] + DF))))
    i = int(np.argmin(np.abs(freq - np.atleast_1d(Fn)[0])))
    ratio = Sval[0, 0] / Sval[1, 1]
    inner = np.arange(i0 + 1, i1)
    if ctx.check(abs(freq[i] - np.atleast_1d(Fn)[0]) <= 1e-12 * freq[-1] and i0 <= i <= i1, "designed:not_a_line_of_the_band", lambda: f"Fn={Fn} for band lines [{i0},{i1}]"):
        best = int(inner[np.argmax(ratio[inner])])
        ctx.check(ratio[i] >= ratio[inner].max() * (1 - 1e-12), "designed:not_the_largest_ratio_of_the_band",
                  lambda: f"{kind}: line {i} returned (ratio {ratio[i]!r}), the largest s1/s2 of the band is at line {best} (ratio {ratio[best]!r}, relative excess {ratio[best]/ratio[i]-1:.2e})")
    ctx.state(f"designed ratio curve: {kind}")
    ctx.nontrivial(("designed", kind, nf, nch))


def run_half(ctx, rng):
    from pyoma2.functions import fdd

    nch = int(rng.integers(2, 7))
    nref = int(rng.integers(2, nch + 1))
    nx = int(rng.choice([64, 128, 256]))
    fs = float(10 ** rng.uniform(0, 3))
    data, *_ = gen.sim_response(rng, nch, nx * 12, fs, m=2)
    Y = data.T
    method = "cor" if rng.random() < 0.7 else "per"
    freq, Sy = fdd.SD_est(Y, Y[:nref], 1 / fs, nx, method=method)
    Sc = Sy.copy()
    Sval, Svec = fdd.SD_svalsvec(Sy)
    check_decomposition(ctx, Sc, Sval, Svec)
    sel, DF = draw_requests(rng, freq)
    sel_arg = sel if isinstance(sel, np.ndarray) else list(sel)
    sel = [float(v) for v in sel]
    Fn, Phi = fdd.FDD_mpe(Sval, Svec, freq, sel_arg, DF=DF)
    check_pick(ctx, "pick@FDD_mpe(function, half spectrum)", "fn_half", Sc, freq, sel, DF, Fn, Phi)
    if nref < nch:
        ctx.state("non-square spectrum")


def run_classes(ctx, rng):
    import pyoma2.functions.fdd as F_
    from pyoma2.algorithms import EFDD, FDD, FDD_MS
    from pyoma2.setup import MultiSetup_PreGER, SingleSetup

    nch = int(rng.integers(4, 7))
    fs = 100.0
    data, fn, *_ = gen.sim_response(rng, nch, 8000, fs, m=3)
    method = "per" if rng.random() < 0.6 else "cor"
    rec = []
    orig_mpe, orig_svd = F_.FDD_mpe, F_.SD_svalsvec

    def spy_mpe(Sval, Svec, freq, sel_freq, DF=0.1):
        out = orig_mpe(Sval, Svec, freq, sel_freq, DF=DF)
        rec.append((np.array(freq), list(sel_freq), DF, out))
        return out

    def spy_svd(SD):
        keep = np.array(SD, copy=True)
        out = orig_svd(SD)
        check_decomposition(ctx, keep, out[0], out[1])
        return out

    with probes.patched(F_, "FDD_mpe", spy_mpe), probes.patched(F_, "SD_svalsvec", spy_svd):
        ss = SingleSetup(data.copy(), fs)
        a = FDD(name="fdd", nxseg=int(rng.choice([256, 512])), method_SD=method)
        e = EFDD(name="efdd", nxseg=1024, method_SD=method)
        ss.add_algorithms(a, e)
        ss.run_all()
        sel = sorted(float(f * (1 + 0.01 * rng.uniform(-1, 1))) for f in fn)
        DF = float(rng.uniform(1, 10) * a.result.freq[1])
        if rng.random() < 0.5:
            # whole-number picks of integer type, the first one listed twice
            ints = [int(round(f)) for f in fn if round(f) >= 1]
            if ints:
                DFi = float(rng.uniform(0.6, 1.5))
                ss.mpe("fdd", sel_freq=ints + ints[:1], DF=DFi)
                check_pick(ctx, "pick@FDD.mpe", "cls", np.asarray(a.result.Sy), np.asarray(a.result.freq), [float(v) for v in ints + ints[:1]], DFi, a.result.Fn, a.result.Phi)
        if rng.random() < 0.5:
            fr = np.asarray(a.result.freq)
            sel = sorted({float(fr[int(np.clip(np.argmin(np.abs(fr - f)) + rng.integers(-3, 4), 1, len(fr) - 2))]) for f in fn})
        ss.mpe("fdd", sel_freq=list(sel), DF=DF)
        check_pick(ctx, "pick@FDD.mpe", "cls", np.asarray(a.result.Sy), np.asarray(a.result.freq), sel, DF, a.result.Fn, a.result.Phi)
        del rec[:]
        DF1 = float(rng.uniform(1, 6) * e.result.freq[1])
        try:
            cm = int(rng.choice([1, 2]))
            ss.mpe("efdd", sel_freq=list(sel), DF1=DF1, DF2=3.0, cm=cm)
            if cm == 2:
                ctx.state("EFDD with cm=2")
        except Exception:  # noqa: BLE001  (the damping fit is C07's business)
            pass
        if ctx.check(len(rec) >= 1, "efdd:first_stage_not_fdd", "EFDD.mpe did not go through FDD_mpe"):
            freq_, sel_, DF_, out = rec[0]
            ctx.check(sel_ == list(sel) and DF_ == DF1, "efdd:first_stage_arguments", lambda: f"EFDD first stage called with sel={sel_} DF={DF_}, user gave {sel} DF1={DF1}")
            check_pick(ctx, "pick@EFDD first stage", "efdd", np.asarray(e.result.Sy), np.asarray(e.result.freq), sel, DF1, out[0], out[1])
            # history: the same selection again with another first-stage band only - the pick must be made again in the new band
            del rec[:]
            DF1b = float(DF1 * rng.uniform(2.0, 5.0))
            try:
                ss.mpe("efdd", sel_freq=list(sel), DF1=DF1b, DF2=3.0, cm=cm)
            except Exception:  # noqa: BLE001
                pass
            ctx.state("EFDD extraction repeated with another DF1")
            if ctx.check(len(rec) >= 1 and rec[0][2] == DF1b, "efdd:repeated_extraction_keeps_previous_band",
                         lambda: f"second EFDD.mpe with DF1={DF1b:.4g} (first {DF1:.4g}): first stage called with {[r[2] for r in rec]}"):
                check_pick(ctx, "pick@EFDD first stage", "efdd_repeat", np.asarray(e.result.Sy), np.asarray(e.result.freq), sel, DF1b, rec[0][3][0], rec[0][3][1])
        # history: another algorithm with a spectrum of the SAME shape but other content (the other estimator) run and extracted in between:
        # what the first algorithm stores must still be the decomposition of ITS spectral matrix
        from pyoma2.algorithms import FSDD
        nx_same = int(a.run_params.nxseg)
        g_ = FSDD(name="fsdd_same_shape", nxseg=nx_same, method_SD=("cor" if method == "per" else "per"))
        ss.add_algorithms(g_)
        ss.run_by_name("fsdd_same_shape")
        try:
            ss.mpe("fsdd_same_shape", sel_freq=list(sel), DF1=DF1, DF2=3.0)
        except Exception:  # noqa: BLE001
            pass
        ctx.state("two spectra of one shape and different content in one setup")
        check_decomposition(ctx, np.asarray(a.result.Sy), np.asarray(a.result.S_val), np.asarray(a.result.S_vec))
        ss.mpe("fdd", sel_freq=list(sel), DF=DF)
        check_pick(ctx, "pick@FDD.mpe", "cls_after_other_algorithm", np.asarray(a.result.Sy), np.asarray(a.result.freq), sel, DF, a.result.Fn, a.result.Phi)
        # multi setup
        ms = MultiSetup_PreGER(fs, [[0, 1], [1, 0]], [data[:4000, :].copy(), data[4000:, : nch - 1].copy()])
        f = FDD_MS(name="fdd_ms", nxseg=256, method_SD=method)
        ms.add_algorithms(f)
        ms.run_all()
        DFm = float(rng.uniform(1, 10) * f.result.freq[1])
        ms.mpe("fdd_ms", sel_freq=list(sel), DF=DFm)
        check_pick(ctx, "pick@FDD_MS.mpe", "cls_ms", np.asarray(f.result.Sy), np.asarray(f.result.freq), sel, DFm, f.result.Fn, f.result.Phi)
        ctx.state("non-square spectrum")


def run_narrow(ctx, rng):
    from pyoma2.algorithms import FDD
    from pyoma2.setup import SingleSetup

    nx = int(rng.choice([128, 256, 512]))
    fs = float(10 ** rng.uniform(0, 3))
    k = int(rng.integers(4, nx // 2 - 4))
    nch = int(rng.integers(2, 7))
    N = nx * int(rng.integers(6, 14))
    t = np.arange(N) / fs
    a = 10 ** rng.uniform(-1, 1, nch) * np.exp(1j * rng.uniform(0, 2 * np.pi, nch))
    Y = np.real(a[:, None] * np.exp(2j * np.pi * (k * fs / nx) * t)[None, :]) + 1e-6 * rng.standard_normal((nch, N))
    ss = SingleSetup(Y.T.copy(), fs)
    alg = FDD(name="fdd", nxseg=nx, method_SD="per")
    ss.add_algorithms(alg)
    ss.run_all()
    f0 = k * fs / nx
    ss.mpe("fdd", sel_freq=[f0 * (1 + 0.2 / k * rng.uniform(-1, 1))], DF=float(rng.uniform(1, 3) * fs / nx))
    ctx.ev("narrow-band amplitudes@FDD")
    exp = a / a[np.argmax(np.abs(a))]
    got = alg.result.Phi[:, 0]
    ctx.check(abs(alg.result.Fn[0] - f0) <= 1e-9 * f0, "narrow:line", lambda: f"sinusoid at line {k} ({f0}) identified at {alg.result.Fn[0]}")
    err = np.max(np.abs(got - exp))
    errc = np.max(np.abs(got - np.conj(exp)))
    ctx.maxi("narrow-band amplitudes@FDD: worst |Phi - a/a_max|", err)
    ctx.check(err <= 1e-4, "narrow:" + ("conjugated_amplitudes" if errc <= 1e-4 else "amplitude_ratio"),
              lambda: f"FDD mode shape {np.round(got, 4)} vs channel amplitudes {np.round(exp, 4)} (err {err:.2e}; against conjugate {errc:.2e})")
    ctx.nontrivial(("narrow", nx, k, nch))


def run_case(ctx, case):
    if case["cls"] == "plumbing":
        return plumbing.run_case(ctx, case, gen.rng_of(case), PLUMB_FIELDS)
    rng = gen.rng_of(case)
    {"hermitian_synthetic": run_synth, "half_spectrum": run_half, "through_classes": run_classes, "narrow_band": run_narrow, "designed_ratios": run_designed}[case["cls"]](ctx, rng)
