"""C14 - Preprocessing composes, metadata stays truthful, rollback restores the start  [H + I]."""
from __future__ import annotations

import itertools

import numpy as np
from scipy import signal

from vf import gen, plumbing, probes

PID = "C14"
ANCHORS = ["pyoma2.setup.base:BaseSetup._decimate_data", "pyoma2.setup.base:BaseSetup._detrend_data", "pyoma2.setup.base:BaseSetup._filter_data",
           "pyoma2.setup.single:SingleSetup.decimate_data", "pyoma2.setup.single:SingleSetup.rollback", "pyoma2.setup.multi:MultiSetup_PreGER.decimate_data",
           "pyoma2.setup.multi:MultiSetup_PreGER.filter_data", "pyoma2.setup.multi:MultiSetup_PreGER.detrend_data", "pyoma2.setup.multi:MultiSetup_PreGER.rollback",
           "pyoma2.functions.gen:filter_data"]
REQUIRED_MONITORS = ["step@SingleSetup(enumerated)", "step@MultiSetup_PreGER(enumerated)", "step@SingleSetup(sampled)", "step@MultiSetup_PreGER(sampled)",
                     "probe-algorithm binding", "user arrays + initial copy unchanged"]
ALL_STATES = ["filter then decimate", "decimate then decimate", "rollback after decimate", "decimate with ftype", "decimate with n", "decimate with zero_phase=False",
              "detrend type=constant", "bandpass filter", "3 datasets", "1 dataset", "refs listed out of order", "operation legitimately rejected by scipy"]
REQUIRED_STATES = ["equal record lengths that are not adjacent (a, b, a)", "filter frequencies given as a float array", "filter then decimate", "decimate then decimate", "rollback after decimate", "decimate with ftype", "decimate with n", "decimate with zero_phase=False",
                   "detrend type=constant", "bandpass filter", "refs listed out of order"]
RULE = ("histories over {decimate(q[,ftype][,n][,zero_phase]), detrend([type]), filter(Wn,order,btype), rollback}, with a probe algorithm added after every "
        "step: ALL sequences up to length 3 (quick) / 4 (thorough) over 7 concrete operations on a SingleSetup and on a 2-dataset PreGER object, plus "
        "sampled length-5 sequences with random keywords and random layouts (1..3 datasets, 2..5 channels, any reference layout); after every step the "
        "object is compared with an executable model (same scipy calls on a private copy; fs/q, dt=1/fs, Ndat=len, T=Ndat*dt; rollback -> initial); "
        "non-trivial = sequence with >= 2 operations of which at least one changes the data; distinct = distinct (object kind, sequence)")
ASSUMPTIONS = ["model trusted: scipy.signal.decimate / detrend / butter+sosfiltfilt applied along axis 0 with exactly the keywords the user gave",
               "when scipy itself rejects an operation in the model (e.g. cut-off above the new Nyquist) the library must raise too and leave the state unchanged"]

OPS7 = [("decimate", dict(q=2)), ("decimate", dict(q=3, ftype="fir")), ("decimate", dict(q=2, n=4, zero_phase=False)), ("detrend", dict()),
        ("filter", dict(Wn=3.0, order=4, btype="lowpass")), ("filter", dict(Wn=(1.0, 4.0), order=2, btype="bandpass")), ("rollback", dict())]
METH = {"decimate": "decimate_data", "detrend": "detrend_data", "filter": "filter_data"}


def EXHAUSTIVE(tier):
    return False


PLUMB_CLASSES = ['FDD', 'SSIcov', 'FDD_MS', 'SSIdat_MS']
PLUMB_FIELDS = None
REQUIRED_MONITORS = list(REQUIRED_MONITORS) + [f"plumbing:{s_}" for s_ in plumbing.SCENARIOS]
REQUIRED_STATES = list(REQUIRED_STATES) + [f"plumbing scenario {s_}" for s_ in plumbing.SCENARIOS]


def cases(tier, seed):
    return _cases(tier, seed) + plumbing.cases(len(plumbing.SCENARIOS) * len(PLUMB_CLASSES) * (1 if tier == "quick" else 6), PLUMB_CLASSES)


def _cases(tier, seed):
    L = 3 if tier == "quick" else 4
    seqs = [list(s) for n in range(1, L + 1) for s in itertools.product(range(len(OPS7)), repeat=n)]
    out = []
    chunk = 40
    for kind in ("single", "preger"):
        for c0 in range(0, len(seqs), chunk):
            out.append({"cls": f"enumerated_{kind}", "seqs": seqs[c0:c0 + chunk], "k": c0})
    ns = 300 if tier == "quick" else 6000
    out += [{"cls": "sampled_single" if k % 2 == 0 else "sampled_preger", "k": k} for k in range(ns)]
    return out


# ------------------------------------------------------------------------------------------ model
def model_apply(arrs, fs, op, kw):
    if op == "decimate":
        k = dict(kw)
        q = k.pop("q")
        return [signal.decimate(a, q, axis=0, **k) for a in arrs], fs / q
    if op == "detrend":
        return [signal.detrend(a, axis=0, **kw) for a in arrs], fs
    if op == "filter":
        sos = signal.butter(kw["order"], kw["Wn"], btype=kw["btype"], output="sos", fs=fs)
        return [signal.sosfiltfilt(sos, a, axis=0) for a in arrs], fs
    raise ValueError(op)


def split(arrs, refs):
    out = []
    for a, r in zip(arrs, refs):
        mov = [c for c in range(a.shape[1]) if c not in r]
        out.append((a[:, list(r)].T, a[:, mov].T))
    return out


def close(a, b, tol=1e-9):
    a, b = np.asarray(a, float), np.asarray(b, float)
    if a.shape != b.shape:
        return False
    if a.size == 0:
        return True
    return bool(np.allclose(a, b, rtol=tol, atol=tol * max(1.0, float(np.max(np.abs(b))))))


class Driver:
    def __init__(self, ctx, kind, d0, fs0, refs, tag):
        from pyoma2.setup import MultiSetup_PreGER, SingleSetup

        self.ctx, self.kind, self.tag = ctx, kind, tag
        self.d0 = [a.copy() for a in d0]
        self.user = [a.copy() for a in d0]
        self.user_sha = [probes.sha(a) for a in self.user]
        self.fs0, self.refs = fs0, refs
        if kind == "single":
            self.obj = SingleSetup(self.user[0], fs0)
        else:
            self.obj = MultiSetup_PreGER(fs0, [list(r) for r in refs], self.user)
        self.cur = [a.copy() for a in d0]
        # records carried in single precision: two correct evaluations of one operation agree to a few float32 roundings only when they traverse
        # the memory alike, and every further IIR step amplifies that difference (measured: 1e-8 after a detrend, 3e-6 after the next
        # decimation). There the oracle is the per-step one - scipy applied to what the object holds before the step - at 1e-5; rollback still
        # returns to the initial records. Double precision keeps the whole-history model at 1e-9.
        self.single = any(np.asarray(a).dtype == np.float32 for a in d0)
        self.fs = fs0
        self.last_T_change = None  # ("decimate", q) or ("init",)
        self.hist = []
        self.step = 0
        self.alive = True

    def fail(self, sig, msg):
        self.ctx.fail(sig, f"{self.tag} after {self.hist}: {msg}")

    def apply(self, op, kw):
        ctx = self.ctx
        self.hist.append((op, kw))
        self.step += 1
        before = self.snapshot()
        if op == "rollback":
            self.obj.rollback()
            self.cur = [a.copy() for a in self.d0]
            self.fs = self.fs0
            self.last_T_change = None
        else:
            if self.single:
                held = [self.obj.data] if self.kind == "single" else list(self.obj.datasets)
                if len(held) == len(self.cur) and all(np.shape(h_) == np.shape(c_) for h_, c_ in zip(held, self.cur)):
                    self.cur = [np.array(h_, copy=True, order="K") for h_ in held]
            try:
                new, nfs = model_apply(self.cur, self.fs, op, kw)
                model_exc = None
            except Exception as e:  # noqa: BLE001  scipy rejects the operation (e.g. Wn above Nyquist)
                model_exc = e
            kw_lib, wn_arr = kw, None
            if op == "filter" and self.step % 2 == 0:
                # the critical frequencies as a float array (what np.array / np.linspace / a settings table gives): the same numbers mean the
                # same filter for every dataset (what the data become is judged below, as for any other call)
                wn_arr = np.array(kw["Wn"], dtype=float)
                kw_lib = dict(kw, Wn=wn_arr)
                ctx.state("filter frequencies given as a float array")
            try:
                getattr(self.obj, METH[op])(**kw_lib)
                lib_exc = None
            except TypeError as e:
                if "multiple values for keyword" in str(e) or "unexpected keyword" in str(e):
                    kws = sorted(k for k in kw if k not in ("q", "Wn", "order", "btype"))
                    self.fail(f"{self.kind}:keyword_rejected:{op}", f"documented keyword(s) {kws} rejected: {type(e).__name__}: {e}")
                    self.alive = False
                    return
                lib_exc = e
            except Exception as e:  # noqa: BLE001
                lib_exc = e
            if model_exc is not None:
                ctx.state("operation legitimately rejected by scipy")
                if lib_exc is None:
                    self.fail(f"{self.kind}:accepted_what_scipy_rejects:{op}", f"scipy raises {type(model_exc).__name__} for this operation in this state, the setup accepted it")
                    self.alive = False
                    return
                after = self.snapshot()
                if after != before:
                    self.fail(f"{self.kind}:state_changed_by_failed_{op}", "operation raised but the object changed")
                return
            if lib_exc is not None:
                self.fail(f"{self.kind}:exception:{op}:{type(lib_exc).__name__}", f"{type(lib_exc).__name__}: {lib_exc}")
                self.alive = False
                return
            self.cur, self.fs = new, nfs
            if op == "decimate":
                self.last_T_change = ("decimate", kw["q"])
        self.observe(op)

    def snapshot(self):
        o = self.obj
        if self.kind == "single":
            return (probes.sha(o.data), o.fs, o.dt, o.Ndat, o.T)
        return (tuple(probes.sha(d["ref"]) + probes.sha(d["mov"]) for d in o.data), o.fs, o.dt, tuple(o.Ndats), tuple(o.Ts))

    def observe(self, op):
        from pyoma2.algorithms import FDD

        ctx, o, kind = self.ctx, self.obj, self.kind
        ctx.ev(self.tag)
        fs, cur = self.fs, self.cur

        def chk(attr, got, exp, tol=1e-9):
            if self.single and tol == 1e-9:
                tol = 1e-5
            if not close(got, exp, tol):
                self.fail(f"{kind}:{attr}:after_{op}", f"{attr} = {np.asarray(got).ravel()[:4]}{'...' if np.size(got) > 4 else ''} (shape {np.shape(got)}), model {np.asarray(exp).ravel()[:4]} (shape {np.shape(exp)})")
                return False
            return True

        def chk_T(attr, got, lens):
            exp = [n / fs for n in lens]
            got = np.atleast_1d(np.asarray(got, float))
            if close(got, exp, 1e-12):
                return
            if self.last_T_change and self.last_T_change[0] == "decimate" and close(got * self.last_T_change[1], exp, 1e-12):
                self.fail("duration_is_Ndat_dt_over_q_after_decimate", f"{attr} = {got.tolist()} but samples*dt = {exp} (last decimation factor q={self.last_T_change[1]}: stored duration is Ndat*dt/q)")
            else:
                self.fail(f"{kind}:{attr}:after_{op}", f"{attr} = {got.tolist()}, samples*dt = {exp}")

        if kind == "single":
            chk("data", o.data, cur[0])
            chk("fs", o.fs, fs, 1e-13)
            chk("dt", o.dt, 1 / fs, 1e-13)
            chk("Ndat", o.Ndat, cur[0].shape[0], 0)
            chk_T("T", o.T, [cur[0].shape[0]])
            alg = FDD(name=f"probe{self.step}")
            o.add_algorithms(alg)
            ctx.ev("probe-algorithm binding")
            chk("algorithm.data", alg.data, cur[0])
            chk("algorithm.fs", alg.fs, fs, 1e-13)
            chk("algorithm.dt", alg.dt, 1 / fs, 1e-13)
            init = [o._initial_data]
        else:
            sp = split(cur, self.refs)
            ok = len(o.data) == len(cur)
            if not ok:
                self.fail(f"{kind}:data:after_{op}", f"{len(o.data)} setups in data, {len(cur)} datasets")
            else:
                for k in range(len(cur)):
                    chk("data[ref]", o.data[k]["ref"], sp[k][0])
                    chk("data[mov]", o.data[k]["mov"], sp[k][1])
            chk("fs", o.fs, fs, 1e-13)
            chk("dt", o.dt, 1 / fs, 1e-13)
            chk("Ndats", o.Ndats, [a.shape[0] for a in cur], 0)
            chk_T("Ts", o.Ts, [a.shape[0] for a in cur])
            alg = FDD(name=f"probe{self.step}")
            o.add_algorithms(alg)
            ctx.ev("probe-algorithm binding")
            chk("algorithm.fs", alg.fs, fs, 1e-13)
            chk("algorithm.dt", alg.dt, 1 / fs, 1e-13)
            if ok and len(alg.data) == len(cur):
                for k in range(len(cur)):
                    chk("algorithm.data[ref]", alg.data[k]["ref"], sp[k][0])
                    chk("algorithm.data[mov]", alg.data[k]["mov"], sp[k][1])
            init = o._initial_datasets
        ctx.ev("user arrays + initial copy unchanged")
        for u, h in zip(self.user, self.user_sha):
            if probes.sha(u) != h:
                self.fail(f"{kind}:user_array_modified:after_{op}", "an array passed in by the user was modified")
        if len(init) != len(self.d0) or any(not np.array_equal(a, b) for a, b in zip(init, self.d0)):
            self.fail(f"{kind}:initial_copy_modified:after_{op}", "the stored initial copy no longer equals the initial data")

    def note_states(self):
        ctx = self.ctx
        ops = [h[0] for h in self.hist]
        for a, b in zip(ops, ops[1:]):
            if a == "filter" and b == "decimate":
                ctx.state("filter then decimate")
            if a == "decimate" and b == "decimate":
                ctx.state("decimate then decimate")
            if a == "decimate" and b == "rollback":
                ctx.state("rollback after decimate")
        for op, kw in self.hist:
            if op == "decimate":
                if "ftype" in kw:
                    ctx.state("decimate with ftype")
                if "n" in kw:
                    ctx.state("decimate with n")
                if kw.get("zero_phase") is False:
                    ctx.state("decimate with zero_phase=False")
            if op == "detrend" and kw.get("type") == "constant":
                ctx.state("detrend type=constant")
            if op == "filter" and kw.get("btype") == "bandpass":
                ctx.state("bandpass filter")


def run_enumerated(ctx, case, kind):
    rng = np.random.default_rng(12345)
    if kind == "single":
        d0 = [rng.standard_normal((700, 3)).cumsum(axis=0) * 0.05 + rng.standard_normal((700, 3))]
        refs = None
    else:
        d0 = [rng.standard_normal((700, 4)), rng.standard_normal((650, 3)).cumsum(axis=0) * 0.05]
        refs = [[2, 0], [1, 0]]
    tag = "step@SingleSetup(enumerated)" if kind == "single" else "step@MultiSetup_PreGER(enumerated)"
    for seq in case["seqs"]:
        drv = Driver(ctx, kind, d0, 20.0, refs, tag)
        drv.observe("init")
        for i in seq:
            if not drv.alive:
                break
            op, kw = OPS7[i]
            drv.apply(op, dict(kw))
        drv.note_states()
        if len(seq) >= 2 and any(OPS7[i][0] != "rollback" for i in seq):
            ctx.nontrivial((kind, tuple(seq)))
    if kind == "preger":
        ctx.state("refs listed out of order")
    ctx.add_extra(f"sequences_enumerated_{kind}", len(case["seqs"]))
    if case["k"] == 40:
        ctx.sample({"entry": f"{kind}: enumerated histories", "example sequences": [[f"{OPS7[i][0]}{OPS7[i][1]}" for i in s] for s in case["seqs"][:3]]})


def draw_op(rng, fs, total_q):
    u = rng.random()
    if u < 0.35 and total_q < 30:
        kw = dict(q=int(rng.integers(2, 6)))
        if rng.random() < 0.5:
            kw["ftype"] = str(rng.choice(["iir", "fir"]))
        if rng.random() < 0.4:
            kw["n"] = int(rng.integers(2, 9))
        if rng.random() < 0.4:
            kw["zero_phase"] = bool(rng.integers(0, 2))
        return "decimate", kw
    if u < 0.55:
        kw = {}
        if rng.random() < 0.6:
            kw["type"] = str(rng.choice(["linear", "constant"]))
        if rng.random() < 0.3:
            kw["overwrite_data"] = True  # documented scipy keyword: may work in place on what it is given - never on the stored originals
        return "detrend", kw
    if 0.55 <= u < 0.62:
        # a stiff filter: high order (the documented default is 8) with a low / narrow band - fine in second-order sections
        nyq = fs / 2
        if rng.random() < 0.5:
            return "filter", dict(Wn=float(rng.uniform(0.01, 0.05) * nyq), order=int(rng.choice([6, 8])), btype="lowpass")
        lo = float(rng.uniform(0.01, 0.03) * nyq)
        return "filter", dict(Wn=(lo, float(lo + rng.uniform(0.08, 0.2) * nyq)), order=int(rng.choice([6, 8])), btype="bandpass")
    if u < 0.85:
        bt = str(rng.choice(["lowpass", "highpass", "bandpass"]))
        nyq = fs / 2
        if bt == "bandpass":
            lo = float(rng.uniform(0.05, 0.4) * nyq)
            Wn = (lo, float(lo + rng.uniform(0.1, 0.5) * nyq))
        else:
            Wn = float(rng.uniform(0.05, 0.9) * nyq) if rng.random() < 0.9 else float(rng.uniform(1.0, 1.5) * nyq)  # sometimes illegal on purpose
        return "filter", dict(Wn=Wn, order=int(rng.integers(1, 9)), btype=bt)
    return "rollback", {}


def run_sampled(ctx, case, kind):
    rng = gen.rng_of(case)
    fs0 = float(10 ** rng.uniform(0.5, 3))
    if kind == "single":
        nch = int(rng.integers(1, 6))
        d0 = [rng.standard_normal((int(rng.integers(2500, 4000)), nch))]
        refs = None
    else:
        nset = int(rng.integers(1, 4))
        if case["k"] % 4 == 1:
            nset = int(rng.integers(3, 6))  # a campaign of three to five setups
        nref = int(rng.integers(1, 4))
        d0, refs = [], []
        for _ in range(nset):
            nch = int(rng.integers(max(2, nref + 1), 6)) if nref < 5 else 5
            nch = max(nch, nref + 1)
            d0.append(rng.standard_normal((int(rng.integers(2500, 4000)), nch)))
            refs.append([int(x) for x in rng.permutation(nch)[:nref]])
        if nset >= 3 and case["k"] % 8 == 1:
            # some setups recorded for the same time, with a different one in between (lengths a, b, a, ...): every dataset stays in its place
            n0 = min(a.shape[0] for a in d0)
            d0 = [a[:n0].copy() if j % 2 == 0 else a[: n0 - 137 * (1 + j // 2)].copy() for j, a in enumerate(d0)]
            ctx.state("equal record lengths that are not adjacent (a, b, a)")
        elif nset >= 2 and rng.random() < 0.4:
            n0 = min(a.shape[0] for a in d0)
            d0 = [a[:n0].copy() for a in d0]
            ctx.state("datasets of equal length" + (", different channel counts" if len({a.shape[1] for a in d0}) > 1 else ""))
        ctx.state({1: "1 dataset", 2: "2 datasets", 3: "3 datasets"}.get(nset, "4-5 datasets"))
        if any(r != sorted(r) for r in refs):
            ctx.state("refs listed out of order")
    if rng.random() < 0.2:
        # a dead sensor with an offset: one channel exactly constant (and not zero) over the whole record
        for a in d0:
            if a.shape[1] >= 2 and rng.random() < 0.7:
                a[:, int(rng.integers(0, a.shape[1]))] = float(rng.choice([-2.5, 0.75, 1.0, 300.0]))
        ctx.state("a channel that is exactly constant")
    u = rng.random()
    if u < 0.15:
        d0 = [np.round(a * float(rng.choice([3, 40, 2000]))).astype(rng.choice([np.int16, np.int32, np.int64])) for a in d0]  # raw ADC counts
        ctx.state("integer-typed records")
    elif u < 0.3:
        d0 = [a.astype(np.float32) for a in d0]
        ctx.state("float32 records")
    tag = "step@SingleSetup(sampled)" if kind == "single" else "step@MultiSetup_PreGER(sampled)"
    drv = Driver(ctx, kind, d0, fs0, refs, tag)
    drv.observe("init")
    tq = 1
    for _ in range(5):
        if not drv.alive:
            break
        op, kw = draw_op(rng, drv.fs, tq)
        if op == "decimate":
            tq *= kw["q"]
        if op == "rollback":
            tq = 1
        drv.apply(op, kw)
    drv.note_states()
    ctx.nontrivial((kind, str(drv.hist)))
    if case["k"] < 4:
        ctx.sample({"entry": f"{kind}: sampled history", "fs": fs0, "shapes": [list(a.shape) for a in d0], "ref_ind": refs, "history": [[o, k] for o, k in drv.hist]})


def run_case(ctx, case):
    if case["cls"] == "plumbing":
        return plumbing.run_case(ctx, case, gen.rng_of(case), PLUMB_FIELDS)
    c = case["cls"]
    if c.startswith("enumerated"):
        run_enumerated(ctx, case, c.split("_")[1])
    else:
        run_sampled(ctx, case, c.split("_")[1])
