"""C05 - pLSCF recovers an exactly rational spectrum and reports its poles  [T + P]."""
from __future__ import annotations

import numpy as np
import scipy.linalg as sl

from vf import gen, plumbing, probes

PID = "C05"
ANCHORS = ["pyoma2.functions.plscf:pLSCF", "pyoma2.functions.plscf:rmfd2ac", "pyoma2.functions.plscf:ac2mp_poly", "pyoma2.functions.plscf:pLSCF_poles",
           "pyoma2.algorithms.plscf:pLSCF.run"]
REQUIRED_MONITORS = ["history: other sign then again", "history: poles extracted twice", "coefficients@pLSCF", "poles-at-order-n@pLSCF_poles", "roots@rmfd2ac(every call)", "columns@pLSCF_poles(every call)", "columns@pLSCF_poles(part of the model list)",
                     "roots@rmfd2ac(inside pLSCF.run)", "columns@pLSCF_poles(inside pLSCF.run)"]
ALL_STATES = ["sgn=-1", "sgn=+1", "ordmax=n", "ordmax>n", "some roots unstable", "all roots stable", "Nref<Nch", "Nref>Nch", "Nref=Nch", "n=1", "n>=6"]
REQUIRED_STATES = ["sgn=-1", "sgn=+1", "ordmax=n", "ordmax>n", "some roots unstable", "Nref<Nch", "Nref>Nch", "n=1", "spectrum magnitude < 1e-5", "all roots real, some negative", "a root with damping ratio below 1e-5"]
RULE = ("random real polynomial matrices A (Nch x Nch) and B (Nref x Nch) of order n in 1..8 (leading/trailing coefficients diagonally dominated), "
        "2..5 channels, 1..5 reference rows, Nf >= 4(n+1) lines, dt over three decades, both basis signs, ordmax in {n,n+1,n+2}; Sy = B A^-1 on the "
        "library's grid; oracle: Ad[n-1] equals the normalised true coefficients, column n-1 of the pole tables equals the stable roots of det A "
        "from an independent generalised eigenproblem, everything else NaN; per-call postconditions on rmfd2ac and pLSCF_poles also while pLSCF.run "
        "processes noisy data; non-trivial = at least one unstable and one stable root or n*Nch >= 4; distinct by (n,Nch,Nref,Nf,sgn,dt)")
ASSUMPTIONS = ["tolerance 1e-8 * kappa (kappa = eigenvector condition of the block companion); kappa > 1e6 not judged; roots with |Re lambda| < max(1e-9, 10 tol) |lambda| not judged",
               "an exactly singular over-parameterised order (ordmax > n) may raise LinAlgError: that attempt is not judged and the case re-run with ordmax = n"]


PLUMB_CLASSES = ['pLSCF', 'pLSCF_MS']
PLUMB_FIELDS = ['Ad', 'Bn', 'Fn_poles', 'Xi_poles', 'Phi_poles', 'Lambds']
REQUIRED_MONITORS = list(REQUIRED_MONITORS) + ["class=function@pLSCF.run"] + [f"plumbing:{s_}" for s_ in plumbing.SCENARIOS]
REQUIRED_STATES = list(REQUIRED_STATES) + [f"plumbing scenario {s_}" for s_ in plumbing.SCENARIOS]


def cases(tier, seed):
    return _cases(tier, seed) + plumbing.cases(len(plumbing.SCENARIOS) * len(PLUMB_CLASSES) * (1 if tier == "quick" else 6), PLUMB_CLASSES)


def _cases(tier, seed):
    n1, n2 = (200, 16) if tier == "quick" else (4000, 200)
    return [{"cls": "rational", "k": k} for k in range(n1)] + [{"cls": "noisy_run", "k": k} for k in range(n2)]


def poly_roots(alpha):
    """roots of det(sum_j alpha_j x^j) by a linearisation with alpha_n kept on the right-hand side (no inverse)."""
    n = alpha.shape[0] - 1
    N = alpha.shape[1]
    A = np.zeros((n * N, n * N))
    B = np.eye(n * N)
    if n > 1:
        A[:-N, N:] = np.eye((n - 1) * N)
    for j in range(n):
        A[-N:, j * N:(j + 1) * N] = -alpha[j]
    B[-N:, -N:] = alpha[n]
    w, V = sl.eig(A, B)
    kappa = np.linalg.cond(V) if np.all(np.isfinite(V)) else np.inf
    return w, kappa


def stable_mapped(roots, dt, tol=0.0):
    """continuous-time images of the roots; a root whose real part is smaller than ten times the accuracy the poles are judged with (tol,
    relative) may come out on either side of the imaginary axis - whether it is kept is then not decidable at that accuracy"""
    lam = np.log(roots.astype(complex)) / dt
    near_axis = np.abs(lam.real) < max(1e-9, 10 * tol) * np.abs(lam)
    return lam, near_axis


def check_rmfd2ac(ctx, tag, A_den, B_num, A, C):
    ctx.ev(tag)
    n = A_den.shape[0] - 1
    N = A_den.shape[1]
    # the library's realisation carries N structural zero eigenvalues besides the n*N polynomial roots (state dimension (n+1)*N)
    dim = (n + 1) * N
    if not ctx.check(np.shape(A) == (dim, dim) and np.shape(C) == (B_num.shape[1], dim), "rmfd2ac:shape", lambda: f"{tag}: A {np.shape(A)}, C {np.shape(C)} for n={n}, Nch={N}"):
        return
    if not (np.all(np.isfinite(A_den)) and np.all(np.isfinite(A))):
        ctx.not_judged("non-finite coefficients")
        return
    w, kappa = poly_roots(np.asarray(A_den, float))
    if not np.isfinite(kappa) or kappa > 1e6:
        ctx.not_judged("companion eigenvector condition > 1e6")
        return
    ev = np.linalg.eigvals(A)
    ev = ev[np.argsort(np.abs(ev))]
    zeros, ev = ev[:N], ev[N:]
    if not ctx.check(np.all(np.abs(zeros) <= 1e-12 * max(np.max(np.abs(ev)), 1e-300)), "rmfd2ac:structural_zeros", lambda: f"{tag}: expected {N} zero eigenvalues, smallest are {zeros}"):
        return
    fin = np.isfinite(w)
    d = gen.multiset_dist(ev, w[fin]) if fin.sum() == len(ev) else np.inf
    ctx.maxi(f"{tag}: worst distance / (1e-8 kappa)", d / (1e-8 * kappa))
    ctx.check(d <= 1e-8 * kappa, "rmfd2ac:eigenvalues_not_polynomial_roots",
              lambda: f"{tag}: eigenvalues of the realisation differ from the roots of det(sum A_j x^j) by {d:.2e} (n={n}, Nch={N}, kappa={kappa:.1e})")


def check_poles_call(ctx, tag, Ad, Bn, dt, methodSy, nxseg, out):
    Fns, Xis, Phis, Lambds = out
    ctx.ev(tag)
    nord = len(Ad)
    N = Ad[0].shape[1]
    L = Bn[0].shape[1]
    maxlen = max(a.shape[0] for a in Ad) * N  # (order+1)*Nch states per order, see check_rmfd2ac
    shp = (maxlen, nord)
    if not ctx.check(np.shape(Fns) == shp and np.shape(Xis) == shp and np.shape(Lambds) == shp and np.shape(Phis) == (maxlen, nord, L), "poles:shape",
                     lambda: f"{tag}: table shapes {np.shape(Fns)} {np.shape(Xis)} {np.shape(Lambds)} {np.shape(Phis)} expected {shp} / {(maxlen, nord, L)}"):
        return
    nanF = np.isnan(Fns)
    same = np.array_equal(nanF, np.isnan(Xis)) and np.array_equal(nanF, np.isnan(Lambds)) and np.array_equal(nanF, np.isnan(Phis[:, :, 0]))
    ctx.check(same, "poles:nan_patterns_differ", f"{tag}: Fn / Xi / Lambds / Phi tables do not share one NaN pattern")
    for k in range(nord):
        a = np.asarray(Ad[k], float)
        n = a.shape[0] - 1
        if not np.all(np.isfinite(a)):
            ctx.not_judged("non-finite coefficients")
            continue
        col = Lambds[:, k]
        ctx.check(np.all(np.isnan(col[(n + 1) * N:])), "poles:padding_not_nan", lambda: f"{tag}: column {k} has entries below row (n+1)*Nch={(n+1)*N}")
        w, kappa = poly_roots(a)
        if not np.isfinite(kappa) or kappa > 1e6 or not np.all(np.isfinite(w)) or np.any(w == 0):
            ctx.not_judged("companion eigenvector condition > 1e6")
            continue
        tol = 1e-8 * kappa
        lam, near = stable_mapped(w, dt, tol)
        if near.any():
            ctx.not_judged("root within 1e-9 of the imaginary axis")
            continue
        keep = lam[lam.real <= 0]
        got = col[~np.isnan(col)]
        if methodSy == "cor":
            # exponential-window correction: a common real shift of every pole (its value is C08's business)
            if len(got) == len(keep) and len(got):
                sh = np.mean(np.sort_complex(got) - np.sort_complex(keep))
                if abs(sh.imag) <= tol * np.max(np.abs(keep)):
                    got = got - sh.real
        if len(got) != len(keep):
            ctx.fail("poles:count", f"{tag}: order {n}: {len(got)} poles reported, {len(keep)} of the {n*N} roots have non-positive real part")
            continue
        d = gen.multiset_dist(got, keep) if len(got) else 0.0
        ctx.maxi(f"{tag}: worst distance / (1e-8 kappa)", d / tol)
        if not (d <= tol):
            dc = gen.multiset_dist(got, lam[lam.real >= 0]) if (lam.real >= 0).any() else np.inf
            ctx.fail("poles:not_the_stable_roots" + (":unstable_kept_instead" if dc <= tol else ""),
                     f"{tag}: order {n}: reported poles differ from the stable mapped roots by {d:.2e} (tol {tol:.1e}, dt={dt:.4g}, method {methodSy})")
            continue
        # Fn / Xi consistent with Lambds
        fin = ~np.isnan(col)
        lam_rep = col[fin]
        e1 = np.max(np.abs(Fns[fin, k] - np.abs(lam_rep) / (2 * np.pi)) / (np.abs(lam_rep) / (2 * np.pi))) if fin.any() else 0
        e2 = np.max(np.abs(Xis[fin, k] - (-lam_rep.real / np.abs(lam_rep)))) if fin.any() else 0
        ctx.check(e1 <= 1e-12 and e2 <= 1e-12, "poles:fn_xi_not_from_lambda", lambda: f"{tag}: Fn != |lambda|/2pi or Xi != -Re/|lambda| (errors {e1:.1e}, {e2:.1e})")
        if fin.any():
            nrm = gen.unit_component_error(Phis[fin, k, :])
            ctx.check(np.max(nrm) <= 1e-12, "poles:normalisation", lambda: f"{tag}: mode shapes not normalised to a unit largest component ({nrm})")


def exact_unit_circle(ctx):
    """exactly representable coefficients with det A(z) = z^2 + 1: the undamped pair at fs/4 has real part exactly 0 - non-positive, kept"""
    from pyoma2.functions import plscf
    R, I2 = np.array([[0.0, -1.0], [1.0, 0.0]]), np.eye(2)
    for A in (np.array([R, I2]), np.array([I2, R])):
        for dt in (0.01, 0.5):
            F, X, P, L = plscf.pLSCF_poles([A], [np.ones((2, 1, 2))], dt, "per", 256)
            ctx.ev("unit-circle roots@pLSCF_poles")
            col = L[:, 0][~np.isnan(L[:, 0])]
            ok = len(col) == 2 and np.allclose(np.sort(col.imag), [-np.pi / (2 * dt), np.pi / (2 * dt)], rtol=1e-12) and np.all(np.abs(col.real) <= 1e-9 / dt)
            ctx.check(ok, "poles:undamped_pair_dropped", lambda: f"det A(z) = z^2 + 1 (dt={dt}): the two poles with real part 0 must be reported, got {col}")


def run_rational(ctx, rng):
    from pyoma2.functions import plscf

    if rng.random() < 0.1:
        exact_unit_circle(ctx)

    n = int(rng.integers(1, 9))
    Nch = int(rng.integers(2, 6))
    Nref = int(rng.integers(1, 6))
    dt = float(10 ** rng.uniform(-3, 0))
    sgn = int(rng.choice([-1, 1]))
    Nf = int(4 * (n + 1) * rng.integers(1, 6) + rng.integers(0, 7))
    alpha = rng.standard_normal((n + 1, Nch, Nch)) * 0.5
    alpha[0] += 2 * np.eye(Nch)
    alpha[n] += 2 * np.eye(Nch)
    if rng.random() < 0.15:
        # every root of det A(z) real (over-damped / first-order dynamics), about half of them negative: A = T diag(p_i) T^-1
        T = rng.standard_normal((Nch, Nch)) + 2 * np.eye(Nch)
        Ti = np.linalg.inv(T)
        R = rng.uniform(0.2, 0.95, (Nch, n)) * rng.choice([-1, 1], (Nch, n))
        co = [np.poly(R[i])[::-1] for i in range(Nch)]
        alpha = np.array([T @ np.diag([co[i][j] for i in range(Nch)]) @ Ti for j in range(n + 1)])
        if (R < 0).any():
            ctx.state("all roots real, some negative")
    if rng.random() < 0.15:
        # second-order sections with prescribed modal parameters, some of them very lightly damped (xi down to 1e-8): A = T diag(s_i) T^-1
        n = 2
        T = rng.standard_normal((Nch, Nch)) + 2 * np.eye(Nch)
        Ti = np.linalg.inv(T)
        f_ = np.sort(rng.uniform(0.05, 0.45, Nch)) / dt
        x_ = 10 ** rng.uniform(-8, -1.5, Nch)
        lam_ = 2 * np.pi * f_ * (-x_ + 1j * np.sqrt(1 - x_**2))
        z_ = np.exp(lam_ * dt)
        co = [np.array([abs(z) ** 2, -2 * z.real, 1.0]) for z in z_]
        alpha = np.array([T @ np.diag([co[i][j] for i in range(Nch)]) @ Ti for j in range(3)])
        if np.min(x_) < 1e-5:
            ctx.state("a root with damping ratio below 1e-5")
    beta = rng.standard_normal((n + 1, Nref, Nch))
    if rng.random() < 0.4:
        mag = float(10 ** rng.uniform(-9, 3))
        beta = beta * mag
        if mag < 1e-5:
            ctx.state("spectrum magnitude < 1e-5")
    fs = 1 / dt
    freq = np.linspace(0, fs / 2, Nf)
    Om = np.exp(sgn * 1j * 2 * np.pi * freq * dt)
    Sy = np.zeros((Nref, Nch, Nf), complex)
    for k, x in enumerate(Om):
        Ax = sum(alpha[j] * x**j for j in range(n + 1))
        Bx = sum(beta[j] * x**j for j in range(n + 1))
        Sy[:, :, k] = Bx @ np.linalg.inv(Ax)
    roots, kappa = poly_roots(alpha)
    if not np.isfinite(kappa) or kappa > 1e6:
        ctx.not_judged("companion eigenvector condition > 1e6")
        return
    ordmax = n + int(rng.integers(0, 3))
    rec = []
    orig = plscf.rmfd2ac

    def spy(A_den, B_num):
        out = orig(A_den, B_num)
        rec.append((np.array(A_den), np.array(B_num), out))
        return out

    Syc = Sy.copy()
    try:
        Ad, Bn = plscf.pLSCF(Sy, dt, ordmax, sgn_basf=sgn)
    except np.linalg.LinAlgError:
        ctx.not_judged("over-parameterised order singular (LinAlgError)")
        ordmax = n
        Ad, Bn = plscf.pLSCF(Sy, dt, ordmax, sgn_basf=sgn)
    ctx.check(np.array_equal(Sy, Syc), "inputs_modified", "pLSCF modified the spectral matrix")
    # history in one process: the other basis sign on a spectrum of the same size, then this fit again - must reproduce itself
    ctx.ev("history: other sign then again")
    try:
        plscf.pLSCF(np.conj(Sy), dt, ordmax, sgn_basf=-sgn)
        Ad_again, Bn_again = plscf.pLSCF(Sy, dt, ordmax, sgn_basf=sgn)
        same = all(np.allclose(a, b, rtol=1e-9, atol=1e-9 * np.max(np.abs(a))) for a, b in zip(Ad[:n], Ad_again[:n]))
        ctx.check(same, "plscf:result_depends_on_call_history", f"pLSCF returns other coefficients after a call with the opposite basis sign (Nf={Nf}, order {n})")
    except np.linalg.LinAlgError:
        pass
    ctx.ev("coefficients@pLSCF")
    if not ctx.check(len(Ad) == ordmax and len(Bn) == ordmax and all(np.shape(Ad[i]) == (i + 2, Nch, Nch) and np.shape(Bn[i]) == (i + 2, Nref, Nch) for i in range(ordmax)),
                     "plscf:coefficient_shapes", lambda: f"coefficient lists {[np.shape(a) for a in Ad]} / {[np.shape(b) for b in Bn]}"):
        return
    norm = alpha[0] if sgn == -1 else alpha[n]
    A_true = np.array([a @ np.linalg.inv(norm) for a in alpha])
    B_true = np.array([b @ np.linalg.inv(norm) for b in beta])
    # conditioning of the least-squares step itself: how far does a 1e-15 relative perturbation of the spectrum move the coefficients?
    try:
        Ad_p, _ = plscf.pLSCF(Sy * (1 + 1e-15 * rng.standard_normal(Sy.shape)), dt, ordmax, sgn_basf=sgn)
        dprobe = float(np.max(np.abs(Ad_p[n - 1] - Ad[n - 1])) / np.max(np.abs(Ad[n - 1])))
    except np.linalg.LinAlgError:
        dprobe = np.inf
    if not dprobe <= 1e-7:
        ctx.not_judged("normal equations ill conditioned (1e-15 probe moves the coefficients by > 1e-7)")
        return
    tolA = max(1e-8 * max(kappa, 1.0), 1e4 * dprobe)
    errA = np.max(np.abs(Ad[n - 1] - A_true)) / np.max(np.abs(A_true))
    errB = np.max(np.abs(Bn[n - 1] - B_true)) / np.max(np.abs(B_true))
    ctx.maxi("coefficients@pLSCF: worst error / (1e-8 kappa)", max(errA, errB) / tolA)
    ctx.check(errA <= tolA, "plscf:denominator_not_recovered", lambda: f"order-{n} denominator differs from the normalised true coefficients by {errA:.2e} (sgn {sgn}, Nch {Nch}, Nref {Nref}, Nf {Nf}, kappa {kappa:.1e})")
    ctx.check(errB <= tolA, "plscf:numerator_not_recovered", lambda: f"order-{n} numerator differs from the normalised true coefficients by {errB:.2e}")
    try:
        with probes.patched(plscf, "rmfd2ac", spy):
            out = plscf.pLSCF_poles(Ad, Bn, dt, "per", 1024)
    except np.linalg.LinAlgError:
        if ordmax == n:
            raise
        ctx.not_judged("over-parameterised order singular (LinAlgError)")
        ordmax = n
        Ad, Bn = Ad[:n], Bn[:n]
        del rec[:]
        with probes.patched(plscf, "rmfd2ac", spy):
            out = plscf.pLSCF_poles(Ad, Bn, dt, "per", 1024)
    # extracting the poles must not rewrite the model, and extracting twice gives the same tables
    Ad_keep = [np.array(a, copy=True) for a in Ad]
    out2 = plscf.pLSCF_poles(Ad, Bn, dt, "per", 1024)
    ctx.ev("history: poles extracted twice")
    ctx.check(all(np.array_equal(a, b) for a, b in zip(Ad, Ad_keep)) and all(np.array_equal(a, b, equal_nan=True) for a, b in zip(out, out2)),
              "plscf:pole_extraction_rewrites_model", "pLSCF_poles modified the coefficient list it was given / a second extraction differs")
    if sgn == -1:
        ctx.check(np.allclose(Ad[n - 1][0], np.eye(Nch), atol=1e-12), "plscf:normalisation_lost", "A_0 is no longer the identity after pole extraction")
    for A_den, B_num, (A, C) in rec:
        if A_den.shape[0] - 1 <= n:  # over-parameterised orders of an exactly rational spectrum are arbitrary
            check_rmfd2ac(ctx, "roots@rmfd2ac(every call)", A_den, B_num, A, C)
    check_poles_call(ctx, "columns@pLSCF_poles(every call)", Ad[:n], Bn[:n], dt, "per", 1024, tuple(np.asarray(t)[:(n + 1) * Nch, :n] if i != 2 else np.asarray(t)[:(n + 1) * Nch, :n, :] for i, t in enumerate(out))
                     if ordmax > n else out)
    # the routine takes a LIST of models: any part of the list (the orders from ordmin on, every second order, the one model of interest)
    # gives for each model the poles of THAT model - its order is the model's own, not its position in the list
    for part in ([n - 1], list(range(max(0, n - 2), n)), list(range(0, n, 2)) if n >= 2 else [0]):
        Ap, Bp = [Ad[j] for j in part], [Bn[j] for j in part]
        outp = plscf.pLSCF_poles(Ap, Bp, dt, "per", 1024)
        check_poles_call(ctx, "columns@pLSCF_poles(part of the model list)", Ap, Bp, dt, "per", 1024, outp)
    # the statement's own clause: order n against the TRUE polynomial
    Fns, Xis, Phis, Lam = out
    ctx.ev("poles-at-order-n@pLSCF_poles")
    tol = max(1e-8 * kappa, 1e4 * kappa * dprobe)
    lam, near = stable_mapped(roots, dt, tol)
    if near.any() or np.any(roots == 0):
        ctx.not_judged("root within 1e-9 of the imaginary axis")
    else:
        keep = lam[lam.real <= 0]
        col = Lam[:, n - 1]
        got = col[~np.isnan(col)]
        if ctx.check(len(got) == len(keep), "truth:pole_count", lambda: f"order {n}: {len(got)} poles reported, {len(keep)} of {n*Nch} true roots are stable"):
            d = gen.multiset_dist(got, keep) if len(got) else 0.0
            ctx.maxi("poles-at-order-n: worst distance / (1e-8 kappa)", d / tol)
            ctx.check(d <= tol, "truth:poles_not_true_roots", lambda: f"order {n}: reported poles differ from the true stable roots by {d:.2e} (tol {tol:.1e}; sgn {sgn}, dt {dt:.4g})")
        nfin = [int(np.sum(~np.isnan(t[:, n - 1]))) for t in (Fns, Xis, Lam, Phis[:, :, 0])]
        ctx.check(len(set(nfin)) == 1 and nfin[0] == len(keep), "truth:extra_cells", lambda: f"order {n}: non-NaN cells per table (Fn, Xi, Lambds, Phi) = {nfin}, stable roots = {len(keep)}")
        ctx.state("some roots unstable" if len(keep) < n * Nch else "all roots stable")
        if (0 < len(keep) < n * Nch) or n * Nch >= 4:
            ctx.nontrivial((n, Nch, Nref, Nf, sgn, round(np.log10(dt), 2)))
    ctx.state(f"sgn={sgn:+d}")
    ctx.state("ordmax=n" if ordmax == n else "ordmax>n")
    ctx.state("Nref<Nch" if Nref < Nch else ("Nref>Nch" if Nref > Nch else "Nref=Nch"))
    if n == 1:
        ctx.state("n=1")
    if n >= 6:
        ctx.state("n>=6")
    ctx.sample({"entry": "plscf.pLSCF + pLSCF_poles on B(z)A(z)^-1", "n": n, "Nch": Nch, "Nref": Nref, "Nf": Nf, "dt": dt, "sgn_basf": sgn, "ordmax": ordmax, "kappa": kappa})


def run_noisy(ctx, rng):
    import pyoma2.functions.plscf as P_
    from pyoma2.algorithms import pLSCF
    from pyoma2.setup import SingleSetup

    nch = int(rng.integers(2, 5))
    fs = float(rng.choice([50.0, 100.0, 400.0]))
    data, *_ = gen.sim_response(rng, nch, 6000, fs, m=2)
    method = "per" if rng.random() < 0.5 else "cor"
    rec_r, rec_p = [], []
    o_r, o_p = P_.rmfd2ac, P_.pLSCF_poles

    def spy_r(A_den, B_num):
        out = o_r(A_den, B_num)
        rec_r.append((np.array(A_den), np.array(B_num), out))
        return out

    def spy_p(Ad, Bn, dt, methodSy, nxseg):
        out = o_p(Ad, Bn, dt, methodSy, nxseg)
        rec_p.append((Ad, Bn, dt, methodSy, nxseg, out))
        return out

    with probes.patched(P_, "rmfd2ac", spy_r), probes.patched(P_, "pLSCF_poles", spy_p):
        ss = SingleSetup(data, fs)
        alg = pLSCF(name="p", ordmax=int(rng.integers(3, 8)), nxseg=int(rng.choice([256, 512])), method_SD=method)
        ss.add_algorithms(alg)
        ss.run_all()
    ctx.check(len(rec_p) == 1 and len(rec_r) == alg.run_params.ordmax, "run:call_counts", lambda: f"pLSCF.run: {len(rec_p)} pLSCF_poles calls, {len(rec_r)} rmfd2ac calls")
    for A_den, B_num, (A, C) in rec_r:
        check_rmfd2ac(ctx, "roots@rmfd2ac(inside pLSCF.run)", A_den, B_num, A, C)
    for Ad, Bn, dt, methodSy, nxseg, out in rec_p:
        ctx.check(methodSy == method and nxseg == alg.run_params.nxseg and abs(dt - 1 / fs) < 1e-15, "run:arguments", "pLSCF.run passed other dt / method / nxseg to pLSCF_poles than configured")
        check_poles_call(ctx, "columns@pLSCF_poles(inside pLSCF.run)", Ad, Bn, dt, methodSy, nxseg, out)
    # the class is the function applied to the spectrum it stores: coefficients of every order from result.Sy with the recorded settings
    ctx.ev("class=function@pLSCF.run")
    r = alg.result
    okc = False
    for sg in (-1, +1):  # which basis sign the class uses is its own business
        Ad_f, Bn_f = P_.pLSCF(np.asarray(r.Sy), 1 / fs, alg.run_params.ordmax, sgn_basf=sg)
        okc = okc or (len(r.Ad) == len(Ad_f) and all(np.shape(a) == np.shape(b) and np.allclose(a, b, rtol=1e-7, atol=1e-9 * max(np.max(np.abs(b)), 1e-300)) for a, b in zip(r.Ad, Ad_f)))
    ctx.check(okc, "run:coefficients_not_those_of_the_stored_spectrum",
              "pLSCF.run: result.Ad is not what plscf.pLSCF gives for result.Sy (all lines) with the recorded dt / ordmax")
    f_exp = np.arange(np.shape(r.Sy)[2]) * fs / alg.run_params.nxseg
    ctx.check(np.shape(r.freq) == f_exp.shape and np.allclose(r.freq, f_exp, rtol=1e-12, atol=0), "run:frequency_axis", "pLSCF.run: result.freq is not k*fs/nxseg")
    ctx.nontrivial(("noisy", nch, method, alg.run_params.ordmax, fs))


def run_case(ctx, case):
    if case["cls"] == "plumbing":
        return plumbing.run_case(ctx, case, gen.rng_of(case), PLUMB_FIELDS)
    rng = gen.rng_of(case)
    (run_rational if case["cls"] == "rational" else run_noisy)(ctx, rng)
