"""C10 - Stability labels follow the soft criteria between consecutive orders  [P]."""
from __future__ import annotations

import numpy as np

from vf import gen, plumbing, probes

PID = "C10"
ANCHORS = ["pyoma2.functions.gen:SC_apply", "pyoma2.functions.gen:MAC", "pyoma2.algorithms.ssi:SSIdat.run", "pyoma2.algorithms.ssi:SSIdat_MS.run",
           "pyoma2.algorithms.plscf:pLSCF.run", "pyoma2.algorithms.plscf:pLSCF_MS.run"]
REQUIRED_MONITORS = ["labels@SC_apply(function)", "labels@SC_apply(inside SSIcov.run)", "labels@SC_apply(inside SSIdat.run)", "labels@SC_apply(inside pLSCF.run)",
                     "labels@SC_apply(inside SSIcov_MS.run)", "labels@SC_apply(inside pLSCF_MS.run)", "purity@SC_apply", "result.Lab==labels of final tables", "labels kept after a later call", "labels under another floating-point error mode"]
ALL_STATES = ["stable", "fails fn only", "fails xi only", "fails MAC only", "fails several", "prev column empty", "NaN pole", "below ordmin", "first column",
              "above ordmax", "nearest neighbour is not the same row"]
REQUIRED_STATES = ["a tolerance above 1 / infinite (criterion switched off)", "tolerances given as Decimal / Fraction / numpy numbers", "mode shapes with an exact zero in the first channel", "a tolerance of exactly zero through the classes", "tolerance dictionary in another key order", "ordmin = ordmax", "tolerances 1e-6..1e-7 on small damping / frequency", "run with covariance criterion", "stable", "fails fn only", "fails xi only", "fails MAC only", "prev column empty", "NaN pole", "below ordmin", "first column",
                   "nearest neighbour is not the same row"]
RULE = ("pole tables up to 40 orders x 12 rows with random / structured NaN patterns, per-column row shuffles, duplicates and close frequencies, "
        "complex shapes and perturbations straddling each tolerance; every cell's label compared with an independent model (nearest finite "
        "pole of the previous column; three strict relative tests; own MAC); the same postcondition wraps gen.SC_apply while SSIcov, SSIdat, "
        "pLSCF and the _MS variants run on noisy data; non-trivial = table with stable and unstable finite poles; distinct by table digest")
ASSUMPTIONS = ["not judged: any of the three quantities within 1e-9 of its tolerance, verdict depending on which of the two poles normalises the "
               "difference, exact ties for the nearest neighbour, and for pLSCF the single column ordmin-1 when ordmin >= 2 (DESIGN 3/C10)"]


PLUMB_CLASSES = ['SSIcov', 'SSIdat', 'pLSCF', 'pLSCF_MS']
PLUMB_FIELDS = ['Lab']
REQUIRED_MONITORS = list(REQUIRED_MONITORS) + [f"plumbing:{s_}" for s_ in plumbing.SCENARIOS]
REQUIRED_STATES = list(REQUIRED_STATES) + [f"plumbing scenario {s_}" for s_ in plumbing.SCENARIOS]


def cases(tier, seed):
    return _cases(tier, seed) + plumbing.cases(len(plumbing.SCENARIOS) * len(PLUMB_CLASSES) * (1 if tier == "quick" else 6), PLUMB_CLASSES)


def _cases(tier, seed):
    n1, n2, n3 = (300, 150, 16) if tier == "quick" else (6000, 3000, 160)
    return ([{"cls": "tables_random", "k": k} for k in range(n1)] + [{"cls": "tables_structured", "k": k} for k in range(n2)]
            + [{"cls": "inside_runs", "k": k} for k in range(n3)])


def model(Fn, Xi, Phi, ordmin, ordmax, step, efn, exi, ephi):
    """returns (labels, judged mask, state per cell)"""
    nr, nc = Fn.shape
    Lab = np.zeros((nr, nc), int)
    judged = np.ones((nr, nc), bool)
    state = np.full((nr, nc), "", dtype=object)
    for o in range(nc):
        order = o * step
        fin_prev = np.isfinite(Fn[:, o - 1]) if o > 0 else np.zeros(nr, bool)
        for i in range(nr):
            if not np.isfinite(Fn[i, o]):
                state[i, o] = "NaN pole"
                continue
            if o == 0:
                state[i, o] = "first column"
                continue
            if order < ordmin:
                state[i, o] = "below ordmin"
                continue
            if order > ordmax:
                state[i, o] = "above ordmax"
                continue
            if not fin_prev.any():
                state[i, o] = "prev column empty"
                continue
            d = np.where(fin_prev, np.abs(Fn[:, o - 1] - Fn[i, o]), np.inf)
            j = int(np.argmin(d))
            # exact ties for the nearest neighbour (the two poles of a conjugate pair share one frequency): the statement does not say
            # which one is compared - the cell is judged iff every tied candidate gives the same, unambiguous verdict
            cands = [int(q) for q in np.where(d <= d[j] * (1 + 1e-12) + 1e-300)[0]]
            verdicts = []
            for jj in cands:
                f, fp = Fn[i, o], Fn[jj, o - 1]
                x, xp = Xi[i, o], Xi[jj, o - 1]
                a, b = Phi[i, o], Phi[jj, o - 1]
                c1, c1b = abs(f - fp) / f, abs(f - fp) / fp
                c2, c2b = abs(x - xp) / x, abs(x - xp) / xp
                c3 = 1 - abs(np.vdot(a, b)) ** 2 / (np.vdot(a, a).real * np.vdot(b, b).real)
                amb = False
                for c, t in ((c1, efn), (c2, exi), (c3, ephi)):
                    if not np.isfinite(c) or abs(c - t) <= 1e-9 * max(1.0, abs(t)):
                        amb = True
                if (c1 < efn) != (c1b < efn) or (c2 < exi) != (c2b < exi):
                    amb = True
                verdicts.append((bool(c1 < efn), bool(c2 < exi), bool(c3 < ephi), amb))
            p1, p2, p3, _ = verdicts[0]
            if any(v[3] for v in verdicts) or len({v[0] and v[1] and v[2] for v in verdicts}) > 1:
                judged[i, o] = False
            Lab[i, o] = int(p1 and p2 and p3)
            nfail = 3 - (p1 + p2 + p3)
            st = "stable" if nfail == 0 else ("fails several" if nfail > 1 else ("fails fn only" if not p1 else ("fails xi only" if not p2 else "fails MAC only")))
            state[i, o] = st
            if j != i and judged[i, o]:
                state[i, o] = st + "|nn"
            if len(cands) > 1 and judged[i, o]:
                state[i, o] = state[i, o] + "|tie"
    return Lab, judged, state


def judge(ctx, tag, args, L, skip_cols=()):
    Fn, Xi, Phi, ordmin, ordmax, step, efn, exi, ephi = args
    if not ctx.check(np.shape(L) == np.shape(Fn), "labels:shape", lambda: f"{tag}: label table shape {np.shape(L)} for pole table {np.shape(Fn)}"):
        return
    M, judged, state = model(Fn, Xi, Phi, ordmin, ordmax, step, efn, exi, ephi)
    for c in skip_cols:
        if 0 <= c < judged.shape[1]:
            ctx.not_judged("pLSCF column ordmin-1 (column/order convention)", int(np.isfinite(Fn[:, c]).sum()))
            judged[:, c] = False
    ctx.ev(tag, int(judged.sum()))
    ctx.not_judged("cell within 1e-9 of a tolerance / tie / denominator-dependent", int((~judged & np.isfinite(Fn)).sum()) - 0)
    L = np.asarray(L)
    bad = (L != M) & judged
    ctx.check(set(np.unique(L)) <= {0, 1}, "labels:values", lambda: f"{tag}: labels other than 0/1: {np.unique(L)}")
    if bad.any():
        i, o = np.argwhere(bad)[0]
        ctx.fail(f"labels:{'stable_but_should_not' if L[i,o]==1 else 'not_stable_but_should'}:{state[i,o].split('|')[0] or 'cell'}",
                 f"{tag}: cell (row {i}, column {o}, order {o*step}) labelled {L[i,o]}, model {M[i,o]} [{state[i,o]}]; ordmin={ordmin} ordmax={ordmax} step={step} "
                 f"tol=({efn},{exi},{ephi}); {int(bad.sum())} of {int(judged.sum())} judged cells differ")
    for s in np.unique(state[judged]):
        if s:
            base, *flags = s.split("|")
            ctx.state(base, int((state[judged] == s).sum()))
            if "nn" in flags:
                ctx.state("nearest neighbour is not the same row", int((state[judged] == s).sum()))
            if "tie" in flags:
                ctx.state("tied nearest neighbours with one verdict (conjugate pair)", int((state[judged] == s).sum()))
    fin = np.isfinite(Fn) & judged
    if (M[fin] == 1).any() and (M[fin] == 0).any():
        ctx.nontrivial((tag, probes.sha(np.nan_to_num(Fn))[:10]))


def make_table(rng, structured):
    nr = int(rng.integers(2, 13))
    if rng.random() < 0.08:
        nr = 1  # one pole slot per order (a first-order fit): the only candidate is the pole's own row
    if rng.random() < 0.25:
        nr = int(rng.integers(17, 61))  # as many pole slots as a high-order SSI / several-channel pLSCF table
    no = int(rng.integers(2, 41))
    nch = int(rng.integers(2, 7))
    base = np.sort(rng.uniform(1, 50, nr))
    if nr > 1 and rng.random() < 0.4:  # duplicates / closely spaced
        k = int(rng.integers(0, nr - 1))
        base[k + 1] = base[k] * (1 + rng.choice([0.0, 1e-6, 1e-3]))
    efn, exi, ephi = float(rng.choice([0.001, 0.01, 0.05])), float(rng.choice([0.01, 0.05, 0.3])), float(rng.choice([0.001, 0.03, 0.2]))
    xi0 = 0.02
    make_table.tight = False
    if structured and rng.random() < 0.25:
        # tight tolerances on small quantities (lightly damped, low-frequency poles repeating to ~1e-6 between orders): the criteria are
        # relative differences, an absolute slack of the size of a default atol would show here
        efn, exi = float(rng.choice([1e-6, 1e-7])), float(rng.choice([1e-6, 1e-7]))
        xi0 = float(rng.choice([0.002, 0.0005, 0.02]))
        base = base * float(rng.choice([1e-3, 1e-2, 1.0]))
        make_table.tight = True
    if structured:
        # perturbations chosen relative to the tolerances: well inside / straddling / outside
        lev = rng.choice([0.2, 0.9, 1.1, 3.0], size=(nr, no))
        Fn = base[:, None] * (1 + efn * lev * rng.choice([-1, 1], size=(nr, no)) * rng.uniform(0.5, 1, (nr, no)))
        lev2 = rng.choice([0.2, 0.9, 1.1, 3.0], size=(nr, no))
        Xi = xi0 * (1 + exi * lev2 * rng.choice([-1, 1], size=(nr, no)) * rng.uniform(0.3, 1, (nr, no)))
        P0 = rng.standard_normal((nr, nch)) + 1j * rng.standard_normal((nr, nch))
        lev3 = rng.choice([0.2, 0.9, 1.1, 3.0], size=(nr, no, 1))
        Phi = P0[:, None, :] + np.sqrt(ephi * lev3) * 0.7 * (rng.standard_normal((nr, no, nch)) + 1j * rng.standard_normal((nr, no, nch))) / np.sqrt(2)
    else:
        Fn = base[:, None] * (1 + rng.choice([1e-4, 5e-3, 0.02], size=(nr, no)) * rng.standard_normal((nr, no)))
        Xi = 0.02 * (1 + rng.choice([1e-3, 0.03, 0.2], size=(nr, no)) * rng.standard_normal((nr, no)))
        P0 = rng.standard_normal((nr, nch)) + 1j * rng.standard_normal((nr, nch))
        Phi = P0[:, None, :] + rng.choice([1e-3, 0.1, 0.5], size=(nr, no, 1)) * (rng.standard_normal((nr, no, nch)) + 1j * rng.standard_normal((nr, no, nch)))
    Xi = np.abs(Xi) + (0.0 if make_table.tight else 1e-4)
    make_table.zero_first = False
    if rng.random() < 0.2:
        # the first sensor sits on a node of some modes: an exact zero in channel 0 (the MAC does not care which channel it is)
        rows0 = rng.random(nr) < 0.5
        Phi[rows0, :, 0] = 0.0
        make_table.zero_first = bool(rows0.any())
    mask = rng.random((nr, no)) < rng.choice([0, 0.2, 0.6])
    if rng.random() < 0.4:
        mask[:, int(rng.integers(0, no))] = True
    if rng.random() < 0.3:
        mask[:, : int(rng.integers(1, 3))] = True
    for o in range(no):
        p = rng.permutation(nr)
        Fn[:, o], Xi[:, o], Phi[:, o], mask[:, o] = Fn[p, o], Xi[p, o], Phi[p, o], mask[p, o]
    Fn[mask] = np.nan
    Xi[mask] = np.nan
    Phi[mask] = np.nan
    return Fn, Xi, Phi, efn, exi, ephi


def run_tables(ctx, rng, structured, case):
    from pyoma2.functions import gen as G_

    Fn, Xi, Phi, efn, exi, ephi = make_table(rng, structured)
    no = Fn.shape[1]
    step = 1 if rng.random() < 0.8 else int(rng.choice([2, 3]))
    ordmax_full = (no - 1) * step
    ordmax = ordmax_full if rng.random() < 0.7 else int(rng.integers(0, no)) * step
    ordmin = int(rng.integers(0, ordmax // step + 1)) * step
    if rng.random() < 0.1:
        ordmin = ordmax  # the single requested order still has a previous order to be compared with
    if ordmin == ordmax and ordmax >= step:
        ctx.state("ordmin = ordmax")
    if make_table.tight:
        ctx.state("tolerances 1e-6..1e-7 on small damping / frequency")
    if make_table.zero_first:
        ctx.state("mode shapes with an exact zero in the first channel")
    if case["k"] % 9 == 4:
        # a criterion switched off by a tolerance nothing can exceed: relative differences of damping (and frequency) are not bounded by 1
        exi = [3.0, float("inf"), 1.5][case["k"] // 9 % 3]
        if case["k"] // 27 % 2:
            efn = 2.0
        # ... and damping estimates that do differ by more than a factor of two between neighbouring orders
        fin_ = np.isfinite(Xi)
        Xi = np.where(fin_ & (rng.random(Xi.shape) < 0.4), Xi * rng.choice([0.3, 2.7, 6.0], size=Xi.shape), Xi)
        ctx.state("a tolerance above 1 / infinite (criterion switched off)")
    args = (Fn, Xi, Phi, ordmin, ordmax, step, efn, exi, ephi)
    copies = (Fn.copy(), Xi.copy(), Phi.copy())
    # the labels are a function of the tables and the tolerances - not of the floating-point error mode the caller happens to work in
    if case["k"] % 4 == 1 and not np.any(Fn == 0) and not np.any(Xi == 0):
        with np.errstate(all="ignore"):
            L_ign = np.asarray(G_.SC_apply(Fn.copy(), Xi.copy(), Phi.copy(), ordmin, ordmax, step, efn, exi, ephi))
        try:
            with np.errstate(invalid="raise", divide="raise"):
                L_raise = np.asarray(G_.SC_apply(Fn.copy(), Xi.copy(), Phi.copy(), ordmin, ordmax, step, efn, exi, ephi))
        except FloatingPointError as e_:
            L_raise = f"FloatingPointError: {e_}"
        ctx.ev("labels under another floating-point error mode")
        ctx.check(isinstance(L_raise, np.ndarray) and np.array_equal(L_ign, L_raise), "labels:depend_on_floating_point_error_mode",
                  lambda: f"SC_apply under np.errstate(invalid='raise', divide='raise') gives {L_raise if isinstance(L_raise, str) else str(int((L_ign != L_raise).sum())) + ' other labels'} than under errstate(all='ignore')")
    if Fn.shape[0] == 1:
        ctx.state("one pole slot per order")
    targs = args
    if case["k"] % 5 == 3:
        # the tolerances are numbers: any number type holding the same value means the same (they come out of a user's dictionary untouched)
        import decimal
        import fractions

        kind = ["decimal", "fraction", "numpy float64", "0-d array", "decimal"][(case["k"] // 5) % 5]
        conv = {"decimal": lambda v: decimal.Decimal(repr(v)), "fraction": lambda v: fractions.Fraction(repr(v)) if np.isfinite(v) else v, "numpy float64": np.float64,
                "0-d array": lambda v: np.array(v)}[kind]
        targs = args[:6] + tuple(conv(float(v)) for v in (efn, exi, ephi))
        ctx.state("tolerances given as Decimal / Fraction / numpy numbers")
    L = G_.SC_apply(*targs)
    judge(ctx, "labels@SC_apply(function)", args, L)
    ctx.ev("purity@SC_apply")
    L2 = G_.SC_apply(copies[0].copy(), copies[1].copy(), copies[2].copy(), ordmin, ordmax, step, efn, exi, ephi)
    ctx.check(np.array_equal(L, L2), "labels:not_pure", "SC_apply returns different labels for equal inputs")
    # the labels handed out belong to the caller: a later call on ANOTHER table of the same shape (the next algorithm of the setup, the same
    # algorithm with other tolerances) leaves them alone
    L_keep = np.array(L, copy=True)
    other_Fn = np.where(np.isfinite(Fn), Fn[::-1] * 1.07, np.nan) if Fn.shape[0] > 1 else Fn * 1.5
    L_other = G_.SC_apply(np.nan_to_num(other_Fn, nan=np.nan), copies[1].copy(), copies[2].copy(), ordmin, ordmax, step, efn * 3, exi, ephi)
    ctx.ev("labels kept after a later call")
    ctx.check(np.array_equal(L, L_keep), "labels:earlier_result_changed_by_a_later_call",
              lambda: f"the label table returned by SC_apply changed ({int((np.asarray(L) != L_keep).sum())} entries) when SC_apply was called on another table of the same shape")
    same = all(np.array_equal(a, b, equal_nan=True) for a, b in zip((Fn, Xi, Phi), copies))
    ctx.check(same, "labels:inputs_modified", "SC_apply modified the pole tables it was given")
    ctx.sample({"entry": "gen.SC_apply", "table": list(Fn.shape), "ordmin": ordmin, "ordmax": ordmax, "step": step, "tol": [efn, exi, ephi],
                "nan_fraction": float(np.isnan(Fn).mean()), "structured": structured})


def run_inside(ctx, rng):
    import pyoma2.functions.gen as G_
    from pyoma2.algorithms import SSIcov, SSIcov_MS, SSIdat, pLSCF, pLSCF_MS
    from pyoma2.setup import MultiSetup_PreGER, SingleSetup

    rec = []
    orig = G_.SC_apply

    def spy(Fn, Xi, Phi, ordmin, ordmax, step, err_fn, err_xi, err_phi):
        a = (np.array(Fn, copy=True), np.array(Xi, copy=True), np.array(Phi, copy=True), ordmin, ordmax, step, err_fn, err_xi, err_phi)
        out = orig(Fn, Xi, Phi, ordmin, ordmax, step, err_fn, err_xi, err_phi)
        rec.append((a, np.array(out, copy=True)))
        return out

    nch = int(rng.integers(4, 6))
    data, *_ = gen.sim_response(rng, nch, int(rng.integers(3000, 6000)), 100.0, m=3, complex_modes=bool(rng.integers(0, 2)))
    sc = dict(err_fn=float(rng.choice([0.005, 0.01, 0.03])), err_xi=float(rng.choice([0.05, 0.2])), err_phi=float(rng.choice([0.02, 0.05])))
    if rng.random() < 0.35:
        # a tolerance of exactly 0: no difference is ever below it, so nothing may be labelled stable
        sc[str(rng.choice(list(sc)))] = 0.0
        ctx.state("a tolerance of exactly zero through the classes")
    if rng.random() < 0.5:
        # the tolerances are named: a dictionary written in another key order means the same
        sc = {k: sc[k] for k in [str(x) for x in rng.permutation(list(sc))]}
        if list(sc) != ["err_fn", "err_xi", "err_phi"]:
            ctx.state("tolerance dictionary in another key order")
    ordmin_s = int(rng.choice([0, 0, 3, 6, 18]))
    ordmin_p = int(rng.choice([0, 0, 1, 2, 3, 7]))
    specs = [("SSIcov", SSIcov, dict(br=8, ordmax=18, ordmin=ordmin_s, sc=sc)), ("SSIdat", SSIdat, dict(br=8, ordmax=18, ordmin=ordmin_s, sc=sc)),
             ("SSIcov", SSIcov, dict(br=6, ordmax=10, ordmin=0, sc=sc, calc_unc=True, nb=10, hc=dict(conj=True, xi_max=0.1, mpc_lim=0.5, mpd_lim=0.5, cov_max=float(rng.choice([2e-4, 1e-3, 5e-3]))))),
             ("pLSCF", pLSCF, dict(ordmax=8, ordmin=ordmin_p, nxseg=256, sc=sc))]
    with probes.patched(G_, "SC_apply", spy):
        for name, cls, kw in specs:
            del rec[:]
            ss = SingleSetup(data.copy(), 100.0)
            alg = cls(name="a", **kw)
            ss.add_algorithms(alg)
            ss.run_all()
            finish_run(ctx, name, alg, rec, ordmin_p if name == "pLSCF" else None)
        # multi-setup variants
        d1 = data[: len(data) // 2, :]
        d2 = data[len(data) // 2:, : nch - 1][:, ::-1]
        ref = [[0, 1], [nch - 2, nch - 3]]
        for name, cls, kw in (("SSIcov_MS", SSIcov_MS, dict(br=8, ordmax=14, ordmin=min(ordmin_s, 14), sc=sc)), ("pLSCF_MS", pLSCF_MS, dict(ordmax=6, ordmin=min(ordmin_p, 5), nxseg=256, sc=sc))):
            del rec[:]
            ms = MultiSetup_PreGER(100.0, [list(r) for r in ref], [d1.copy(), d2.copy()])
            alg = cls(name="a", **kw)
            ms.add_algorithms(alg)
            ms.run_all()
            finish_run(ctx, name, alg, rec, min(ordmin_p, 5) if name == "pLSCF_MS" else None)


def finish_run(ctx, name, alg, rec, plscf_ordmin):
    if not ctx.check(len(rec) == 1, "run:sc_apply_calls", lambda: f"{name}.run called SC_apply {len(rec)} times"):
        return
    args, out = rec[0]
    skip = (plscf_ordmin - 1,) if (plscf_ordmin is not None and plscf_ordmin >= 2) else ()
    judge(ctx, f"labels@SC_apply(inside {name}.run)", args, out, skip)
    r = alg.result
    ctx.ev("result.Lab==labels of final tables")
    ok = (np.array_equal(r.Lab, out) and np.array_equal(r.Fn_poles, args[0], equal_nan=True) and np.array_equal(r.Xi_poles, args[1], equal_nan=True)
          and np.array_equal(r.Phi_poles, args[2], equal_nan=True))
    ctx.check(ok, "run:labels_not_of_final_tables", f"{name}: result.Lab / result pole tables are not the ones the labels were computed from")
    # and independently of how run() is organised: the stored labels must be what the model computes from the stored (final) tables
    rp = alg.run_params
    is_p = plscf_ordmin is not None
    final_args = (np.asarray(r.Fn_poles), np.asarray(r.Xi_poles), np.asarray(r.Phi_poles), rp.ordmin, (rp.ordmax - 1) if is_p else rp.ordmax, 1,
                  rp.sc["err_fn"], rp.sc["err_xi"], rp.sc["err_phi"])
    judge(ctx, f"labels@SC_apply(inside {name}.run)", final_args, np.asarray(r.Lab), skip)
    if getattr(rp, "calc_unc", False):
        ctx.state("run with covariance criterion")


def run_case(ctx, case):
    if case["cls"] == "plumbing":
        return plumbing.run_case(ctx, case, gen.rng_of(case), PLUMB_FIELDS)
    rng = gen.rng_of(case)
    if case["cls"] == "inside_runs":
        run_inside(ctx, rng)
    else:
        run_tables(ctx, rng, case["cls"] == "tables_structured", case)
