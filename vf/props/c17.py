"""C17 - Frequency variance equals first-order propagation of the Hankel covariance  [D + P]."""
from __future__ import annotations

import collections

import numpy as np

from vf import gen, plumbing, probes

PID = "C17"
ANCHORS = ["pyoma2.functions.ssi:build_hank", "pyoma2.functions.ssi:SSI_fast", "pyoma2.functions.ssi:SSI_poles", "pyoma2.functions.ssi:ac2mp", "pyoma2.algorithms.ssi:SSIdat.run"]
REQUIRED_MONITORS = ["second evaluation from the same auxiliary matrices", "delta-method@SSI_fast+SSI_poles(synthetic factor)", "delta-method@SSI_fast+SSI_poles(factor from data)", "factor-definition@build_hank",
                     "class-uses-the-same-propagation@SSIcov(calc_unc)"]
ALL_STATES = ["single column factor", "multi column factor", "order < ordmax", "order = ordmax", "l=1", "l=3", "ref subset", "br=2", "br=5"]
REQUIRED_STATES = ["single column factor", "multi column factor", "order < ordmax", "order = ordmax", "ref subset", "column-major Hankel matrix",
                   "singular values below 1e-8 (small-amplitude records)", "exactly symmetric Hankel matrix (one channel, its own reference)",
                   "covariance factor with columns 8 decades apart"]
RULE = ("Hankel matrices = exact rank-2m product (C01 generator, unit norm) + 1e-3 full-rank part, or estimated from data; 1..3 channels, any reference "
        "subset, br 2..5, orders 2..8 (also below ordmax); covariance factor with 1..20 columns of random directions vec_F(dH_k), or the factor "
        "build_hank returns; Fn_cov compared with the sum of squared central finite differences of the identification itself (eps 1e-6 and 1e-7 must "
        "agree to 1e-4); guards: singular-value gaps >= 1e-3, eigenvalue separation >= 0.05; tolerance 1e-3; the data factor is compared with its "
        "definition; every judged case is non-trivial; distinct by (shape, order, columns, seed)")
ASSUMPTIONS = ["finite differences of the library's own SSI_fast + eigen-decomposition are the reference derivative (agreement of two step sizes required)",
               "cases outside the quantifier's guards are counted as not judged"]


PLUMB_CLASSES = ['SSIcov+unc']
PLUMB_FIELDS = ['Fn_poles_cov', 'Xi_poles_cov', 'Phi_poles_cov', 'Fn_cov', 'Xi_cov', 'Phi_cov', 'Fn_poles', 'Xi_poles']
REQUIRED_MONITORS = list(REQUIRED_MONITORS) + [f"plumbing:{s_}" for s_ in plumbing.SCENARIOS]
REQUIRED_STATES = list(REQUIRED_STATES) + [f"plumbing scenario {s_}" for s_ in plumbing.SCENARIOS]


def cases(tier, seed):
    return _cases(tier, seed) + plumbing.cases(len(plumbing.SCENARIOS) * len(PLUMB_CLASSES) * (1 if tier == "quick" else 6), PLUMB_CLASSES)


def _cases(tier, seed):
    n1, n2, n3, n4 = (110, 40, 60, 6) if tier == "quick" else (1500, 500, 800, 60)
    return ([{"cls": "synthetic_factor", "k": k} for k in range(n1)] + [{"cls": "data_factor", "k": k} for k in range(n2)]
            + [{"cls": "factor_definition", "k": k} for k in range(n3)] + [{"cls": "class_run", "k": k} for k in range(n4)])


def ident(ssi, H, br, order, ordmax, dt):
    Obs, A, C, *_ = ssi.SSI_fast(H, br, ordmax)
    lam = np.linalg.eigvals(A[order])
    lc = np.log(lam) / dt
    return np.abs(lc) / (2 * np.pi), lc


def low_rank_hankel(rng):
    for _ in range(200):
        l = int(rng.integers(1, 4))
        r = int(rng.integers(1, l + 1))
        br = int(rng.integers(2, 6))
        m = int(rng.integers(1, 5))
        n = 2 * m
        p, q = br, br + 1
        if min((p + 1) * l, q * r) < n + 3 or p * l < n + 2:
            continue
        fs = 100.0
        dt = 1 / fs
        fn, xi, Phi, lam = gen.make_system(rng, m, l, fs, False, (0.01, 0.05), 0.03, 0.4, 0.05)
        mu = np.concatenate([np.exp(lam * dt), np.exp(np.conj(lam) * dt)])
        Cc = np.hstack([Phi, Phi]).astype(complex)
        refidx = sorted(int(x) for x in rng.permutation(l)[:r])
        G = rng.standard_normal((m, r)) + 1j * rng.standard_normal((m, r))
        G = np.vstack([G, np.conj(G)])
        O = np.vstack([Cc * (mu**k)[None, :] for k in range(p + 1)])
        Gam = np.hstack([(mu**k)[:, None] * G for k in range(q)])
        H = (O @ Gam).real
        H = H / np.linalg.norm(H, 2)
        low_rank_hankel.symmetric = False
        if l == 1 and r == 1 and rng.random() < 0.6:
            # one channel that is its own reference: the exact matrix is a Hankel matrix R_{a+b+1}, i.e. exactly symmetric - and so is a
            # small full-rank Hankel-structured part (indefinite: an oscillating correlation has negative eigenvalues)
            q0 = rng.uniform(0.5, 2, m) * np.exp(1j * rng.uniform(0, 2 * np.pi, m))
            seq = np.array([np.real(np.sum(q0 * np.exp(lam * dt * k_))) for k_ in range(1, 2 * br + 3)])
            seq = seq / np.max(np.abs(seq)) + 1e-3 * rng.standard_normal(len(seq))
            H = np.array([[seq[a_ + b_] for b_ in range(br + 1)] for a_ in range(br + 1)])
            H = H / np.linalg.norm(H, 2)
            low_rank_hankel.symmetric = bool(np.array_equal(H, H.T))
            return H, br, n, dt, l, r
        H = H + 1e-3 * rng.standard_normal(H.shape)
        return H, br, n, dt, l, r
    raise RuntimeError("generator")


def judge_orders(ctx, tag, ssi, H, br, ordmax, dt, T, orders, sig):
    nb = T.shape[1]
    s = np.linalg.svd(H, compute_uv=False)
    if len(s) < ordmax + 1:
        ctx.not_judged("Hankel too small for ordmax+1 singular values")
        return
    gaps = np.min(np.abs(np.diff(s[: ordmax + 1])) / s[:ordmax])
    if gaps < 1e-3:
        ctx.not_judged("relative singular-value gap < 1e-3")
        return
    Hkeep, Tkeep = np.array(H, copy=True, order="C"), np.array(T, copy=True, order="C")
    if H.flags.f_contiguous and not H.flags.c_contiguous:
        ctx.state("column-major Hankel matrix")
    if s[0] < 1e-8:
        ctx.state("singular values below 1e-8 (small-amplitude records)")
    Obs, A, C, Q1, Q2, Q3, Q4 = ssi.SSI_fast(H, br, ordmax, calc_unc=True, T=T, nb=nb)
    ctx.ev("inputs of the identification step unchanged")
    if not ctx.check(np.array_equal(H, Hkeep) and np.array_equal(T, Tkeep), f"{sig}:identification_modifies_its_inputs",
                     f"{tag}: SSI_fast(calc_unc=True) changed the Hankel matrix / the factor it was given (column-major input: {bool(H.flags.f_contiguous and not H.flags.c_contiguous)})"):
        H = Hkeep
    Qkeep = [np.array(q, copy=True) for q in (Q1, Q2, Q3, Q4)]
    Fn, Xi, Phi, Lam, Fc, Xc, Pc = ssi.SSI_poles(Obs, A, C, ordmax, dt, calc_unc=True, Q1=Q1, Q2=Q2, Q3=Q3, Q4=Q4)
    ctx.ev("second evaluation from the same auxiliary matrices")
    same_q = all(np.array_equal(a, b) for a, b in zip(Qkeep, (Q1, Q2, Q3, Q4)))
    Fc2 = ssi.SSI_poles(Obs, A, C, ordmax, dt, calc_unc=True, Q1=Q1, Q2=Q2, Q3=Q3, Q4=Q4)[4]
    ctx.check(same_q and np.array_equal(Fc, Fc2, equal_nan=True), f"{sig}:pole_step_modifies_its_inputs",
              f"{tag}: SSI_poles changed the auxiliary matrices it was given / a second evaluation from them reports other variances")
    dHs = [T[:, k].reshape(H.shape, order="F") for k in range(nb)]
    for order in orders:
        f0, l0 = ident(ssi, H, br, order, ordmax, dt)
        if order > 1 and min(abs(l0[i] - l0[j]) for i in range(order) for j in range(i)) < 0.05:
            ctx.not_judged("eigenvalue separation < 0.05")
            continue
        tot = {}
        noise = {}
        for eps in (1e-6, 1e-7):
            acc = np.zeros(order)
            nH = np.linalg.norm(H)
            # rounding noise of the difference quotient, measured: the frequencies do not depend on the scale of H at all, so whatever
            # f(H (1 + eps)) - f(H (1 - eps)) shows is rounding. A column contributes (noise / (2 eps) * its relative size)^2 of it.
            fp_, lp_ = ident(ssi, H * (1 + eps), br, order, ordmax, dt)
            fm_, lm_ = ident(ssi, H * (1 - eps), br, order, ordmax, dt)
            dl = np.array([abs(fp_[int(np.argmin(np.abs(lp_ - l0[j])))] - fm_[int(np.argmin(np.abs(lm_ - l0[j])))]) for j in range(order)])
            dl = np.maximum(dl, 4 * np.finfo(float).eps * np.abs(f0))
            noise[eps] = np.zeros(order)
            for dH in dHs:
                # directional derivative along the column, taken along the direction scaled to the size of H (the derivative is linear in
                # the direction): columns of any magnitude are differentiated at the same relative step
                nk = np.linalg.norm(dH) / nH
                if nk == 0:
                    continue
                c_ = float(np.vdot(H, dH) / np.vdot(H, H))
                if np.linalg.norm(dH - c_ * H) <= 1e-13 * np.linalg.norm(dH):
                    continue  # a column proportional to vec(H) (a common gain uncertainty): its exact derivative is zero, nothing to difference
                noise[eps] += (dl / (2 * eps) * nk) ** 2
                U_ = dH / nk
                fp, lp = ident(ssi, H + eps * U_, br, order, ordmax, dt)
                fm, lm = ident(ssi, H - eps * U_, br, order, ordmax, dt)
                for j in range(order):
                    jp = int(np.argmin(np.abs(lp - l0[j])))
                    jm = int(np.argmin(np.abs(lm - l0[j])))
                    acc[j] += ((fp[jp] - fm[jm]) / (2 * eps) * nk) ** 2
            tot[eps] = acc
        agree = np.max(np.abs(tot[1e-6] - tot[1e-7]) / np.maximum(tot[1e-6], 1e-300))
        if agree > 1e-4:
            ctx.not_judged("finite differences at the two step sizes disagree by > 1e-4")
            continue
        if np.any(noise[1e-6] > 1e-4 * tot[1e-6]):
            ctx.not_judged("squared derivative below 1e4 x the measured rounding noise of the difference quotient")
            continue
        lam_tab = Lam[:order, order]
        ctx.ev(tag)
        worst = 0.0
        for j in range(order):
            k = int(np.argmin(np.abs(lam_tab - l0[j])))
            rel = abs(Fc[k, order] - tot[1e-6][j]) / tot[1e-6][j]
            worst = np.inf if (np.isnan(rel) or np.isnan(worst)) else max(worst, rel)  # a NaN variance is a mismatch
        ctx.maxi(f"{tag}: worst relative difference", worst)
        if not (worst <= 1e-3):
            ratio = [float(Fc[int(np.argmin(np.abs(lam_tab - l0[j]))), order] / tot[1e-6][j]) for j in range(order)]
            ctx.fail(f"{sig}:variance_not_first_order_propagation",
                     f"{tag}: H {H.shape}, br={br}, ordmax={ordmax}, order={order}, {nb} factor column(s): reported variance / squared directional derivative = {np.round(ratio, 4).tolist()} (finite-difference agreement {agree:.1e})")
        ctx.state("order < ordmax" if order < ordmax else "order = ordmax")
        ctx.nontrivial((tag, H.shape, br, order, ordmax, nb, float(np.round(s[0], 6))))


def run_synthetic(ctx, rng):
    from pyoma2.functions import ssi

    H, br, n, dt, l, r = low_rank_hankel(rng)
    ordmax = n + int(rng.integers(0, 3))
    if min(H.shape) < ordmax + 1 or br * l < ordmax:
        ordmax = n
    nb = 1 if rng.random() < 0.35 else int(rng.integers(2, 21))
    T = np.hstack([rng.standard_normal(H.shape).reshape(-1, 1, order="F") for _ in range(nb)])
    if getattr(low_rank_hankel, "symmetric", False):
        ctx.state("exactly symmetric Hankel matrix (one channel, its own reference)")
    if nb >= 2 and rng.random() < 0.2:
        # a factor with an enormous dynamic range: one large column along which the frequencies do not move at all (a common gain
        # uncertainty, vec(H) itself) beside small generic columns - the small ones carry all the variance
        T = T / np.linalg.norm(T, axis=0, keepdims=True) * 4e-10 * np.linalg.norm(H)
        T[:, 0] = 0.05 * H.reshape(-1, order="F")
        ctx.state("covariance factor with columns 8 decades apart")
    orders = sorted({2, n, ordmax} if rng.random() < 0.5 else {n, ordmax})
    if rng.random() < 0.35:
        a = float(10 ** rng.uniform(-13, 4))  # the propagation is homogeneous of degree 0 in a common scale of (H, factor)
        H, T = H * a, T * a
    if rng.random() < 0.3:
        H = np.asfortranarray(H)  # e.g. the transpose of a row-major product, a matrix read from column-major storage
    judge_orders(ctx, "delta-method@SSI_fast+SSI_poles(synthetic factor)", ssi, H, br, ordmax, dt, T, orders, "synthetic")
    ctx.state("single column factor" if nb == 1 else "multi column factor")
    ctx.state(f"l={l}")
    ctx.state(f"br={br}")
    if r < l:
        ctx.state("ref subset")
    ctx.sample({"entry": "ssi.SSI_fast + ssi.SSI_poles with calc_unc", "H": list(H.shape), "channels": l, "refs": r, "br": br, "ordmax": ordmax, "orders": orders, "factor columns": nb})


def sim(rng, l, N):
    data, *_ = gen.sim_response(rng, l, N, 100.0, m=int(rng.integers(1, 3)), xi_rng=(0.01, 0.04), noise=0.05, fmax=0.4, minsep=0.1)
    return data.T.copy()


def run_data_factor(ctx, rng):
    from pyoma2.functions import ssi

    l = int(rng.integers(1, 4))
    r = int(rng.integers(1, l + 1))
    br = int(rng.integers(2, 6))
    refidx = sorted(int(x) for x in rng.permutation(l)[:r])
    Y = sim(rng, l, int(rng.integers(3000, 8000)))
    if rng.random() < 0.4:
        Y = Y * float(10 ** rng.uniform(-6.5, 2))  # records in other units (accelerations in g, displacements in m)
    nb = int(rng.integers(2, 21))
    H, T = ssi.build_hank(Y, Y[refidx], br, "cov_mm", calc_unc=True, nb=nb)
    ordmax = int(min(rng.integers(2, 7), br * l, (br + 1) * r - 1, (br + 1) * l - 1))
    if ordmax < 2:
        ctx.not_judged("shape too small")
        return
    judge_orders(ctx, "delta-method@SSI_fast+SSI_poles(factor from data)", ssi, H, br, ordmax, 0.01, T, sorted({2, ordmax}), "data_factor")
    ctx.state("multi column factor")
    if r < l:
        ctx.state("ref subset")


def run_definition(ctx, rng):
    from pyoma2.functions import ssi

    l = int(rng.integers(1, 4))
    r = int(rng.integers(1, l + 1))
    br = int(rng.integers(2, 6))
    refidx = sorted(int(x) for x in rng.permutation(l)[:r])
    Nd = int(rng.integers(600, 6000))
    Y = sim(rng, l, Nd)
    nb = int(rng.integers(2, 41))
    H, T = ssi.build_hank(Y, Y[refidx], br, "cov_mm", calc_unc=True, nb=nb)
    ctx.ev("factor-definition@build_hank")
    p, q = br, br + 1
    N = Nd - p - q
    Yf = np.vstack([Y[:, q + 1 + i: N + q + i] for i in range(p + 1)])
    Yp = np.vstack([Y[refidx][:, q - j: N + q - 1 - j] for j in range(q)])
    Hfull = Yf @ Yp.T / N
    if not ctx.check(np.shape(T) == (H.size, nb), "factor:shape", lambda: f"factor shape {np.shape(T)} expected {(H.size, nb)}"):
        return
    ctx.check(np.allclose(H, Hfull, rtol=1e-10, atol=1e-12 * np.max(np.abs(Hfull))), "factor:hankel_changed_by_calc_unc", "the Hankel matrix returned with calc_unc=True differs from the plain estimate")
    Nb = N // nb
    Hk = [Yf[:, k * Nb:(k + 1) * Nb] @ Yp[:, k * Nb:(k + 1) * Nb].T / Nb for k in range(nb)]
    Tdef = np.hstack([(hk - Hfull).reshape(-1, 1, order="F") for hk in Hk]) / np.sqrt(nb * (nb - 1))
    err = np.linalg.norm(T - Tdef) / np.linalg.norm(Tdef)
    ctx.maxi("factor-definition@build_hank: worst relative difference", err)
    if not (err <= 1e-8):
        Trow = np.hstack([(hk - Hfull).reshape(-1, 1, order="C") for hk in Hk]) / np.sqrt(nb * (nb - 1))
        Tunscaled = np.hstack([(hk / N - Hfull).reshape(-1, 1, order="C") for hk in Hk]) / np.sqrt(nb * (nb - 1))
        mech = "mismatch"
        if np.linalg.norm(T - Trow) <= 1e-8 * np.linalg.norm(Trow):
            mech = "row_major_vectorisation"
        elif np.linalg.norm(T - Tunscaled) <= 1e-8 * np.linalg.norm(Tunscaled):
            mech = "block_estimates_scaled_by_1_over_N_and_row_major"
        ctx.fail(f"factor:{mech}", f"build_hank(calc_unc=True, nb={nb}) l={l} ref={refidx} br={br} Ndat={Nd}: factor differs from vec_F(H_k - H)/sqrt(nb(nb-1)) by {err:.3e} (relative); "
                                   f"|T col| = {np.linalg.norm(T[:, 0]):.3e}, definition {np.linalg.norm(Tdef[:, 0]):.3e}, |vec H|/sqrt(nb(nb-1)) = {np.linalg.norm(Hfull)/np.sqrt(nb*(nb-1)):.3e}")
    # Gram matrix = sample covariance of the mean of the block estimates
    Hbar = sum(Hk) / nb
    cov_mean = sum(np.outer((hk - Hbar).ravel(order="F"), (hk - Hbar).ravel(order="F")) for hk in Hk) / (nb * (nb - 1))
    gram_def = Tdef @ Tdef.T
    shift = np.linalg.norm(gram_def - cov_mean) / np.linalg.norm(cov_mean)
    ctx.maxi("definition: |T T^T - sample covariance of the mean| / |cov| (H vs mean of blocks)", shift)
    ctx.nontrivial(("definition", l, tuple(refidx), br, Nd, nb))


def run_class(ctx, rng):
    import pyoma2.functions.ssi as S_
    from pyoma2.algorithms import SSIcov
    from pyoma2.setup import SingleSetup

    l = int(rng.integers(2, 4))
    data, *_ = gen.sim_response(rng, l, 6000, 100.0, m=2, minsep=0.1)
    refidx = [0] if rng.random() < 0.5 else None
    nb = int(rng.choice([10, 20]))
    br, ordmax = 5, 6
    rec = {}
    orig = S_.SSI_fast

    def spy(H, br_, ordmax_, step=1, calc_unc=False, T=None, nb=100):
        rec["args"] = (np.array(H), br_, ordmax_, calc_unc, None if T is None else np.array(T), nb)
        return orig(H, br_, ordmax_, step=step, calc_unc=calc_unc, T=T, nb=nb)

    ss = SingleSetup(data, 100.0)
    a = SSIcov(name="a", br=br, ordmax=ordmax, method="cov_mm", calc_unc=True, nb=nb, ref_ind=refidx, hc=dict(conj=False, xi_max=1.0, mpc_lim=-1.0, mpd_lim=10.0, cov_max=1e300))
    ss.add_algorithms(a)
    with probes.patched(S_, "SSI_fast", spy):
        ss.run_all()
    ctx.ev("class-uses-the-same-propagation@SSIcov(calc_unc)")
    H, br_, ordmax_, cu, T, nb_ = rec["args"]
    Hd, Td = S_.build_hank(data.T, data.T if refidx is None else data.T[refidx], br, "cov_mm", calc_unc=True, nb=nb)
    ok = cu is True and T is not None and nb_ == nb and np.array_equal(H, Hd) and np.array_equal(T, Td)
    ctx.check(ok, "class:factor_not_passed_on", "SSIcov(calc_unc=True).run does not hand the Hankel matrix and covariance factor of build_hank to SSI_fast")
    Obs, A, C, Q1, Q2, Q3, Q4 = S_.SSI_fast(Hd, br, ordmax, calc_unc=True, T=Td, nb=nb)
    F, X, P, L, Fc, Xc, Pc = S_.SSI_poles(Obs, A, C, ordmax, 0.01, calc_unc=True, Q1=Q1, Q2=Q2, Q3=Q3, Q4=Q4)
    r = a.result
    kept = np.isfinite(r.Fn_poles)
    # pole by pole: the variance stored beside a pole is the variance the function path reports for THAT pole (whatever the row order)
    def pairs(Ft, Xt, Fct, Xct, col):
        rows = [i for i in range(Ft.shape[0]) if np.isfinite(Ft[i, col])]
        return collections.Counter(tuple(-1.0 if np.isnan(v) else float(v) for v in (Ft[i, col], Xt[i, col], Fct[i, col], Xct[i, col])) for i in rows)

    okp = r.Fn_poles_cov is not None and r.Xi_poles_cov is not None
    if okp:
        Fr, Xr, Fcr, Xcr = (np.asarray(t) for t in (r.Fn_poles, r.Xi_poles, r.Fn_poles_cov, r.Xi_poles_cov))
        okp = Fr.shape == F.shape and all(not (pairs(Fr, Xr, Fcr, Xcr, c) - pairs(F, X, Fc, Xc, c)) for c in range(F.shape[1]))  # kept poles are a sub-multiset
    ctx.check(okp, "class:variances_differ_from_function_path",
              "result.Fn_poles_cov / Xi_poles_cov are not, pole by pole, the variances SSI_fast+SSI_poles give for build_hank's output")
    judge_orders(ctx, "delta-method@SSI_fast+SSI_poles(factor from data)", S_, Hd, br, ordmax, 0.01, Td, [ordmax], "class")
    ctx.nontrivial(("class", l, refidx is None, nb))


def run_case(ctx, case):
    if case["cls"] == "plumbing":
        return plumbing.run_case(ctx, case, gen.rng_of(case), PLUMB_FIELDS)
    rng = gen.rng_of(case)
    {"synthetic_factor": run_synthetic, "data_factor": run_data_factor, "factor_definition": run_definition, "class_run": run_class}[case["cls"]](ctx, rng)
