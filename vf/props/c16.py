"""C16 - Interactive pole picking hands over exactly the picked (frequency, order) pairs  [H + I]."""
from __future__ import annotations

import collections
import contextlib
import itertools

import numpy as np

from vf import gen

PID = "C16"
ANCHORS = ["pyoma2.support.sel_from_plot:SelFromPlot.get_closest_pole", "pyoma2.support.sel_from_plot:SelFromPlot.get_closest_freq",
           "pyoma2.support.sel_from_plot:SelFromPlot.on_click_SSI", "pyoma2.support.sel_from_plot:SelFromPlot.on_click_FDD",
           "pyoma2.support.sel_from_plot:SelFromPlot.sort_selected_poles", "pyoma2.support.sel_from_plot:SelFromPlot.on_key_press",
           "pyoma2.algorithms.ssi:SSIdat.mpe_from_plot", "pyoma2.algorithms.plscf:pLSCF.mpe_from_plot", "pyoma2.algorithms.fdd:FDD.mpe_from_plot"]
REQUIRED_MONITORS = ["action@SSI dialog(enumerated)", "action@SSI dialog(random)", "action@pLSCF dialog(random)", "action@FDD dialog(random)",
                     "hand-over@SSIcov.mpe_from_plot", "hand-over@pLSCF.mpe_from_plot", "hand-over@FDD.mpe_from_plot"]
ALL_STATES = ["picks in descending frequency order", "same pole picked twice", "deselect-one with >= 2 selected", "deselect-nearest with >= 2 selected", "click without modifier ignored",
              "click outside the axes", "pick on a column without poles", "deselect on empty selection", "modifier released before click"]
REQUIRED_STATES = ["picks a millionth of the pole spacing beside the midpoint of two poles", "picks outside the window the dialog opened with (after panning)", "picks in descending frequency order", "deselect-one with >= 2 selected", "deselect-nearest with >= 2 selected", "click without modifier ignored",
                   "click outside the axes", "deselect on empty selection", "modifier released before click", "dialog opened with freqlim",
                   "deselect-nearest beside the midpoint of two selected frequencies", "same pole picked twice",
                   "hand-over of picks at two alternating model orders", "pick at the lower edge of the axes", "hand-over with two retained poles closer than the extraction tolerance"]
RULE = ("the real SelFromPlot dialog is constructed with Tk replaced by inert stand-ins and driven by real matplotlib Mouse/Key events dispatched through "
        "the canvas callback registry at pixel positions computed from data coordinates; ALL sequences up to length 3 (quick) / 4 (thorough) over "
        "{shift down, shift up, pick at each of 6 poles of a 3x4 table, deselect-one, deselect-nearest at 2 positions}; random length-6 sequences at "
        "arbitrary coordinates over tables from real SSIcov / pLSCF / FDD runs; list-of-pairs model checked after every action; real hand-over "
        "through mpe_from_plot; non-trivial = sequence with >= 2 selections or a deselection on a non-empty selection; distinct = sequence")
ASSUMPTIONS = ["which entry 'deselect one' removes is not prescribed: exactly one pair must disappear",
               "exceptions raised inside a handler are recorded (a GUI main loop swallows them) and must leave the selection unchanged"]


def EXHAUSTIVE(tier):
    return False


def cases(tier, seed):
    L = 3 if tier == "quick" else 4
    nsym = 11
    # without a prefix almost every click is (correctly) ignored because the modifier is up: those sequences are enumerated up to
    # length L-1 only; with the modifier already held (prefix symbol 0 = shift down) all sequences up to length L are enumerated
    seqs = [list(s) for n in range(1, L) for s in itertools.product(range(nsym), repeat=n)]
    seqs += [[0] + list(s) for n in range(1, L) for s in itertools.product(range(nsym), repeat=n)]
    # length L with the modifier held: every sequence in the thorough tier; in the quick tier those that start with two picks
    # (symbols 2..7), which is where pairing and deselection can go wrong
    seqs += [[0] + list(s) for s in itertools.product(range(nsym), repeat=L) if tier == "thorough" or (2 <= s[0] <= 7 and 2 <= s[1] <= 7)]
    out = [{"cls": "enumerated", "seqs": seqs[c0:c0 + 50], "k": c0} for c0 in range(0, len(seqs), 50)]
    nr = 48 if tier == "quick" else 900
    out += [{"cls": "random", "plot": ["SSI", "pLSCF", "FDD"][k % 3], "k": k} for k in range(nr)]
    out += [{"cls": "synthetic_handover", "k": 5000 + k} for k in range(12 if tier == "quick" else 150)]
    return out


# ---------------------------------------------------------------------------------------- head-less dialog driver
class FakeRoot:
    def __init__(self, script):
        self.script = script

    def title(self, *a):
        pass

    def config(self, **k):
        pass

    def protocol(self, *a):
        pass

    def mainloop(self):
        self.script()

    def quit(self):
        pass

    def destroy(self):
        pass


class FakeMenu:
    def __init__(self, *a, **k):
        pass

    def add_command(self, **k):
        pass

    def add_cascade(self, **k):
        pass


@contextlib.contextmanager
def headless(script_holder):
    from unittest import mock

    from matplotlib.backends.backend_agg import FigureCanvasAgg

    import pyoma2.support.sel_from_plot as sfp

    class FakeTkCanvas(FigureCanvasAgg):
        def __init__(self, fig, master=None):
            super().__init__(fig)

        def get_tk_widget(self):
            class W:
                def pack(s, **k):
                    pass
            return W()

    orig_init = sfp.SelFromPlot._initialize_gui

    def init(self):
        script_holder["self"] = self
        orig_init(self)

    with mock.patch.object(sfp.tk, "Tk", lambda: FakeRoot(lambda: script_holder["script"]())), mock.patch.object(sfp.tk, "Menu", FakeMenu), \
            mock.patch.object(sfp, "FigureCanvasTkAgg", FakeTkCanvas), mock.patch.object(sfp, "NavigationToolbar2Tk", lambda *a, **k: None), \
            mock.patch.object(sfp.SelFromPlot, "_initialize_gui", init):
        yield sfp


class Session:
    """runs inside root.mainloop(): dispatches events and keeps the list-of-pairs model."""

    def __init__(self, ctx, dlg, plot, tag):
        self.ctx, self.dlg, self.plot, self.tag = ctx, dlg, plot, tag
        self.canvas = dlg.fig.canvas
        self.canvas.draw()
        self.model = []  # list of (freq, column) / (freq, line)
        self.shift = False
        self.hist = []
        self.nontrivial = False
        self.ok = True

    def pairs(self):
        d = self.dlg
        idx = d.pole_ind if self.plot in ("SSI", "pLSCF") else d.freq_ind
        return list(d.sel_freq), list(idx)

    def fail(self, sig, msg):
        self.ok = False
        self.ctx.fail(sig, f"{self.tag} history={self.hist}: {msg}")

    def key(self, down):
        from matplotlib.backend_bases import KeyEvent
        ev = KeyEvent("key_press_event" if down else "key_release_event", self.canvas, "shift")
        self.canvas.callbacks.process(ev.name, ev)
        self.shift = down
        self.hist.append("shift-down" if down else "shift-up")
        if not down:
            self.ctx.state("modifier released before click")
        self.check()

    def click(self, button, xd, yd, outside=False, pan=None):
        from matplotlib.backend_bases import MouseEvent
        ax = self.dlg.ax2
        ax.get_xlim(), ax.get_ylim()  # un-stale the view limits after the handler re-plotted (a GUI would have redrawn)
        if pan is not None:
            ax.set_xlim(*pan)  # the user drags / zooms out with the toolbar: what is clicked then lies outside the window the dialog opened with
            ax.get_xlim()
        if outside:
            px, py = 2, 2
        else:
            px, py = ax.transData.transform((xd, yd))
        ev = MouseEvent("button_press_event", self.canvas, px, py, button=button)
        before = self.pairs()
        exc = None
        try:
            self.canvas.callbacks.process("button_press_event", ev)
        except Exception as e:  # noqa: BLE001  a GUI main loop would print and go on
            exc = e
        self.hist.append(f"{ {1: 'pick', 2: 'deselect-nearest', 3: 'deselect-one'}[button] }@({xd:.4g},{yd:.4g}){' outside' if outside else ''}")
        self.ctx.ev(self.tag)
        xdata, ydata = ev.xdata, ev.ydata
        if exc is not None:
            self.ctx.add_extra("handler_exceptions_recorded", {type(exc).__name__: 1})
            if self.pairs() != before:
                self.fail("state_changed_by_failing_handler", f"handler raised {type(exc).__name__}: {exc} and changed the selection")
        if outside or xdata is None:
            self.ctx.state("click outside the axes")
        # ------------------------------- model
        if not self.shift:
            self.ctx.state("click without modifier ignored")
        elif button == 1:
            if xdata is not None and ydata is not None:
                p = self.model_pick(xdata, ydata)
                if p is not None:
                    if self.model and p[0] < max(f for f, _ in self.model):
                        self.ctx.state("picks in descending frequency order")
                    if p in self.model:
                        self.ctx.state("same pole picked twice")
                    self.model.append(p)
                    if len(self.model) >= 2:
                        self.nontrivial = True
                else:
                    self.ctx.state("pick on a column without poles")
        elif button == 3:
            if self.model:
                if len(self.model) >= 2:
                    self.ctx.state("deselect-one with >= 2 selected")
                self.nontrivial = True
                # exactly one pair disappears; which one is not prescribed: adopt the observation if it is consistent
                f, i = self.pairs()
                got = collections.Counter(zip([float(x) for x in f], [int(x) for x in i])) if len(f) == len(i) else None
                mdl = collections.Counter(self.model)
                if got is not None and sum(got.values()) == len(self.model) - 1 and not (got - mdl):
                    gone = list((mdl - got).elements())
                    self.model.remove(gone[0])
                else:
                    self.fail("deselect_one:not_exactly_one_pair_removed", f"selection before {sorted(self.model)}, after {sorted(zip(f, i)) if len(f) == len(i) else (f, i)}")
                    return
            else:
                self.ctx.state("deselect on empty selection")
        elif button == 2:
            if self.model and xdata is not None:
                if len(self.model) >= 2:
                    self.ctx.state("deselect-nearest with >= 2 selected")
                self.nontrivial = True
                d = [abs(f - xdata) for f, _ in self.model]
                dmin = min(d)
                cands = [p for p, dd in zip(self.model, d) if dd <= dmin * (1 + 1e-12) + 1e-300]
                f, i = self.pairs()
                got = collections.Counter(zip([float(x) for x in f], [int(x) for x in i])) if len(f) == len(i) else None
                mdl = collections.Counter(self.model)
                if got is not None and sum(got.values()) == len(self.model) - 1 and not (got - mdl):
                    gone = list((mdl - got).elements())[0]
                    if gone[0] not in [c[0] for c in cands]:
                        self.fail("deselect_nearest:removed_entry_not_nearest", f"click at {xdata:.5g}: removed {gone}, nearest selected frequency is {cands[0][0]:.6g}; selection was {sorted(self.model)}")
                        return
                    self.model.remove(gone)
                else:
                    self.fail("deselect_nearest:not_exactly_one_pair_removed", f"selection before {sorted(self.model)}, after {(f, i)}")
                    return
            elif not self.model:
                self.ctx.state("deselect on empty selection")
        self.check()

    def model_pick(self, xdata, ydata):
        r = self.dlg.algo.result
        if self.plot in ("SSI", "pLSCF"):
            F = np.asarray(r.Fn_poles)
            col = int(np.argmin(np.abs(np.arange(F.shape[1]) - ydata)))
            c = F[:, col]
            if not np.isfinite(c).any():
                return None
            j = int(np.nanargmin(np.abs(c - xdata)))
            return (float(c[j]), col)
        freq = np.asarray(r.freq)
        j = int(np.argmin(np.abs(freq - xdata)))
        return (float(freq[j]), j)

    def check(self):
        f, i = self.pairs()
        if len(f) != len(i):
            self.fail("lists_differ_in_length", f"{len(f)} frequencies but {len(i)} order/line indices")
            return
        got = collections.Counter(zip([float(x) for x in f], [int(x) for x in i]))
        mdl = collections.Counter(self.model)
        if got != mdl:
            # mechanism: frequencies sorted, indices left in click order?
            mech = "pairs_differ"
            if collections.Counter(float(x) for x in f) == collections.Counter(p[0] for p in self.model) and collections.Counter(int(x) for x in i) == collections.Counter(p[1] for p in self.model):
                mech = "frequencies_and_indices_individually_right_but_mispaired"
            self.fail(f"selection:{mech}", f"dialog holds {sorted(zip(f, i))}, picked and still selected: {sorted(self.model)}")


def drive(ctx, algo, plot, tag, actions_fn, freqlim=None):
    """constructs the real dialog; actions_fn(session) runs inside mainloop. Returns (dialog, session)."""
    holder = {}
    out = {}

    def script():
        s = Session(ctx, holder["self"], plot, tag)
        out["session"] = s
        actions_fn(s)

    holder["script"] = script
    with headless(holder) as sfp:
        dlg = sfp.SelFromPlot(algo, freqlim=freqlim, plot=plot)
    return dlg, out.get("session")


def check_result(ctx, dlg, s, plot):
    if s is None or not s.ok:
        return
    res = dlg.result
    f = [float(x) for x in res[0]]
    if plot in ("SSI", "pLSCF"):
        i = [int(x) for x in res[1]]
        ok = len(f) == len(i) and collections.Counter(zip(f, i)) == collections.Counter(s.model)
    else:
        ok = res[1] is None and collections.Counter(f) == collections.Counter(p[0] for p in s.model)
    if not ok:
        s.fail("result:not_the_selection", f"SelFromPlot.result = {res}, selection {sorted(s.model)}")


# ---------------------------------------------------------------------------------------- small table (enumerated)
def small_algo():
    from pyoma2.algorithms import SSIcov
    from pyoma2.algorithms.data.result import SSIResult

    Fn = np.array([[np.nan, 10.5, 10.4, 10.45], [np.nan, np.nan, 28.6, 28.7], [np.nan, 41.0, np.nan, 19.0]])
    Xi = np.where(np.isfinite(Fn), 0.02, np.nan)
    Phi = np.where(np.isfinite(Fn)[:, :, None], 1.0 + 0j, np.nan)
    Lab = np.array([[0, 1, 1, 1], [0, 0, 0, 1], [0, 1, 0, 0]])  # stable poles in the first and last populated order: all orders visible
    a = SSIcov(name="small", br=3, ordmax=3)
    a.fs, a.dt = 100.0, 0.01
    a.data = np.zeros((10, 1))
    a.result = SSIResult(Fn_poles=Fn, Xi_poles=Xi, Phi_poles=Phi, Lab=Lab, Lambds=Fn.astype(complex))
    poles = [(float(Fn[r, c]), c) for r in range(3) for c in range(4) if np.isfinite(Fn[r, c])]
    return a, poles


def run_enumerated(ctx, case):
    algo, poles = small_algo()
    assert len(poles) == 7
    poles = poles[:6]
    syms = [("key", True), ("key", False)] + [("pick", p) for p in poles] + [("des1", None), ("desn", 12.0), ("desn", 35.0)]
    for seq in case["seqs"]:
        def actions(s, seq=seq):
            for k in seq:
                kind, arg = syms[k]
                if kind == "key":
                    s.key(arg)
                elif kind == "pick":
                    s.click(1, arg[0] + 0.07, arg[1] + (0.2 if arg[1] < 3 else -0.2))
                elif kind == "des1":
                    s.click(3, 20.0, 1.0)
                else:
                    s.click(2, arg, 2.0)
                if not s.ok:
                    break
        dlg, s = drive(ctx, algo, "SSI", "action@SSI dialog(enumerated)", actions)
        check_result(ctx, dlg, s, "SSI")
        if s is not None and s.nontrivial:
            ctx.nontrivial(("enum", tuple(seq)))
    import matplotlib.pyplot as plt
    plt.close("all")
    ctx.add_extra("sequences_enumerated", len(case["seqs"]))
    if case["k"] == 150:
        ctx.sample({"entry": "SelFromPlot(SSI) small 3x4 table", "symbols": [str(x) for x in syms], "example sequences": case["seqs"][:4]})


# ---------------------------------------------------------------------------------------- random sequences on real runs + hand-over
_CACHE = {}


def real_algos():
    if "a" not in _CACHE:
        from pyoma2.algorithms import FDD, SSIcov, pLSCF
        from pyoma2.setup import SingleSetup
        rng = np.random.default_rng(4242)
        data, fn, *_ = gen.sim_response(rng, 3, 6000, 100.0, m=3)
        ss = SingleSetup(data, 100.0)
        # (the SSI analysis is configured with ordmin > 0 and with uncertainty bounds: a pick still means the clicked order, and the
        # bounds handed on are those of the picked poles)
        a, p, f = SSIcov(name="ssi", br=8, ordmax=14, ordmin=4, calc_unc=True, nb=10), pLSCF(name="plscf", ordmax=8, nxseg=512, ordmin=2), FDD(name="fdd", nxseg=512)
        ss.add_algorithms(a, p, f)
        ss.run_all()
        _CACHE["a"] = (ss, {"SSI": a, "pLSCF": p, "FDD": f}, fn)
    return _CACHE["a"]


def run_random(ctx, case):
    rng = gen.rng_of(case)
    plot = case["plot"]
    ss, algs, fn = real_algos()
    algo = algs[plot]
    tag = f"action@{plot} dialog(random)"
    ncol = np.shape(algo.result.Fn_poles)[1] if plot != "FDD" else 0

    def rand_actions(s):
        s.key(True)
        if plot != "FDD" and case["k"] % 4 == 1:
            # picks a hair beside the midpoint between two retained poles of one order (a millionth of their spacing to either side): the pole
            # picked is the one that is nearer, by however little, in whichever row of the table it is stored
            F_ = np.asarray(algo.result.Fn_poles)
            cols_ = [c_ for c_ in range(F_.shape[1]) if np.isfinite(F_[:, c_]).sum() >= 2]
            if cols_:
                c_ = int(cols_[int(rng.integers(0, len(cols_)))])
                fs_ = np.sort(F_[np.isfinite(F_[:, c_]), c_])
                gaps_ = [i_ for i_ in range(len(fs_) - 1) if fs_[i_ + 1] - fs_[i_] > 1e-3]
                if gaps_:
                    i_ = int(gaps_[int(rng.integers(0, len(gaps_)))])
                    mid_, sp_ = 0.5 * (fs_[i_] + fs_[i_ + 1]), fs_[i_ + 1] - fs_[i_]
                    for sg_ in (-1, 1):
                        if s.ok:
                            s.click(1, float(mid_ + sg_ * 1e-6 * sp_), float(c_), pan=(0.0, 50.0))
                    ctx.state("picks a millionth of the pole spacing beside the midpoint of two poles")
        # purposeful opening: a few picks at different orders, in random frequency order, then a deselection
        for k in rng.permutation(len(fn))[: int(rng.integers(2, len(fn) + 1))]:
            yy = float(rng.uniform(-40, -1)) if plot == "FDD" else float(rng.integers(max(2, ncol - 7), ncol) + rng.uniform(-0.3, 0.3))
            s.click(1, float(fn[k] + rng.uniform(-0.4, 0.4)), yy)
        if s.ok and len({p[0] for p in s.model}) >= 2 and rng.random() < 0.5:
            # deselect-nearest just beside the midpoint between two neighbouring selected frequencies (less than half a line spacing away
            # from it): the decision must be taken on the click abscissa itself
            fs_ = sorted({p[0] for p in s.model})
            k = int(rng.integers(0, len(fs_) - 1))
            unit = float(np.asarray(algo.result.freq)[1]) if plot == "FDD" else 0.2 * (fs_[k + 1] - fs_[k])
            x = 0.5 * (fs_[k] + fs_[k + 1]) + float(rng.choice([-1, 1]) * rng.uniform(0.04, 0.46)) * unit
            if fs_[k] < x < fs_[k + 1]:
                # ... and only on the abscissa: the click is placed at the height (model order) of the FARTHER of the two poles
                far = fs_[k + 1] if abs(x - fs_[k]) < abs(x - fs_[k + 1]) else fs_[k]
                yfar = [c for f_, c in s.model if f_ == far][0]
                s.click(2, x, -10.0 if plot == "FDD" else float(yfar + rng.uniform(-0.3, 0.3)))
                ctx.state("deselect-nearest beside the midpoint of two selected frequencies")
        if s.ok and rng.random() < 0.8:
            yy = 3.0 if (not s.model or rng.random() < 0.3) else float(s.model[int(rng.integers(0, len(s.model)))][1] + rng.uniform(-0.3, 0.3))
            s.click(int(rng.choice([2, 2, 3])), float(rng.choice(fn) + rng.uniform(-1, 1)), -10.0 if plot == "FDD" else yy)
        if s.ok and rng.random() < 0.4:
            # picks at the very edge of the coordinate ranges: at / below the first model order, at the first frequency line
            if plot == "FDD":
                s.click(1, 0.0, float(rng.uniform(-40, -1)))
            else:
                s.click(1, float(rng.choice(fn) + rng.uniform(-0.5, 0.5)), float(rng.choice([0.0, -0.2, -0.4])))
            ctx.state("pick at the lower edge of the axes")
        for _ in range(4):
            if not s.ok:
                break
            u = rng.random()
            if u < 0.08:
                s.key(False)
            elif u < 0.16:
                s.key(True)
            else:
                x = float(rng.uniform(3.5, 39.5)) if rng.random() < 0.6 else float(rng.choice(fn) + rng.uniform(-0.5, 0.5))
                if plot == "FDD":
                    y = float(rng.uniform(-40, -1))
                else:
                    y = float(rng.uniform(0.2, ncol - 0.2))
                b = int(rng.choice([1, 1, 1, 2, 3]))
                s.click(b, x, y, outside=bool(rng.random() < 0.07))
            if not s.ok:
                break

    flim = None
    actions = rand_actions
    if case["k"] % 5 == 2 and len(fn) >= 3:
        # the dialog opened on a narrow window around the middle mode, the user pans to the others and picks / deselects there
        fs_ = sorted(float(v) for v in fn)
        flim = (0.5 * (fs_[0] + fs_[1]), 0.5 * (fs_[-2] + fs_[-1]))

        def actions(s):  # noqa: F811
            s.key(True)
            yy = (lambda: float(rng.uniform(-40, -1))) if plot == "FDD" else (lambda: float(rng.integers(max(2, ncol - 7), ncol) + rng.uniform(-0.3, 0.3)))
            s.click(1, fs_[1] + float(rng.uniform(-0.3, 0.3)), yy())
            for f_out in (fs_[0], fs_[-1]):
                if s.ok:
                    s.click(1, f_out + float(rng.uniform(-0.3, 0.3)), yy(), pan=(0.0, 50.0))
            if s.ok and rng.random() < 0.7:
                s.click(2, fs_[0] - 0.5, -10.0 if plot == "FDD" else 5.0, pan=(0.0, 50.0))
            if s.ok:
                rand_actions(s)
        ctx.state("picks outside the window the dialog opened with (after panning)")
    elif rng.random() < 0.4:
        flim = (float(rng.uniform(1.0, 3.0)), float(rng.uniform(40.0, 49.0)))  # a window that starts above the first spectral line
        ctx.state("dialog opened with freqlim")
    dlg, s = drive(ctx, algo, plot, tag, actions, freqlim=flim)
    check_result(ctx, dlg, s, plot)
    if s is not None and s.nontrivial:
        ctx.nontrivial((plot, str(s.hist)))
    # real hand-over: the same kind of session inside algo.mpe_from_plot
    holder = {}
    sess = {}

    def script():
        s2 = Session(ctx, holder["self"], plot, f"hand-over@{plot}")
        sess["s"] = s2
        s2.key(True)
        order = rng.permutation(len(fn))
        if plot != "FDD" and len(fn) >= 3 and rng.random() < 0.4:
            # every mode picked, at two model orders that alternate along the frequency axis (A, B, A)
            oa, ob = [int(x) for x in rng.choice(np.arange(max(2, ncol - 6), ncol), 2, replace=False)]
            for k in order:
                s2.click(1, float(fn[k] + rng.uniform(-0.3, 0.3)), float((oa if int(np.argsort(np.argsort(fn))[k]) % 2 == 0 else ob) + rng.uniform(-0.3, 0.3)))
            ctx.state("hand-over of picks at two alternating model orders")
            order = order[:0]
        for k in order[: int(rng.integers(1, len(fn) + 1))]:
            if plot == "FDD":
                s2.click(1, float(fn[k] + rng.uniform(-0.3, 0.3)), -10.0)
            else:
                s2.click(1, float(fn[k] + rng.uniform(-0.3, 0.3)), float(rng.integers(max(2, ncol - 6), ncol) + rng.uniform(-0.3, 0.3)))
        if rng.random() < 0.4:
            s2.click(int(rng.choice([2, 3])), float(rng.choice(fn)), 3.0 if plot != "FDD" else -10.0)

    holder["script"] = script
    name = {"SSI": "ssi", "pLSCF": "plscf", "FDD": "fdd"}[plot]
    flim2 = (float(rng.uniform(1.0, 3.0)), 49.0) if rng.random() < 0.4 else None
    with headless(holder):
        try:
            if plot == "FDD":
                ss.mpe_from_plot(name, DF=0.5, freqlim=flim2)
            else:
                # the pairs handed over ARE poles of the table: they are found with any tolerance, zero included
                ss.mpe_from_plot(name, rtol=(0.0 if case["k"] % 2 else 1e-6), freqlim=flim2)
        except Exception as e:  # noqa: BLE001
            s2 = sess.get("s")
            if s2 is not None and s2.ok and s2.model:
                ctx.fail(f"handover:exception:{type(e).__name__}", f"mpe_from_plot raised {type(e).__name__}: {e} for the selection {sorted(s2.model)}")
            return
    s2 = sess.get("s")
    tag2 = {"SSI": "hand-over@SSIcov.mpe_from_plot", "pLSCF": "hand-over@pLSCF.mpe_from_plot", "FDD": "hand-over@FDD.mpe_from_plot"}[plot]
    ctx.ev(tag2)
    if s2 is None or not s2.ok:
        return
    r = algo.result
    Fn = [float(x) for x in np.atleast_1d(r.Fn)] if r.Fn is not None else []
    if plot == "FDD":
        # FDD_mpe re-picks the dominant line within DF of each handed-over line: one mode per selected line, each within DF
        sel = sorted(p[0] for p in s2.model)
        ok = len(Fn) == len(sel) and all(abs(a - b) <= 0.5 + 1e-9 for a, b in zip(Fn, sel))
        ctx.check(ok, "handover:fdd_modes_not_the_selected_lines", lambda: f"FDD.mpe_from_plot: Fn={Fn}, selected lines {sel}")
    else:
        oo = np.atleast_1d(r.order_out)
        got = collections.Counter(zip(Fn, [int(x) for x in oo])) if len(Fn) == len(oo) else None
        ctx.check(got == collections.Counter(s2.model), "handover:extracted_modes_not_the_picked_pairs",
                  lambda: f"{plot} mpe_from_plot: (Fn, order_out) = {list(zip(Fn, oo.tolist()))}, picked pairs {sorted(s2.model)}")
        if got == collections.Counter(s2.model) and getattr(r, "Fn_poles_cov", None) is not None and getattr(r, "Fn_cov", None) is not None:
            # the uncertainty bounds of every extracted mode are those of the picked pole
            ctx.ev("hand-over: bounds of the picked poles")
            Fc_t, Xc_t, F_t = np.asarray(r.Fn_poles_cov), np.asarray(r.Xi_poles_cov), np.asarray(r.Fn_poles)
            okc = True
            for k_, (f_, o_) in enumerate(zip(Fn, [int(x) for x in oo])):
                rows_ = np.where(F_t[:, o_] == f_)[0]
                okc = okc and len(rows_) >= 1 and any(np.isclose(np.atleast_1d(r.Fn_cov)[k_], Fc_t[i_, o_], rtol=1e-12, equal_nan=True)
                                                       and np.isclose(np.atleast_1d(r.Xi_cov)[k_], Xc_t[i_, o_], rtol=1e-12, equal_nan=True) for i_ in rows_)
            ctx.check(okc, "handover:bounds_not_those_of_the_picked_poles", lambda: f"{plot} mpe_from_plot: Fn_cov = {np.atleast_1d(r.Fn_cov)} are not the table entries of the picked poles {sorted(s2.model)}")
    ctx.nontrivial(("handover", plot, str(s2.hist)))
    import matplotlib.pyplot as plt
    plt.close("all")
    if case["k"] < 3:
        ctx.sample({"entry": f"SelFromPlot({plot}) random session + mpe_from_plot", "history": s.hist if s else None, "hand-over history": s2.hist, "selection": sorted(s2.model)})


def run_synthetic_handover(ctx, rng):
    """hand-over on a hand-made table with two closely spaced retained poles at one order (1 % apart and less): the extraction
    called by mpe_from_plot (default tolerance) must return the pole that was picked, whole"""
    from pyoma2.algorithms import SSIcov
    from pyoma2.algorithms.data.result import SSIResult

    nr, no = 6, 8
    Fn = np.full((nr, no), np.nan)
    base = np.array([2.4, 2.4 * (1 + float(rng.choice([0.003, 0.006, 0.009]))), 7.1, 11.3])
    for o in range(2, no):
        rows = rng.permutation(nr)[:4]
        Fn[rows, o] = base * (1 + 1e-5 * rng.standard_normal(4))
    Xi = np.where(np.isfinite(Fn), 0.01 + 0.001 * np.arange(nr)[:, None] + 0.0001 * np.arange(no)[None, :], np.nan)
    Phi = np.where(np.isfinite(Fn)[:, :, None], (np.arange(nr)[:, None, None] + 1) + 1j * (np.arange(no)[None, :, None] + 1) + np.arange(3)[None, None, :], np.nan)
    Lab = np.where(np.isfinite(Fn), 1, 0)
    Lab[:, :3] = 0
    a = SSIcov(name="synthetic", br=4, ordmax=no - 1)
    a.fs, a.dt = 100.0, 0.01
    a.data = np.zeros((10, 3))
    a.result = SSIResult(Fn_poles=Fn, Xi_poles=Xi, Phi_poles=Phi, Lab=Lab, Lambds=Fn.astype(complex))
    holder, sess = {}, {}
    o_pick = int(rng.integers(3, no))
    which = [int(x) for x in rng.permutation(2)[: int(rng.integers(1, 3))]]  # one of the two close poles, or both

    def script():
        s2 = Session(ctx, holder["self"], "SSI", "hand-over@synthetic close poles")
        sess["s"] = s2
        s2.key(True)
        for w in which:
            s2.click(1, float(base[w] + (0.0005 if w else -0.0005)), float(o_pick))
        if rng.random() < 0.5:
            s2.click(1, 7.1, float(o_pick))

    holder["script"] = script
    with headless(holder):
        a.mpe_from_plot()
    s2 = sess.get("s")
    ctx.ev("hand-over@SSIcov.mpe_from_plot(closely spaced poles)")
    if s2 is None or not s2.ok:
        return
    r = a.result
    got = sorted(zip([float(x) for x in np.atleast_1d(r.Fn)], [float(x) for x in np.atleast_1d(r.Xi)], [int(x) for x in np.atleast_1d(r.order_out)]))
    want = []
    for f, o in s2.model:
        i = int(np.where(Fn[:, o] == f)[0][0])
        want.append((float(f), float(Xi[i, o]), int(o)))
    ctx.check(got == sorted(want), "handover:closely_spaced_poles_not_the_picked_ones",
              lambda: f"picked (f, xi, order) {sorted(want)} but mpe_from_plot extracted {got} (two retained poles {base[0]:.4f} / {base[1]:.4f} Hz at each order)")
    ctx.state("hand-over with two retained poles closer than the extraction tolerance")
    ctx.nontrivial(("synthetic_handover", o_pick, tuple(which)))
    import matplotlib.pyplot as plt
    plt.close("all")


def run_case(ctx, case):
    if case["cls"] == "synthetic_handover":
        return run_synthetic_handover(ctx, gen.rng_of(case))
    if case["cls"] == "enumerated":
        run_enumerated(ctx, case)
    else:
        run_random(ctx, case)
