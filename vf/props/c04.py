"""C04 - PreGER spectral merging is consistent with the single-setup spectral matrix  [M + P]."""
from __future__ import annotations

import numpy as np

from vf import gen, plumbing
from vf.props import c02

PID = "C04"
ANCHORS = ["pyoma2.functions.fdd:SD_PreGER", "pyoma2.functions.fdd:SD_est", "pyoma2.algorithms.fdd:FDD_MS.run",
           "pyoma2.algorithms.fdd:EFDD_MS.run", "pyoma2.algorithms.plscf:pLSCF_MS.run"]
REQUIRED_MONITORS = ["one-recording@SD_PreGER", "one-recording@FDD_MS", "one-recording@EFDD_MS", "one-recording@pLSCF_MS",
                     "general-blocks@SD_PreGER", "gain-metamorphic@SD_PreGER"]
ALL_STATES = [f"{m}|pov={p:g}" for m in ("per", "cor") for p in (0, 0.25, 0.5, 0.75)] + ["refs listed out of order", "4 setups", "3 references"]
REQUIRED_STATES = ["campaign decimated before the analysis (fir)", "campaign decimated before the analysis (iir)", "records longer than 2^17 samples", "per|pov=0", "per|pov=0.25", "per|pov=0.75", "cor|pov=0.25", "refs listed out of order", "recording amplitude < 1e-4", "one setup with gain < 1e-3", "identical reference records except in a middle setup", "second recording analysed with the same settings", "estimator left at the documented default"]
RULE = ("one coloured-noise recording (2..9 channels, >= 4 segments) cut into 2..4 setups sharing 1..3 references at arbitrary positions; "
        "merged matrix compared line by line with SD_est(all channels in [ref|rov_1|rov_2..] order, ref) at the same nxseg/pov/estimator "
        "(tolerance 1e-9*cond(G_refref), lines with cond > 1e8 not judged); independent recordings: blocks recomputed from per-setup SD_est; "
        "gain metamorphosis; non-trivial = pov != 0.5 or gains differ or refs not first; distinct by (entry, layout, nxseg, pov, method)")
ASSUMPTIONS = ["fdd.SD_est is trusted through the C13 monitors", "lines where the reference block has condition number > 1e8 are not judged"]


PLUMB_CLASSES = ['FDD_MS', 'EFDD_MS', 'pLSCF_MS']
PLUMB_FIELDS = ['freq', 'Sy']
REQUIRED_MONITORS = list(REQUIRED_MONITORS) + [f"plumbing:{s_}" for s_ in plumbing.SCENARIOS]
REQUIRED_STATES = list(REQUIRED_STATES) + [f"plumbing scenario {s_}" for s_ in plumbing.SCENARIOS]


def cases(tier, seed):
    return _cases(tier, seed) + plumbing.cases(len(plumbing.SCENARIOS) * len(PLUMB_CLASSES) * (1 if tier == "quick" else 6), PLUMB_CLASSES)


def _cases(tier, seed):
    nA, nB, nC = (150, 60, 36) if tier == "quick" else (3000, 1200, 400)
    return ([{"cls": "one_recording_fn", "k": k} for k in range(nA)] + [{"cls": "general_fn", "k": k} for k in range(nB)]
            + [{"cls": "one_recording_classes", "k": k} for k in range(nC)])


def draw_layout(rng):
    while True:
        nset, nref, nrov, ndof, chan_glob, reflist = c02.layout(rng, nset=int(rng.integers(2, 5)), nref=int(rng.integers(1, 4)), max_rov=3, min_rov=1)
        if ndof <= 9:
            return nset, nref, nrov, ndof, chan_glob, reflist


def draw_params(rng, small=False):
    nx = int(rng.choice([64, 128, 256] if small else [64, 100, 128, 256, 512, 1024, 2048]))
    if rng.random() < 0.2:
        nx = int(rng.choice([63, 101, 255] if small else [63, 101, 255, 1023]))  # odd segment lengths
    povs = [p for p in (0.0, 0.25, 0.5, 0.75) if float(nx * p).is_integer()] or [0.0]
    pov = float(rng.choice(povs))
    if rng.random() < 0.3:
        pov = float(rng.choice([0.1, 0.3, 0.66, 0.7, 0.8, 0.9, round(float(rng.uniform(0.05, 0.9)), 3)]))  # any fraction: both paths cut it to whole samples alike
    method = "per" if rng.random() < 0.6 else "cor"
    N = int(nx * rng.uniform(4, 12))
    fs = float(10 ** rng.uniform(0, 3))
    return nx, pov, method, N, fs


def compare_lines(ctx, tag, S, E, Gref, sig, hint=None):
    """relative comparison per line with tolerance 1e-9*cond(G_refref)."""
    if not ctx.check(np.shape(S) == np.shape(E), f"{sig}:shape", lambda: f"{tag}: merged shape {np.shape(S)} expected {np.shape(E)}"):
        return False
    nf = S.shape[2]
    ok = True
    judged = 0
    for k in range(nf):
        c = np.linalg.cond(Gref[:, :, k])
        if not np.isfinite(c) or c > 1e8:
            ctx.not_judged("cond(G_refref) > 1e8 at a line")
            continue
        judged += 1
        err = np.max(np.abs(S[:, :, k] - E[:, :, k])) / max(np.max(np.abs(E[:, :, k])), 1e-300)
        ctx.maxi(f"{tag}: worst err/(1e-9 cond)", err / (1e-9 * c))
        if not (err <= 1e-9 * c) and ok:
            ok = False
            h = hint(k) if hint else ""
            ctx.fail(f"{sig}:{h or 'mismatch'}", f"{tag}: line {k}: relative difference {err:.3e} (cond {c:.1e}) {h}")
    if judged == 0:
        ctx.not_judged("no well-conditioned line")
    return ok


def order_all(nref, chan_glob, reflist):
    return c02.expected_rows(nref, chan_glob, reflist)


def run_one_fn(ctx, rng, long_record=False):
    from pyoma2.functions import fdd
    from pyoma2.functions import gen as G_

    nset, nref, nrov, ndof, chan_glob, reflist = draw_layout(rng)
    nx, pov, method, N, fs = draw_params(rng)
    if long_record:
        # a long monitoring record (hours at 50-200 Hz): hundreds of thousands of samples per setup, thousands of segments
        N = int(rng.integers(135000, 330000))
        nx = int(rng.choice([256, 1000, 1024, 2048]))
        ctx.state("records longer than 2^17 samples")
    X = gen.coloured(rng, ndof, N)
    if rng.random() < 0.4:
        amp = float(10 ** rng.uniform(-7, 4))  # records in other units: the relation is homogeneous in the amplitude
        X = X * amp
        if amp < 1e-4:
            ctx.state("recording amplitude < 1e-4")
    datasets = [X[cg].T.copy() for cg in chan_glob]
    Y = G_.pre_multisetup(datasets, [list(r) for r in reflist])
    if method == "per" and rng.random() < 0.5:
        f, S = fdd.SD_PreGER(Y, fs=fs, nxseg=nx, pov=pov)  # the estimator left at its documented default (the periodogram)
        ctx.state("estimator left at the documented default")
    else:
        f, S = fdd.SD_PreGER(Y, fs=fs, nxseg=nx, pov=pov, method=method)
    # history: what a caller does with the returned arrays (here: the axis converted to rad/s in place) is his own business
    f_keep = np.array(f, copy=True)
    f *= 2 * np.pi
    f_again, S_again = fdd.SD_PreGER(Y, fs=fs, nxseg=nx, pov=pov, method=method)
    ctx.ev("returned arrays are the caller's")
    ctx.check(np.array_equal(f_again, f_keep) and np.array_equal(S_again, S), "fn_one:result_depends_on_what_was_done_with_an_earlier_result",
              "the frequency axis returned by a second identical call follows an in-place change made to the axis returned by the first call")
    f = f_keep
    rows = order_all(nref, chan_glob, reflist)
    f2, E = fdd.SD_est(X[rows], X[:nref], 1 / fs, nx, method=method, pov=pov)
    ctx.ev("one-recording@SD_PreGER")
    ctx.check(np.shape(f) == np.shape(f2) and np.allclose(f, f2, rtol=1e-12, atol=0), "fn:grid", lambda: f"frequency grid differs from SD_est's ({np.shape(f)} vs {np.shape(f2)})")

    def hint(k):
        if pov != 0.5:
            _, E05 = fdd.SD_est(X[rows], X[:nref], 1 / fs, nx, method=method, pov=0.5)
            if np.shape(E05) == np.shape(S) and np.max(np.abs(S - E05)) <= 1e-6 * np.max(np.abs(E05)):
                return "pov_ignored(equals pov=0.5 estimate)"
        return ""

    compare_lines(ctx, "one-recording@SD_PreGER", S, E, E[:nref], "fn_one", hint)
    ctx.state(f"{method}|pov={pov:g}")
    if any(list(r) != sorted(r) for r in reflist):
        ctx.state("refs listed out of order")
    if nset == 4:
        ctx.state("4 setups")
    if nref == 3:
        ctx.state("3 references")
    ctx.nontrivial(("one_fn", nset, nref, tuple(nrov), nx, pov, method))
    ctx.sample({"entry": "fdd.SD_PreGER (one recording)", "channels": ndof, "ref_ind": reflist, "channel->recording column": chan_glob,
                "nxseg": nx, "pov": pov, "method": method, "N": N, "fs": fs})


def run_general(ctx, rng):
    from pyoma2.functions import fdd
    from pyoma2.functions import gen as G_

    nset, nref, nrov, ndof, chan_glob, reflist = draw_layout(rng)
    nx, pov, method, N, fs = draw_params(rng)
    gains = [float(10 ** rng.uniform(-2, 2)) * rng.choice([-1, 1]) for _ in range(nset)]
    if rng.random() < 0.3:
        gains[int(rng.integers(0, nset))] *= float(10 ** rng.uniform(-5, -3))  # one setup stored in much smaller units
        ctx.state("one setup with gain < 1e-3")
    # independent recordings of one coloured process family per setup (own length)
    recs = [gen.coloured(rng, ndof, int(N * rng.uniform(1, 1.5))) for _ in range(nset)]
    if nset >= 3 and rng.random() < 0.35:
        # the reference sensors recorded the same signal in every setup (one long test cut up / repeated excitation) and were stored with
        # the same gain - except in ONE setup in the middle of the list
        recs = [recs[0]] * nset
        g0 = gains[0]
        mid = int(rng.integers(1, nset - 1))
        gains = [g0] * nset
        fac = float(10 ** rng.uniform(0.3, 1.5))
        gains[mid] = g0 * float(rng.choice([-1, 1])) * (fac if rng.random() < 0.5 else 1 / fac)
        ctx.state("identical reference records except in a middle setup")
    datasets = [g * R[cg].T.copy() for g, R, cg in zip(gains, recs, chan_glob)]
    Y = G_.pre_multisetup(datasets, [list(r) for r in reflist])
    f, S = fdd.SD_PreGER(Y, fs=fs, nxseg=nx, pov=pov, method=method)
    # independent recomputation from per-setup SD_est outputs
    Sk = []
    for y in Y:
        allc = np.vstack([y["ref"], y["mov"]])
        _, s = fdd.SD_est(allc, y["ref"], 1 / fs, nx, method=method, pov=pov)
        Sk.append(s)
    mean_rr = sum(s[:nref] for s in Sk) / nset
    nf = mean_rr.shape[2]
    E = np.zeros((ndof, nref, nf), complex)
    E[:nref] = mean_rr
    condmax = np.zeros(nf)
    off = nref
    for s, n in zip(Sk, nrov):
        for k in range(nf):
            c = np.linalg.cond(s[:nref, :, k])
            condmax[k] = max(condmax[k], c if np.isfinite(c) else 1e300)
            if condmax[k] <= 1e8:
                E[off:off + n, :, k] = s[nref:, :, k] @ np.linalg.solve(s[:nref, :, k], mean_rr[:, :, k])
        off += n
    ctx.ev("general-blocks@SD_PreGER")
    if ctx.check(np.shape(S) == np.shape(E), "fn_gen:shape", lambda: f"merged shape {np.shape(S)} expected {np.shape(E)}"):
        bad = None
        for k in range(nf):
            if condmax[k] > 1e8:
                ctx.not_judged("cond(G_refref) > 1e8 at a line")
                continue
            err_ref = np.max(np.abs(S[:nref, :, k] - E[:nref, :, k])) / np.max(np.abs(E[:nref, :, k]))
            err_rov = np.max(np.abs(S[nref:, :, k] - E[nref:, :, k])) / max(np.max(np.abs(E[nref:, :, k])), 1e-300)
            tol = 1e-9 * condmax[k]
            if not (err_ref <= tol) and bad is None:
                bad = ("reference_block_not_mean", k, err_ref)
            if not (err_rov <= tol) and bad is None:
                bad = ("roving_block_not_transmissibility_times_mean", k, err_rov)
        if bad:
            ctx.fail(f"fn_gen:{bad[0]}", f"line {bad[1]}: relative difference {bad[2]:.3e} (method {method}, pov {pov}, nxseg {nx}, gains {np.round(gains, 3).tolist()})")
    # gain metamorphosis on one setup
    j = int(rng.integers(0, nset))
    g = float(10 ** rng.uniform(-2, 2)) * rng.choice([-1, 1])
    data2 = [d * (g if i == j else 1.0) for i, d in enumerate(datasets)]
    Y2 = G_.pre_multisetup(data2, [list(r) for r in reflist])
    _, S2 = fdd.SD_PreGER(Y2, fs=fs, nxseg=nx, pov=pov, method=method)
    ctx.ev("gain-metamorphic@SD_PreGER")
    if np.shape(S2) == np.shape(S):
        new_mean = mean_rr + (g * g - 1) * Sk[j][:nref] / nset
        ok_lines = condmax <= 1e6
        if ok_lines.any():
            # roving blocks change only through the new mean: T_k * new_mean
            e_ref = np.max(np.abs(S2[:nref][:, :, ok_lines] - new_mean[:, :, ok_lines])) / np.max(np.abs(new_mean[:, :, ok_lines]))
            ctx.check(e_ref <= 1e-9 * 1e6, "fn_gen:gain_changes_more_than_mean", lambda: f"scaling setup {j} by {g:.3g}: reference block is not the new mean (rel {e_ref:.2e})")
            off = nref
            for s, n in zip(Sk, nrov):
                for k in np.where(ok_lines)[0][:: max(1, int(ok_lines.sum() // 40))]:
                    Ek = s[nref:, :, k] @ np.linalg.solve(s[:nref, :, k], new_mean[:, :, k])
                    e = np.max(np.abs(S2[off:off + n, :, k] - Ek)) / max(np.max(np.abs(Ek)), 1e-300)
                    if not (e <= 1e-9 * 1e6 * 10):
                        ctx.fail("fn_gen:gain_changes_transmissibility", f"scaling setup {j} by {g:.3g}: roving block at line {k} is not T_k * new mean (rel {e:.2e})")
                        break
                off += n
    ctx.state(f"{method}|pov={pov:g}")
    ctx.nontrivial(("general", nset, nref, tuple(nrov), nx, pov, method))


def run_one_classes(ctx, rng):
    from pyoma2.algorithms import EFDD_MS, FDD_MS, pLSCF_MS
    from pyoma2.functions import fdd
    from pyoma2.setup import MultiSetup_PreGER

    nset, nref, nrov, ndof, chan_glob, reflist = draw_layout(rng)
    nx, pov, method, N, fs = draw_params(rng, small=True)
    rows = order_all(nref, chan_glob, reflist)
    # history: a second analysis in the same process - another recording, the same layout and the same spectral settings
    for rep in range(2):
        one_classes_pass(ctx, rng, rep, nset, nref, nrov, ndof, chan_glob, reflist, rows, nx, pov, method, N, fs)
    ctx.state("second recording analysed with the same settings")
    ctx.state(f"{method}|pov={pov:g}")
    ctx.nontrivial(("one_cls", nset, nref, tuple(nrov), nx, pov, method))


def one_classes_pass(ctx, rng, rep, nset, nref, nrov, ndof, chan_glob, reflist, rows, nx, pov, method, N, fs):
    from pyoma2.algorithms import EFDD_MS, FDD_MS, pLSCF_MS
    from pyoma2.functions import fdd
    from pyoma2.setup import MultiSetup_PreGER

    X = gen.coloured(rng, ndof, N)
    datasets = [X[cg].T.copy() for cg in chan_glob]
    ms = MultiSetup_PreGER(fs=fs, ref_ind=[list(r) for r in reflist], datasets=datasets)
    pre = getattr(run_one_classes, "pre", None) if rep == 1 else None
    if pre is not None and N // pre[0] >= 3 * nx:
        # the campaign decimated before the analysis (all setups alike, as one call does it): the merged matrix is the estimate of the decimated
        # recording - decimated as scipy.signal.decimate does it with the options given, everything else at scipy's defaults
        from scipy import signal as _sg
        q_, kw_ = pre
        ms.decimate_data(q=q_, **kw_)
        X = _sg.decimate(X, q_, axis=1, **kw_)
        fs = fs / q_
        ctx.state("campaign decimated before the analysis (" + (kw_.get("ftype", "iir")) + ")")
    f2, E = fdd.SD_est(X[rows], X[:nref], 1 / fs, nx, method=method, pov=pov)
    algs = [FDD_MS(name="FDD_MS", nxseg=nx, method_SD=method, pov=pov), EFDD_MS(name="EFDD_MS", nxseg=nx, method_SD=method, pov=pov),
            pLSCF_MS(name="pLSCF_MS", ordmax=2, nxseg=nx, method_SD=method, pov=pov)]
    ms.add_algorithms(*algs)
    for a in algs:
        try:
            ms.run_by_name(a.name)
        except np.linalg.LinAlgError:
            ctx.not_judged("pLSCF normal equations singular on this spectrum")
            continue
        r = a.result
        ctx.ev(f"one-recording@{a.name}")
        ctx.check(np.shape(r.freq) == np.shape(f2) and np.allclose(r.freq, f2, rtol=1e-12, atol=0), "cls:grid", lambda: f"{a.name}: result.freq is not SD_est's grid")

        def hint(k):
            if pov != 0.5:
                _, E05 = fdd.SD_est(X[rows], X[:nref], 1 / fs, nx, method=method, pov=0.5)
                if np.shape(E05) == np.shape(r.Sy) and np.max(np.abs(r.Sy - E05)) <= 1e-6 * np.max(np.abs(E05)):
                    return "pov_ignored(equals pov=0.5 estimate)"
            return ""

        compare_lines(ctx, f"one-recording@{a.name}", np.asarray(r.Sy), E, E[:nref], "cls_one" if rep == 0 else "cls_one_second_recording", hint)


def run_case(ctx, case):
    if case["cls"] == "plumbing":
        return plumbing.run_case(ctx, case, gen.rng_of(case), PLUMB_FIELDS)
    rng = gen.rng_of(case)
    run_one_classes.pre = [None, (2, dict(ftype="fir")), (3, dict()), (2, dict(ftype="fir", n=12))][case["k"] % 4] if case["cls"] == "one_recording_classes" else None
    if case["cls"] == "one_recording_fn" and case["k"] % 50 == 7:
        return run_one_fn(ctx, rng, long_record=True)
    {"one_recording_fn": run_one_fn, "general_fn": run_general, "one_recording_classes": run_one_classes}[case["cls"]](ctx, rng)
