"""C18 - Mode-shape indicators are bounded, scale-invariant and exact on collinear shapes  [P (icontract) + M]."""
from __future__ import annotations

import numpy as np

from vf import gen

PID = "C18"
ANCHORS = ["pyoma2.functions.gen:MAC", "pyoma2.functions.gen:MPC", "pyoma2.functions.gen:MPD", "pyoma2.functions.gen:MCF", "pyoma2.functions.gen:MSF"]
REQUIRED_MONITORS = ["views-of-one-array@MAC", "set=columns@MCF", "arguments-unchanged+auto-MAC", "mixed-dtype MAC", "range@MAC", "range@MPC", "range@MPD", "range@MCF", "shape+symmetry@MAC", "scale-invariance", "collinear-exact", "near-unit-length MAC",
                     "MSF(v,cv)=c", "contracts-active-during-SSI-run"]
CLASSES = ["generic", "generic_unit_normalised", "generic_zero_or_real_components", "nearly_collinear_1e-8", "nearly_collinear_1e-3", "collinear", "collinear_unit_normalised", "collinear_zero_components",
           "collinear_halves", "constant", "isotropic_reference", "ring", "nearly_collinear_1e-5", "real_with_quadrature_components", "sets"]
ALL_STATES = ["class:" + c for c in CLASSES] + ["n=2", "n>=33"]
REQUIRED_STATES = ["class:" + c for c in CLASSES] + ["n=2", "sets with more shapes than components"]
RULE = ("icontract postconditions (range, shape, finiteness) attached to the real gen.MAC/MPC/MPD/MCF/MSF and evaluated on every call made by "
        "the workload; metamorphic scale-invariance under complex factors |c| in [1e-6,1e6]; exactness on complex multiples of real vectors; "
        "input classes listed in abstract_states_seen, 2..64 components; non-trivial = shape with >= 2 distinct component magnitudes; "
        "distinct by (class, n, rounded factor)")
ASSUMPTIONS = ["1e-12 slack on the ranges, 1e-6 on invariance (arccos near 1 amplifies rounding to ~1e-8), 1e-9 on exact collinear values"]


class PostBroken(Exception):
    def __init__(self, name):
        super().__init__(name)
        self.name = name


def cases(tier, seed):
    n = 260 if tier == "quick" else 4000
    out = []
    for k in range(n):
        out.append({"cls": CLASSES[k % len(CLASSES)], "k": k})
    out += [{"cls": "contracts_in_run", "k": k} for k in range(3 if tier == "quick" else 20)]
    if tier == "thorough":
        out.append({"cls": "repo_tests", "k": 0})
    return out


# ---------------------------------------------------------------- contracts (named conditions, explicit error classes)
def _finite_in(result, lo, hi):
    r = np.asarray(result)
    return bool(np.all(np.isfinite(r)) and np.all(r >= lo - 1e-12) and np.all(r <= hi + 1e-12))


def _clean(*arrs):
    return all(np.all(np.isfinite(np.asarray(a))) and np.any(np.asarray(a) != 0) for a in arrs)


STATE = {"ctx": None, "counts": {}}


def _count(name):
    if STATE["ctx"] is not None:
        STATE["ctx"].ev(name)


def mac_range(phi_X, phi_A, result):
    if not _clean(phi_X, phi_A) or np.any(np.sum(np.abs(np.atleast_2d(np.asarray(phi_X).T)) ** 2, axis=1) == 0):
        return True
    _count("range@MAC")
    return _finite_in(result, 0.0, 1.0)


def mac_shape(phi_X, phi_A, result):
    nx = 1 if np.ndim(phi_X) == 1 else np.shape(phi_X)[1]
    na = 1 if np.ndim(phi_A) == 1 else np.shape(phi_A)[1]
    if nx == 1 and na == 1:
        return np.ndim(result) == 0
    return np.shape(result) == (nx, na)


def mpc_range(phi, result):
    if not _clean(phi):
        return True
    _count("range@MPC")
    return _finite_in(np.real(result), 0.0, 1.0) and abs(np.imag(result)) <= 1e-12


def mpd_range(phi, result):
    if not _clean(phi):
        return True
    _count("range@MPD")
    return _finite_in(result, 0.0, np.pi / 2)


def mcf_range(phi, result):
    if not _clean(phi):
        return True
    _count("range@MCF")
    return _finite_in(result, 0.0, 1.0)


def make_contracts():
    import icontract

    from pyoma2.functions import gen as G_

    def E(name):
        def err():
            return PostBroken(name)
        return err

    c = {}
    c["MAC"] = icontract.ensure(mac_shape, error=E("MAC:shape"))(icontract.ensure(mac_range, error=E("MAC:range"))(G_.MAC))
    c["MPC"] = icontract.ensure(mpc_range, error=E("MPC:range"))(G_.MPC)
    c["MPD"] = icontract.ensure(mpd_range, error=E("MPD:range"))(G_.MPD)
    c["MCF"] = icontract.ensure(mcf_range, error=E("MCF:range"))(G_.MCF)
    return c


CONTRACTS = None


def install(ctx):
    global CONTRACTS
    CONTRACTS = make_contracts()
    STATE["ctx"] = ctx


def describe(phi):
    phi = np.asarray(phi)
    if phi.ndim != 1:
        return "set"
    tags = []
    nz = phi[phi != 0]
    if len(nz) and np.max(np.abs(phi - phi[0])) <= 1e-12 * abs(phi[0]):
        tags.append("constant_shape")
    if abs(np.sum(phi * phi)) <= 1e-9 * np.vdot(phi, phi).real:
        tags.append("isotropic")
    if len(nz):
        ang = np.angle(nz / nz[0])
        if np.all((np.abs(ang) < 1e-9) | (np.abs(np.abs(ang) - np.pi) < 1e-9)):
            tags.append("collinear")
    if np.any(phi == 0):
        tags.append("zero_component")
    return "+".join(tags) or "generic"


def mech(fn, tags):
    """primary mechanism tag of a NaN result (keys of known_findings.json)."""
    if fn == "MPC" and "constant_shape" in tags:
        return "constant_shape"
    if fn == "MSF" and "isotropic" in tags:
        return "isotropic_reference"
    return tags


def call(ctx, name, *args):
    """call the contracted function; a broken postcondition becomes a violation with a mechanism signature."""
    try:
        return CONTRACTS[name](*args)
    except PostBroken as e:
        raw = getattr(CONTRACTS[name], "__wrapped__", None)
        from pyoma2.functions import gen as G_
        val = getattr(G_, name)(*args)
        isnan = bool(np.any(np.isnan(np.asarray(val, dtype=complex))))
        d = describe(args[0])
        ctx.fail(f"{name}:nan:{mech(name, d)}" if isnan else f"{e.name}:out_of_range:{d}",
                 f"{name}({np.array2string(np.asarray(args[0]).ravel()[:6], precision=4)}{'...' if np.size(args[0]) > 6 else ''}) = {val!r} violates {e.name} (input class: {d})")
        return val


def draw(rng, cls):
    n = int(rng.choice([2, 2, 3, 4, 5, 8, 16, 33, 64])) if rng.random() < 0.7 else int(rng.integers(2, 65))
    v = rng.standard_normal(n)
    if cls == "generic":
        phi = v + 1j * rng.standard_normal(n) * rng.choice([1.0, 0.3])
    elif cls == "generic_unit_normalised":
        # a genuinely complex shape as the library returns it: divided by its largest component, which is then exactly 1+0j
        phi = v + 1j * rng.standard_normal(n) * rng.choice([1.0, 0.3])
        phi = phi / phi[np.argmax(np.abs(phi))]
        phi[np.argmax(np.abs(phi))] = 1.0 + 0.0j
    elif cls == "generic_zero_or_real_components":
        # complex shape with some components exactly zero (sensor at a node) and some purely real / purely imaginary
        phi = v + 1j * rng.standard_normal(n)
        k = rng.permutation(n)
        phi[k[0]] = 0.0
        if n >= 3:
            phi[k[1]] = phi[k[1]].real
        if n >= 4:
            phi[k[2]] = 1j * phi[k[2]].imag
    elif cls == "nearly_collinear_1e-8":
        phi = v + 1j * 1e-8 * rng.standard_normal(n)
    elif cls == "nearly_collinear_1e-5":
        # a real shape whose components carry phase errors of a few microradians (the scatter an identification leaves on a normal mode): the
        # indicators are continuous there - MPD is that scatter, whatever the overall phase of the shape
        phi = v * (1 + 1j * float(rng.uniform(2e-6, 9e-6)) * rng.uniform(-1, 1, n))
    elif cls == "real_with_quadrature_components":
        # mostly real components plus a few purely imaginary ones (exactly 90 degrees off the best-fit line, e.g. a sensor in quadrature)
        phi = v.astype(complex)
        kq = rng.permutation(n)[: max(1, n // 4)]
        phi[kq] = 1j * 0.3 * v[kq]
        if np.sum(phi.real**2) <= np.sum(phi.imag**2):
            phi = v.astype(complex)
            phi[int(kq[0])] = 1j * 0.1 * v[int(kq[0])]
    elif cls == "nearly_collinear_1e-3":
        phi = v + 1j * 1e-3 * rng.standard_normal(n)
    elif cls == "collinear":
        phi = v.astype(complex)
    elif cls == "collinear_unit_normalised":
        phi = (v / v[np.argmax(np.abs(v))]).astype(complex)
    elif cls == "collinear_zero_components":
        v[rng.integers(0, n, max(1, n // 4))] = 0.0
        if not np.any(v):
            v[0] = 1.0
        if np.count_nonzero(v) == 1 and n > 1:
            v[(np.flatnonzero(v)[0] + 1) % n] = 0.5
        phi = v.astype(complex)
    elif cls == "collinear_halves":
        v = np.round(v * 2) / 2
        if np.count_nonzero(v) < 2:
            v[:2] = [1.0, -0.5]
        phi = v.astype(complex)
    elif cls == "ring":
        # a travelling-wave / rotating shape: the components lie on a circle in the complex plane (sensors around a tower or a rotor, two
        # orthogonal real modes in quadrature), the least collinear shape there is - MPC is 0 up to rounding, MPD about 45 degrees
        n = int(rng.integers(3, 25))
        kk = np.arange(n) * int(rng.choice([1, 1, 2])) if n > 4 else np.arange(n)
        phi = np.exp(2j * np.pi * kk / n)
        if rng.random() < 0.5:
            phi = phi / phi[0]
    elif cls == "constant":
        phi = np.full(n, float(rng.choice([1.0, -2.5, 0.3])), dtype=complex)
    else:
        phi = v + 1j * rng.standard_normal(n)
    return n, phi


def cfac(rng):
    if rng.random() < 0.2:
        return complex(rng.choice([1, -1, 1j, -1j, 2, 0.5]))
    return complex(10 ** rng.uniform(-6, 6) * np.exp(1j * rng.uniform(0, 2 * np.pi)))


def run_vectors(ctx, case, rng):
    cls = case["cls"]
    from pyoma2.functions import gen as G_

    for rep in range(8):
        n, phi0 = draw(rng, cls)
        c = cfac(rng)
        collinear = cls.startswith("collinear") or cls == "constant"
        phi = c * phi0 if collinear else phi0
        other = rng.standard_normal(n) + 1j * rng.standard_normal(n)
        vals = {}
        for nm in ("MPC", "MPD", "MCF"):
            vals[nm] = call(ctx, nm, phi)
        vals["MAC"] = call(ctx, "MAC", phi, other)
        # scale invariance
        c2 = cfac(rng)
        ctx.ev("scale-invariance")
        for nm in ("MPC", "MPD", "MCF"):
            v2 = call(ctx, nm, c2 * phi)
            a, b = np.ravel(np.real(vals[nm]))[0], np.ravel(np.real(v2))[0]
            if nm == "MPD" and cls == "ring":
                # components on a circle have no best-fit line through the origin (both principal axes are equally good): the mean phase deviation
                # from "the" line is not defined there, only its range is
                ctx.not_judged("MPD invariance on a circular shape (principal axis undefined)")
                continue
            if np.isfinite(a) and np.isfinite(b):
                ctx.maxi(f"scale-invariance {nm}: worst change", abs(a - b))
                ctx.check(abs(a - b) <= 1e-6, f"{nm}:not_scale_invariant", lambda: f"{nm}(phi)={a!r} but {nm}(c*phi)={b!r} for c={c2:.4g} ({cls}, n={n})")
        m2 = call(ctx, "MAC", c2 * phi, other)
        m3 = call(ctx, "MAC", phi, c2 * other)
        if np.isfinite(vals["MAC"]):
            ctx.check(abs(m2 - vals["MAC"]) <= 1e-6 and abs(m3 - vals["MAC"]) <= 1e-6, "MAC:not_scale_invariant",
                      lambda: f"MAC changes under scaling by c={c2:.4g}: {vals['MAC']!r} -> {m2!r} / {m3!r}")
        # shapes of (almost) unit length - singular vectors, shapes stored with five decimals, a unit vector times a factor of modulus 1 +- 4e-6:
        # the criterion normalises by the actual lengths, near one or not
        u = phi / np.linalg.norm(phi)
        w = other / np.linalg.norm(other)
        s_ = complex(rng.choice([1.000004, 0.999996, 1 + 3e-6, 1 - 4.5e-6])) * np.exp(1j * rng.uniform(0, 2 * np.pi))
        ctx.ev("near-unit-length MAC")
        m_uw = call(ctx, "MAC", u, w)
        m_su = call(ctx, "MAC", s_ * u, w)
        m_self = call(ctx, "MAC", s_ * u, u)
        r5 = np.round(u, 5)
        m_r = call(ctx, "MAC", r5, r5) if np.any(r5) else 1.0
        ok_ = abs(m_su - m_uw) <= 1e-12 and abs(m_self - 1) <= 1e-12 and abs(m_r - 1) <= 1e-12
        ctx.check(ok_, "MAC:near_unit_length_not_normalised",
                  lambda: f"unit-length u, w, |s| = {abs(s_):.7f}: MAC(s*u, w) - MAC(u, w) = {m_su - m_uw:.2e}, MAC(s*u, u) - 1 = {m_self - 1:.2e}, MAC(r, r) - 1 = {m_r - 1:.2e} for u rounded to five decimals (n={n})")
        if collinear:
            ctx.ev("collinear-exact")
            real_v = phi0.real
            mac1 = call(ctx, "MAC", phi, real_v.astype(complex))
            # the same with the real vector in a real dtype, in either argument position (mixed dtypes)
            for mm in (call(ctx, "MAC", phi, real_v.copy()), call(ctx, "MAC", real_v.copy(), phi)):
                ctx.ev("mixed-dtype MAC")
                if not (np.isfinite(mm) and abs(mm - 1) <= 1e-9):
                    ctx.fail("MAC:mixed_real_complex_dtype", f"MAC(c*v, v) with v in a real dtype = {mm!r} (c={c:.4g}, n={n}); with v cast to complex: {mac1!r}")
                    break
            d = describe(phi)
            for nm, got, exp in (("MAC", mac1, 1.0), ("MPC", np.real(vals["MPC"]), 1.0), ("MPD", vals["MPD"], 0.0), ("MCF", np.ravel(vals["MCF"])[0], 0.0)):
                if np.isnan(got):
                    ctx.fail(f"{nm}:nan:{mech(nm, d)}", f"{nm} of a complex multiple (c={c:.4g}) of a real vector is NaN (n={n}, class {cls})")
                else:
                    ctx.check(abs(got - exp) <= 1e-9 if nm != "MPD" else abs(got - exp) <= 1e-6, f"{nm}:collinear_value:{d}",
                              lambda: f"{nm} of c*v (v real, c={c:.4g}) is {got!r}, expected {exp} (n={n}, class {cls})")
        if cls == "ring":
            for cc in (1.0, 2 + 1j, 1e6, -3000 + 4000j, 1e-5j, complex(cfac(rng))):
                call(ctx, "MPC", cc * phi)  # finiteness and range are the postconditions attached to the function
                call(ctx, "MPD", cc * phi)
        # MSF
        ctx.ev("MSF(v,cv)=c")
        cr = float(rng.choice([-1, 1]) * 10 ** rng.uniform(-6, 6))
        base = phi0 if cls != "isotropic_reference" else iso(rng, n)
        msf = G_.MSF(base, cr * base)
        d = describe(base)
        if np.any(np.isnan(msf)):
            ctx.fail(f"MSF:nan:{mech('MSF', d)}", f"MSF(v, c*v) is NaN for c={cr:.4g} (class {d}, n={n})")
        elif "isotropic" in d.split("+") and not (np.shape(msf) == (1,) and abs(msf[0] - cr) <= 1e-9 * abs(cr)):
            # the same mechanism as the NaN: the bilinear form v^T v of the denominator vanishes - here only up to rounding, so that the quotient
            # of two rounding residues is returned
            ctx.fail(f"MSF:nan:{mech('MSF', d)}", f"MSF(v, c*v) = {msf!r} for c={cr:.6g}: sum(v_i^2) vanishes up to rounding, the quotient is arbitrary (class {d}, n={n})")
        else:
            ctx.check(np.shape(msf) == (1,) and abs(msf[0] - cr) <= 1e-9 * abs(cr), f"MSF:value:{d}", lambda: f"MSF(v, {cr:.6g}*v) = {msf!r} (class {d}, n={n})")
        if len(set(np.round(np.abs(phi0), 9))) >= 2:
            ctx.nontrivial((cls, n, round(abs(c), 6) if collinear else 0))
        ctx.state("n=2" if n == 2 else ("n>=33" if n >= 33 else "n other"))
    ctx.state("class:" + cls)
    ctx.sample({"entry": "gen.MAC/MPC/MPD/MCF/MSF under icontract postconditions", "class": cls, "n": n, "example phi[:4]": [complex(x).__repr__() for x in phi[:4]]})


def iso(rng, n):
    """vector with sum(phi^2) = 0 exactly representable: pairs (x, i x)."""
    v = np.zeros(n, complex)
    x = np.round(rng.standard_normal(n // 2) * 4) / 4 + 1.0
    v[0:2 * (n // 2):2] = x
    v[1:2 * (n // 2):2] = 1j * x
    return v


def run_sets(ctx, rng):
    n = int(rng.integers(2, 40))
    nx, na = int(rng.integers(1, 6)), int(rng.integers(1, 6))
    if rng.random() < 0.25:
        # more shapes than components (many modes identified at a few sensors): rows stay components, columns stay shapes
        n = int(rng.integers(2, 5))
        nx, na = int(rng.integers(n + 1, 9)), int(rng.integers(n + 1, 9))
        ctx.state("sets with more shapes than components")
    X = rng.standard_normal((n, nx)) + 1j * rng.standard_normal((n, nx))
    A = rng.standard_normal((n, na)) + 1j * rng.standard_normal((n, na))
    if rng.random() < 0.5 and na >= 1:
        A[:, 0] = X[:, 0] * cfac(rng)
    if rng.random() < 0.4:
        X = X.real.copy()  # real-dtype set against a complex-dtype set
    Xk, Ak = X.copy(), A.copy()
    M = call(ctx, "MAC", X, A)
    Mt = call(ctx, "MAC", A, X)
    ctx.ev("arguments-unchanged+auto-MAC")
    ctx.check(np.array_equal(X, Xk) and np.array_equal(A, Ak), "MAC:arguments_modified", "MAC changed the arrays it was given")
    if nx >= 2:
        Xs = X * (10 ** rng.uniform(-7, 7, nx))[None, :]  # shapes of any length (amplitudes up to 14 decades apart inside one set)
        Ms = np.asarray(call(ctx, "MAC", Xs, Xs))  # one and the same object on both sides
        ctx.check(Ms.shape == (nx, nx) and np.allclose(np.diag(Ms), 1.0, atol=1e-9) and np.allclose(Ms, Ms.T, atol=1e-9), "MAC:auto_mac_of_a_set",
                  lambda: f"MAC(S, S) of {nx} shapes (same array object): diagonal {np.diag(Ms)}")
    ctx.ev("shape+symmetry@MAC")
    if nx == 1 and na == 1:
        ctx.check(np.ndim(M) == 0 and abs(M - Mt) <= 1e-12, "MAC:symmetry", "MAC(X,A) != MAC(A,X) for single shapes")
    else:
        ok = np.shape(M) == (nx, na) and np.shape(Mt) == (na, nx)
        ctx.check(ok and np.max(np.abs(np.asarray(M) - np.asarray(Mt).T)) <= 1e-12, "MAC:shape_or_symmetry",
                  lambda: f"MAC(X[{n}x{nx}], A[{n}x{na}]) has shape {np.shape(M)}; MAC(A,X) {np.shape(Mt)}; not transposes of each other")
        # entries against own formula
        for i in range(nx):
            for j in range(na):
                e = gen.mac(X[:, i], A[:, j])
                ctx.check(abs(np.asarray(M)[i, j] - e) <= 1e-10, "MAC:entry_value", lambda: f"MAC[{i},{j}]={np.asarray(M)[i,j]!r} expected {e!r}")
    if nx >= 2:
        # two different views of ONE parent array (columns of a mode-shape matrix) are two different sets of shapes
        ctx.ev("views-of-one-array@MAC")
        k2 = nx // 2
        mv = call(ctx, "MAC", X[:, 0], X[:, 1])
        ctx.check(abs(mv - gen.mac(X[:, 0].copy(), X[:, 1].copy())) <= 1e-10, "MAC:views_of_one_array", lambda: f"MAC(P[:, 0], P[:, 1]) = {mv!r}, with copies {gen.mac(X[:, 0], X[:, 1])!r}")
        if k2 >= 1:
            Mv = np.asarray(call(ctx, "MAC", X[:, :k2], X[:, k2:2 * k2]))
            Ev = np.array([[gen.mac(X[:, i], X[:, k2 + j]) for j in range(k2)] for i in range(k2)])
            ctx.check(Mv.shape == Ev.shape and np.allclose(Mv, Ev, atol=1e-10) if k2 > 1 else abs(complex(Mv) - Ev[0, 0]) <= 1e-10, "MAC:views_of_one_array",
                      lambda: f"MAC(P[:, :{k2}], P[:, {k2}:{2*k2}]) differs from the MAC of copies of the two blocks")
    mcf = call(ctx, "MCF", X)
    ctx.check(np.shape(mcf) == (nx,), "MCF:shape", lambda: f"MCF of {nx} shapes has shape {np.shape(mcf)}")
    if np.shape(mcf) == (nx,):
        ctx.ev("set=columns@MCF")
        from pyoma2.functions import gen as G_
        per = np.array([np.ravel(G_.MCF(X[:, i].copy()))[0] for i in range(nx)])
        ctx.check(np.allclose(np.ravel(mcf), per, rtol=1e-9, atol=1e-12, equal_nan=True), "MCF:set_value_is_not_the_value_of_its_column",
                  lambda: f"MCF of a set of {nx} shapes with {n} components = {np.ravel(mcf)}, shape by shape {per}")
    if nx >= 2:
        c = rng.uniform(0.05, 20, nx) * rng.choice([-1, 1], nx)
        den = np.abs(np.sum(X * X, axis=0)) / np.sum(np.abs(X) ** 2, axis=0)
        if np.all(den > 1e-3):
            from pyoma2.functions import gen as G_
            msf = G_.MSF(X, X * c[None, :])
            ctx.ev("set@MSF")
            ctx.check(np.shape(msf) == (nx,) and np.allclose(msf, c, rtol=1e-9), "MSF:set_of_shapes", lambda: f"MSF(V[{n}x{nx}], V*c) = {msf!r}, factors {c}")
    ctx.nontrivial(("sets", n, nx, na))
    ctx.state("class:sets")


def run_in_run(ctx, rng):
    """contracts stay switched on while a real SSI run calls HC_phi_comp / SC_apply."""
    import pyoma2.functions.gen as G_
    from pyoma2.algorithms import SSIcov
    from pyoma2.setup import SingleSetup
    from vf import probes

    data, *_ = gen.sim_response(rng, 4, 4000, 100.0, m=3, complex_modes=True)
    before = dict(STATE["ctx"].monitors)
    undo = []
    try:
        for nm in ("MAC", "MPC", "MPD"):
            undo += probes.rebind_all(getattr(G_, nm), CONTRACTS[nm])
        ss = SingleSetup(data, 100.0)
        a = SSIcov(name="a", br=10, ordmax=20)
        ss.add_algorithms(a)
        try:
            ss.run_all()
        except PostBroken as e:
            ctx.fail(f"{e.name}:during_run", f"postcondition {e.name} broken inside SSIcov.run on noisy data")
    finally:
        probes.undo_rebind(undo)
    n = sum(ctx.monitors[k] - before.get(k, 0) for k in ("range@MAC", "range@MPC", "range@MPD"))
    ctx.ev("contracts-active-during-SSI-run", n)
    ctx.nontrivial(("in_run", int(n > 0)))


def run_repo_tests(ctx):
    """the repository's own tests with the contracts switched on (every MAC / MPC / MPD / MCF call they make is judged)."""
    import json
    import os
    import subprocess
    import sys
    import tempfile

    repo = os.environ.get("VERIF_REPO", "/repo")
    verif = os.path.dirname(os.path.dirname(os.path.dirname(os.path.abspath(__file__))))
    with tempfile.NamedTemporaryFile(suffix=".json", delete=False) as f:
        out = f.name
    env = dict(os.environ, PYTHONPATH=os.pathsep.join([os.path.join(repo, "src"), verif]), VERIF_CONTRACT_OUT=out, MPLBACKEND="Agg")
    subprocess.run([sys.executable, "-m", "pytest", "-q", "-p", "no:cacheprovider", "-p", "vf.contract_plugin", "--timeout=900", "tests/unit",
                    "tests/integration/setup/test_base_setup.py", "tests/integration/setup/test_single_setup.py"], cwd=repo, env=env,
                   stdout=subprocess.DEVNULL, stderr=subprocess.DEVNULL, timeout=1800)
    try:
        rec = json.load(open(out))
    except Exception:  # noqa: BLE001
        ctx.inconc("contract plugin produced no record")
        return
    finally:
        os.unlink(out)
    n = sum(rec["evaluations"].values())
    ctx.ev("contracts-active-during-repository-tests", n)
    for b in rec["broken"][:5]:
        ctx.fail(f"{b['contract']}:during_repository_tests", f"contract {b['contract']} broken while the repository's own tests ran, input {b['input']}")
    ctx.nontrivial(("repo_tests", int(n > 0)))
    ctx.add_extra("contract evaluations during the repository's tests", dict(rec["evaluations"]))


def run_case(ctx, case):
    rng = gen.rng_of(case)
    if case["cls"] == "repo_tests":
        run_repo_tests(ctx)
        return
    if case["cls"] == "sets":
        run_sets(ctx, rng)
        run_vectors(ctx, {"cls": "generic"}, rng)
    elif case["cls"] == "contracts_in_run":
        run_in_run(ctx, rng)
    else:
        run_vectors(ctx, case, rng)
