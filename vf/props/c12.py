"""C12 - The SSI Hankel/Toeplitz matrix has the prescribed lag, channel and block layout  [P + M, exhaustive basis]."""
from __future__ import annotations

import itertools

import numpy as np

from vf import gen, plumbing

PID = "C12"
ANCHORS = ["pyoma2.functions.ssi:build_hank", "pyoma2.algorithms.ssi:SSIdat.run"]
REQUIRED_MONITORS = ["impulse-pairs(cov_mm)", "impulse-pairs(cov_R)", "definition(cov_mm)", "definition(cov_R)", "projection-gram(dat)",
                     "bilinearity(cov_mm)", "bilinearity(cov_R)", "result.H@SSIcov", "result.H@SSIdat"]
ALL_STATES = [f"l={l}" for l in range(1, 5)] + [f"br={b}" for b in range(1, 6)] + ["ref=subset", "ref=all", "ref unordered"]
REQUIRED_STATES = ["channels with a static offset larger than their range", "reference channels counted from the end (negative indices)", "build_hank called with calc_unc / nb by position"] + [f"l={l}" for l in range(1, 5)] + [f"br={b}" for b in range(1, 6)] + ["ref=subset", "Yref is Y (same object)", "same instance re-run with another ref_ind",
                                                                                                 "integer-typed records", "ordmax above br * (number of references)", "matrix requested together with the uncertainty factor", "one run-parameter object shared by SSIdat and SSIcov", "record amplitude below 1e-6", "two nearly identical reference channels"]
RULE = ("(a) exhaustive over a basis: for every channel count 1..4, every reference subset, br 1..5 and the listed record lengths, build_hank "
        "is evaluated on ALL pairs of unit impulses (e_{a,s}, e_{b,t}); each pair must light exactly the cells (i,a;j,b) with lag i+j+1 "
        "(cov_mm) / br+i-j (cov_R) with the uniform weight, nothing else; (b) random data, shapes up to 8 channels / br 12 / 400 samples "
        "compared entry-wise with the definition; (c) 'dat': Gram matrix equals that of the projection of future on past reference outputs; "
        "(d) H stored by real SSIcov/SSIdat runs; non-trivial = more than one channel or more than one block row; distinct by shape")
ASSUMPTIONS = ["record lengths enumerated in the quick tier are a subset of 2br+4..40 (all of them in the thorough tier)",
               "'dat' judged only when N-1 >= (br+1)(l+r) and cond(Yp Yp^T) <= 1e10"]


def EXHAUSTIVE(tier):
    return False


def ndats(br, tier):
    lo = 2 * br + 4
    if tier == "thorough":
        return list(range(lo, 41))
    return sorted({lo, lo + 1, min(40, lo + 7), 24 if 24 >= lo else lo})


PLUMB_CLASSES = ['SSIcov', 'SSIdat']
PLUMB_FIELDS = ['H']
REQUIRED_MONITORS = list(REQUIRED_MONITORS) + [f"plumbing:{s_}" for s_ in plumbing.SCENARIOS]
REQUIRED_STATES = list(REQUIRED_STATES) + [f"plumbing scenario {s_}" for s_ in plumbing.SCENARIOS]


def cases(tier, seed):
    return _cases(tier, seed) + plumbing.cases(len(plumbing.SCENARIOS) * len(PLUMB_CLASSES) * (1 if tier == "quick" else 6), PLUMB_CLASSES)


def _cases(tier, seed):
    out = []
    for l in range(1, 5):
        for nr in range(1, l + 1):
            for ref in itertools.combinations(range(l), nr):
                for br in range(1, 6):
                    for nd in ndats(br, tier):
                        out.append({"cls": "impulse_basis", "l": l, "ref": list(ref), "br": br, "Ndat": nd, "k": len(out)})
    nB, nC = (300, 30) if tier == "quick" else (6000, 400)
    out += [{"cls": "random_definition", "k": k} for k in range(nB)]
    out += [{"cls": "through_classes", "k": k} for k in range(nC)]
    return out


# ---------------------------------------------------------------- definitions (written from the statement, entry by entry)
def def_cov_mm(Y, Yref, br):
    l, Nd = Y.shape
    r = Yref.shape[0]
    p, q = br, br + 1
    N = Nd - p - q
    H = np.zeros(((p + 1) * l, q * r))
    tau = np.arange(N - 1)
    for i in range(p + 1):
        for j in range(q):
            lag = i + j + 1
            t0 = q - j + tau  # times of the reference samples that are averaged
            for a in range(l):
                for b in range(r):
                    H[i * l + a, j * r + b] = np.dot(Y[a, t0 + lag], Yref[b, t0]) / N
    return H


def def_cov_R(Y, Yref, br):
    l, Nd = Y.shape
    r = Yref.shape[0]
    q = br + 1
    H = np.zeros((q * l, q * r))
    for i in range(q):
        for j in range(q):
            k = br + i - j
            t = np.arange(Nd - k)
            for a in range(l):
                for b in range(r):
                    H[i * l + a, j * r + b] = np.dot(Y[a, t], Yref[b, t + k]) / (Nd - k)
    return H


def impulse_expect(method, l, r, br, Nd, a, s, b, t):
    """cells lit by the impulse pair (channel a at time s, reference b at time t) and their weight."""
    p, q = br, br + 1
    N = Nd - p - q
    cells = {}
    if method == "cov_mm":
        for i in range(p + 1):
            for j in range(q):
                if s - t == i + j + 1 and 0 <= t - (q - j) <= N - 2:
                    cells[(i * l + a, j * r + b)] = 1.0 / N
    else:
        for i in range(q):
            for j in range(q):
                k = br + i - j
                if t - s == k and 0 <= s <= Nd - k - 1:
                    cells[(i * l + a, j * r + b)] = 1.0 / (Nd - k)
    return cells


def run_basis(ctx, case):
    from pyoma2.functions import ssi

    l, ref, br, Nd = case["l"], case["ref"], case["br"], case["Ndat"]
    r = len(ref)
    shape = ((br + 1) * l, (br + 1) * r)
    for method in ("cov_mm", "cov_R"):
        tag = f"impulse-pairs({method})"
        bad = None
        n = 0
        for a in range(l):
            for s in range(Nd):
                Y = np.zeros((l, Nd))
                Y[a, s] = 1.0
                for b in range(r):
                    for t in range(Nd):
                        Yr = np.zeros((r, Nd))
                        Yr[b, t] = 1.0
                        H, _ = ssi.build_hank(Y, Yr, br, method)
                        n += 1
                        if H.shape != shape:
                            bad = bad or ("shape", f"shape {H.shape} expected {shape}")
                            continue
                        exp = impulse_expect(method, l, r, br, Nd, a, s, b, t)
                        nz = np.argwhere(np.abs(H) > 1e-15)
                        got = {(int(x), int(y)): float(H[x, y]) for x, y in nz}
                        if set(got) != set(exp) or any(not (abs(got[c] - exp[c]) <= 1e-12) for c in exp):
                            if bad is None:
                                extra = sorted(set(got) - set(exp))[:3]
                                missing = sorted(set(exp) - set(got))[:3]
                                kind = "lag_or_layout" if (extra or missing) else "weight"
                                bad = (kind, f"{method} l={l} ref={ref} br={br} Ndat={Nd}: impulse y[{a},{s}] x yref[{b},{t}] (time difference {s-t}) lights "
                                             f"cells {sorted(got)[:4]} expected {sorted(exp)[:4]} (extra {extra}, missing {missing}); "
                                             f"weights {[round(v, 6) for v in list(got.values())[:3]]} vs {[round(v, 6) for v in list(exp.values())[:3]]}")
        ctx.ev(tag, n)
        if bad:
            ctx.fail(f"{method}:impulse_{bad[0]}", bad[1])
    ctx.state(f"l={l}")
    ctx.state(f"br={br}")
    ctx.state("ref=all" if r == l else "ref=subset")
    if l > 1 or br > 1:
        ctx.nontrivial(("basis", l, tuple(ref), br, Nd))
    ctx.add_extra("impulse_configs_enumerated", 1)
    if case["k"] % 400 == 7:
        ctx.sample({"entry": "ssi.build_hank on all unit-impulse pairs", "channels": l, "ref": ref, "br": br, "Ndat": Nd, "pairs": (l * Nd) * (r * Nd)})


def run_random(ctx, rng, case_k=0):
    from pyoma2.functions import ssi

    l = int(rng.integers(1, 9))
    r = int(rng.integers(1, l + 1))
    br = int(rng.integers(1, 13))
    Nd = int(rng.integers(2 * br + 6, 400))
    refidx = [int(x) for x in rng.permutation(l)[:r]]
    unordered = refidx != sorted(refidx)
    Y = gen.coloured(rng, l, Nd) * 10 ** (rng.uniform(-2, 2) if rng.random() < 0.7 else rng.uniform(-10, -2))
    if np.std(Y) < 1e-6:
        ctx.state("record amplitude below 1e-6")
    if case_k % 6 == 1 and Y.dtype.kind == "f":
        # records that were not detrended: gravity on a DC accelerometer (9.81 +- 0.05), a strain-gauge bias - every sample of a channel on one
        # side of zero, further away than the channel's own spread. The matrix is that of the records as given.
        for i in rng.permutation(l)[: int(rng.integers(1, l + 1))]:
            Y[i] = Y[i] + float(rng.choice([-1, 1]) * rng.uniform(3, 200)) * np.ptp(Y[i])
        ctx.state("channels with a static offset larger than their range")
    if l >= 3 and r >= 2 and rng.random() < 0.25:
        # two reference sensors side by side: nearly identical records (full rank, but ill conditioned past outputs)
        Y[refidx[1]] = Y[refidx[0]] + float(10 ** rng.uniform(-7, -4)) * np.std(Y[refidx[0]]) * gen.coloured(rng, 1, Nd)[0]
        ctx.state("two nearly identical reference channels")
    if rng.random() < 0.25:
        # raw ADC counts: records stored with a narrow integer dtype (the entries are sample correlations of the VALUES, whatever the storage)
        dt_ = rng.choice([np.int16, np.int32])
        Y = np.round(gen.coloured(rng, l, Nd) * float(rng.choice([300, 3000, 20000])) / 6).clip(-32000, 32000).astype(dt_)
        ctx.state("integer-typed records")
    Yref = Y[refidx]
    if r == l and rng.random() < 0.6:
        refidx = list(range(l))
        Yref = Y  # data and reference data are one and the same object (what the classes pass when ref_ind is None)
        unordered = False
        ctx.state("Yref is Y (same object)")
    p, q = br, br + 1
    N = Nd - p - q
    shape = ((br + 1) * l, (br + 1) * r)
    Yc, Yrc = Y.copy(), Yref.copy()
    for method, fdef in (("cov_mm", def_cov_mm), ("cov_R", def_cov_R)):
        H, T = ssi.build_hank(Y, Yref, br, method)
        if rng.random() < 0.3:
            # the documented positional order (Y, Yref, br, method, calc_unc, nb) means what the keywords mean
            Hp, _ = ssi.build_hank(Y, Yref, br, method, False) if rng.random() < 0.5 else ssi.build_hank(Y, Yref, br, method, False, 100)
            ctx.state("build_hank called with calc_unc / nb by position")
            ctx.check(np.shape(Hp) == np.shape(H) and np.array_equal(Hp, H), f"{method}:positional_call_differs",
                      lambda: f"build_hank(Y, Yref, br, {method!r}, False) is not build_hank(Y, Yref, br, {method!r})")
        ctx.ev(f"definition({method})")
        if not ctx.check(H.shape == shape, f"{method}:shape", lambda: f"{method}: shape {H.shape} expected {shape} (l={l}, r={r}, br={br})"):
            continue
        E = fdef(Y.astype(float), Yref.astype(float), br)
        err = np.max(np.abs(H - E)) / np.max(np.abs(E))
        ctx.maxi(f"definition({method}): worst relative difference", err)
        if not (err <= 1e-10):
            x, y = np.unravel_index(np.argmax(np.abs(H - E)), H.shape)
            ctx.fail(f"{method}:definition_mismatch", f"{method} l={l} ref={refidx} br={br} Ndat={Nd}: entry (block {x//l}, ch {x%l}; block {y//r}, ref {y%r}) = {H[x,y]:.6g}, definition {E[x,y]:.6g}")
        # bilinearity
        ctx.ev(f"bilinearity({method})")
        Y2 = gen.coloured(rng, l, Nd)
        a_, b_ = rng.uniform(-2, 2, 2)
        H2, _ = ssi.build_hank(Y2, Yref, br, method)
        H3, _ = ssi.build_hank(a_ * Y + b_ * Y2, Yref, br, method)
        H4, _ = ssi.build_hank(Y, a_ * Yref + b_ * Y2[refidx], br, method)
        H5, _ = ssi.build_hank(Y, Y2[refidx], br, method)
        sc = np.max(np.abs(H)) + np.max(np.abs(H2)) + np.max(np.abs(H5))
        ctx.check(np.max(np.abs(H3 - (a_ * H + b_ * H2))) <= 1e-10 * sc * 3 and np.max(np.abs(H4 - (a_ * H + b_ * H5))) <= 1e-10 * sc * 3,
                  f"{method}:not_bilinear", f"{method}: build_hank is not bilinear in (data, reference data)")
    if rng.random() < 0.3:
        # asking for the uncertainty factor as well must not change the matrix itself
        nb = int(rng.integers(2, 9))
        Hu, Tu = ssi.build_hank(Y, Yref, br, "cov_mm", calc_unc=True, nb=nb)
        ctx.ev("definition(cov_mm, calc_unc=True)")
        E = def_cov_mm(Y.astype(float), Yref.astype(float), br)
        ctx.check(np.shape(Hu) == shape and np.max(np.abs(Hu - E)) <= 1e-10 * np.max(np.abs(E)), "cov_mm:definition_mismatch_with_calc_unc",
                  lambda: f"cov_mm with calc_unc=True, nb={nb}: matrix differs from the definition by {np.max(np.abs(Hu - E)) / np.max(np.abs(E)):.2e} (l={l}, ref={refidx}, br={br}, Ndat={Nd})")
        ctx.state("matrix requested together with the uncertainty factor")
    ctx.check(np.array_equal(Y, Yc) and np.array_equal(Yref, Yrc), "inputs_modified", "build_hank modified its inputs")
    # data-driven
    if N - 1 >= (p + 1) * (l + r):
        H, _ = ssi.build_hank(Y, Yref, br, "dat")
        if ctx.check(H.shape == shape, "dat:shape", lambda: f"dat: shape {H.shape} expected {shape}"):
            Yf = np.vstack([Y[:, q + 1 + i: N + q + i] for i in range(p + 1)]) / np.sqrt(N)
            Yp = np.vstack([Yref[:, q - j: N + q - 1 - j] for j in range(q)]) / np.sqrt(N)
            # orthogonal projection onto the row space of Yp through an orthonormal basis (QR of Yp^T): accurate to eps*cond(Yp), unlike the
            # normal equations Yp Yp^T, whose condition number is the square
            Yp = Yp.astype(float)
            sv = np.linalg.svd(Yp, compute_uv=False)
            cYp = sv[0] / sv[-1] if sv[-1] > 0 else np.inf
            if cYp <= 1e9:
                Qb, _ = np.linalg.qr(Yp.T)
                Pq = Yf.astype(float) @ Qb
                ctx.ev("projection-gram(dat)")
                E = Pq @ Pq.T
                err = np.max(np.abs(H @ H.T - E)) / np.max(np.abs(E))
                tol_d = max(1e-8, 1e3 * np.finfo(float).eps * cYp)
                ctx.maxi("projection-gram(dat): worst relative difference / tolerance", err / tol_d)
                ctx.check(err <= tol_d, "dat:gram_not_projection",
                          lambda: f"dat l={l} ref={refidx} br={br} Ndat={Nd}: H H^T differs from Gram of projection by {err:.2e} (cond of the past outputs {cYp:.1e}, tolerance {tol_d:.1e})")
            else:
                ctx.not_judged("dat: cond(Yp) > 1e9")
    else:
        ctx.not_judged("dat: record shorter than the stacked row count")
    if unordered:
        ctx.state("ref unordered")
    ctx.state("ref=all" if r == l else "ref=subset")
    if l > 1 or br > 1:
        ctx.nontrivial(("random", l, r, br, Nd))
    ctx.sample({"entry": "ssi.build_hank random data", "channels": l, "ref": refidx, "br": br, "Ndat": Nd})


def run_classes(ctx, rng):
    from pyoma2.algorithms import SSIcov, SSIdat
    from pyoma2.setup import SingleSetup

    l = int(rng.integers(2, 6))
    r = int(rng.integers(1, l + 1))
    refidx = [int(x) for x in rng.permutation(l)[:r]]
    if rng.random() < 0.3:
        # channels counted from the end, as any NumPy index may be (ref_ind=[-1]: the last channel is the reference)
        refidx = [(x - l) if rng.random() < 0.6 else x for x in refidx]
        if any(x < 0 for x in refidx):
            ctx.state("reference channels counted from the end (negative indices)")
    br = int(rng.integers(2, 8))
    Nd = int(rng.integers(400, 1500))
    data, *_ = gen.sim_response(rng, l, Nd, 100.0, m=2)
    if rng.random() < 0.25:
        data = np.round(data / np.max(np.abs(data)) * float(rng.choice([500, 5000, 30000]))).astype(np.int16)
        ctx.state("integer-typed records")
    unc = rng.random() < 0.3
    for method, cls, fdef in (("cov_mm", SSIcov, def_cov_mm), ("cov_R", SSIcov, def_cov_R), ("dat", SSIdat, None)):
        ss = SingleSetup(data.copy(), 100.0)
        ordmax = min(int(rng.choice([6, 1000])), br * l, (br + 1) * r)  # also the largest order the library accepts for this br
        if ordmax > br * r:
            ctx.state("ordmax above br * (number of references)")
        kw_unc = dict(calc_unc=True, nb=int(rng.integers(3, 9))) if (unc and method == "cov_mm") else {}
        alg = cls(name="a", br=br, ordmax=ordmax, method=method, ref_ind=refidx, **kw_unc)
        ss.add_algorithms(alg)
        ss.run_all()
        H = alg.result.H
        Y = data.T
        tag = "result.H@SSIdat" if method == "dat" else "result.H@SSIcov"
        ctx.ev(tag)
        if fdef is not None:
            E = fdef(Y.astype(float), Y[refidx].astype(float), br)
            ok = np.shape(H) == E.shape and np.max(np.abs(H - E)) <= 1e-10 * np.max(np.abs(E))
            ctx.check(ok, f"cls:{method}:H_not_definition", lambda: f"{cls.__name__}(method={method}, ref_ind={refidx}).result.H is not the definition's matrix for the setup data")
        else:
            p, q = br, br + 1
            N = Nd - p - q
            Y = Y.astype(float)
            Yf = np.vstack([Y[:, q + 1 + i: N + q + i] for i in range(p + 1)]) / np.sqrt(N)
            Yp = np.vstack([Y[refidx][:, q - j: N + q - 1 - j] for j in range(q)]) / np.sqrt(N)
            P = Yf @ Yp.T @ np.linalg.solve(Yp @ Yp.T, Yp)
            E = P @ P.T
            ok = np.shape(H) == ((br + 1) * l, (br + 1) * r) and np.max(np.abs(H @ H.T - E)) <= 1e-8 * np.max(np.abs(E))
            ctx.check(ok, "cls:dat:H_not_projection", lambda: f"SSIdat(ref_ind={refidx}).result.H: Gram matrix is not the projection's")
    # history: the same instance re-run after only ref_ind changed; and the default configuration (no ref_ind)
    for cls, method, fdef in ((SSIcov, "cov_mm", def_cov_mm), (SSIcov, "cov_R", def_cov_R)):
        ss = SingleSetup(data.copy(), 100.0)
        alg = cls(name="a", br=br, ordmax=min(6, br * l, (br + 1) * 1), method=method, ref_ind=None)
        ss.add_algorithms(alg)
        ss.run_all()
        Y = data.T
        for ref_now in (None, [int(refidx[0])], None, list(reversed(refidx))):
            alg.run_params.ref_ind = ref_now
            alg.run_params.ordmax = min(6, br * l, (br + 1) * (l if ref_now is None else len(ref_now)) - 1)
            ss.run_by_name("a")
            E = fdef(Y.astype(float), Y.astype(float) if ref_now is None else Y[ref_now].astype(float), br)
            H = alg.result.H
            ctx.ev("result.H@SSIcov")
            ctx.check(np.shape(H) == E.shape and np.max(np.abs(H - E)) <= 1e-10 * np.max(np.abs(E)), f"cls:{method}:H_stale_or_wrong_after_ref_ind_change",
                      lambda: f"SSIcov(method={method}) re-run with ref_ind={ref_now}: result.H {np.shape(H)} is not the matrix of the current reference set")
    # one run-parameter object configuring both a data-driven and a covariance-driven analysis (method left at each class's default)
    if rng.random() < 0.5:
        from pyoma2.algorithms.data.run_params import SSIRunParams
        for first in (SSIdat, SSIcov):
            second = SSIcov if first is SSIdat else SSIdat
            rp = SSIRunParams(br=br, ordmax=min(4, br * l, (br + 1) * l - 1))
            ss = SingleSetup(data.copy(), 100.0)
            a1, a2 = first(name="one", run_params=rp), second(name="two", run_params=rp)
            ss.add_algorithms(a1, a2)
            ss.run_all()
            Y = data.T.astype(float)
            for alg in (a1, a2):
                H = alg.result.H
                ctx.ev("result.H@SSIcov" if isinstance(alg, SSIcov) else "result.H@SSIdat")
                if isinstance(alg, SSIcov):
                    E = def_cov_mm(Y, Y, br)
                    ctx.check(np.shape(H) == E.shape and np.max(np.abs(H - E)) <= 1e-10 * np.max(np.abs(E)), "cls:shared_run_params:H_not_of_the_class_method",
                              f"SSIcov sharing its run-parameter object with an SSIdat (constructed {'after' if first is SSIdat else 'before'} it): result.H is not the moment matrix")
                else:
                    p_, q_ = br, br + 1
                    N_ = Y.shape[1] - p_ - q_
                    Yf = np.vstack([Y[:, q_ + 1 + i: N_ + q_ + i] for i in range(p_ + 1)]) / np.sqrt(N_)
                    Yp = np.vstack([Y[:, q_ - j: N_ + q_ - 1 - j] for j in range(q_)]) / np.sqrt(N_)
                    P = Yf @ Yp.T @ np.linalg.solve(Yp @ Yp.T, Yp)
                    E = P @ P.T
                    ctx.check(np.shape(H) == ((br + 1) * l, (br + 1) * l) and np.max(np.abs(H @ H.T - E)) <= 1e-8 * np.max(np.abs(E)), "cls:shared_run_params:H_not_of_the_class_method",
                              f"SSIdat sharing its run-parameter object with an SSIcov (constructed {'before' if first is SSIdat else 'after'} it): Gram matrix of result.H is not the projection's")
        ctx.state("one run-parameter object shared by SSIdat and SSIcov")
    ctx.state("same instance re-run with another ref_ind")
    ctx.nontrivial(("classes", l, tuple(refidx), br))


def run_case(ctx, case):
    if case["cls"] == "plumbing":
        return plumbing.run_case(ctx, case, gen.rng_of(case), PLUMB_FIELDS)
    if case["cls"] == "impulse_basis":
        run_basis(ctx, case)
    elif case["cls"] == "random_definition":
        run_random(ctx, gen.rng_of(case), case["k"])
    else:
        run_classes(ctx, gen.rng_of(case))
