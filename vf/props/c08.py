"""C08 - Identification is covariant under gain, channel order and time unit  [M]."""
from __future__ import annotations

import numpy as np
from scipy.stats import ortho_group

from vf import gen

PID = "C08"
ANCHORS = ["pyoma2.algorithms.fdd:FDD.run", "pyoma2.algorithms.fdd:EFDD.mpe", "pyoma2.algorithms.ssi:SSIdat.run", "pyoma2.algorithms.ssi:SSIdat_MS.run",
           "pyoma2.algorithms.plscf:pLSCF.run", "pyoma2.algorithms.plscf:pLSCF_MS.run", "pyoma2.functions.plscf:ac2mp_poly", "pyoma2.functions.ssi:ac2mp",
           "pyoma2.functions.fdd:SD_est", "pyoma2.functions.plscf:pLSCF"]
SS_ALGS = ["FDD", "EFDD", "FSDD", "SSIcov", "SSIcovR", "SSIdat", "pLSCF", "SSIcovU"]  # SSIcovU: SSIcov with the uncertainty computation and its variance criterion
MS_ALGS = ["FDD_MS", "EFDD_MS", "SSIcov_MS", "SSIdat_MS", "pLSCF_MS"]
TRANSF = ["gain", "gain_pow2", "perm", "mix", "time", "time_pow2"]
REQUIRED_MONITORS = [f"{t}@{a}" for a in SS_ALGS for t in ("gain", "perm", "mix", "time")] + [f"{t}@{a}" for a in MS_ALGS for t in ("gain", "perm", "time")] + ["unit-normalisation", "labels@SC_apply under an exact time unit", "stable-pole labels on bit-identical tables"]
ALL_STATES = ["method_SD=per", "method_SD=cor", "ref_ind subset", "free decay + noise", "white noise", "random response", "default hard criteria", "neutral MPC/MPD"]
REQUIRED_STATES = ["records with static offsets, a spectral algorithm run first on the same setup", "extraction at the automatically selected order", "multi-setup records scaled by a gain below 3e-4", "method_SD=per", "method_SD=cor", "ref_ind subset", "free decay + noise", "white noise", "random response", "base record of integer type", "picks and band limits exactly on spectral lines (time-unit clause)", "integer-typed picks (time-unit clause)"]
RULE = ("two (three) executions of the real algorithm through a setup on related inputs: base, transformed (gain 10^U(-6,6) or 2^k, channel permutation "
        "with ref_ind mapped, orthogonal mixing, time unit k in 10^U(-2,2) or 2^k) and a rounding probe (data * (1 + 1e-15 noise)); whole pole tables "
        "compared column by column as multisets of (f, xi, shape up to conjugation), NaN counts equal, extracted Fn/Xi/Phi and the frequency grid; a "
        "column is judged when the rounding probe moves it by <= 1e-8 (well conditioned), tolerance 1e-6; power-of-two gains and time units are "
        "compared at 1e-9; non-trivial = the compared tables hold >= 4 finite poles; distinct by (algorithm, transformation, parameters, data seed)")
ASSUMPTIONS = ["orthogonal mixing is monitored with mpc_lim=-1, mpd_lim=10 because MPC/MPD are not rotation invariant (DESIGN 3/C08)",
               "step=1 only (the pinned tree cannot run step>1 through the SSI classes)",
               "columns that a 1e-15 relative perturbation of the data moves by more than 1e-8 are ill conditioned and not judged"]


def cases(tier, seed):
    reps = 3 if tier == "quick" else 30
    out = []
    k = 0
    for r in range(reps):
        for a in SS_ALGS:
            for t in TRANSF:
                out.append({"cls": "single", "alg": a, "tr": t, "k": k})
                k += 1
        for a in MS_ALGS:
            for t in ("gain", "gain_pow2", "perm", "time", "time_pow2"):
                out.append({"cls": "multi", "alg": a, "tr": t, "k": k})
                k += 1
    for j in range(20 if tier == "quick" else 300):
        out.append({"cls": "sc_time_unit", "k": 50000 + j})
    return out


# ------------------------------------------------------------------------------------- data
def make_data(rng, nch, N, fs):
    kind = rng.choice(["random response", "free decay + noise", "white noise"], p=[0.6, 0.25, 0.15])
    m = int(rng.integers(2, 5))
    if kind == "random response":
        data, fn, xi, Phi = gen.sim_response(rng, nch, N, fs, m=m, xi_rng=(0.01, 0.03), noise=0.05, fmax=0.4, minsep=0.07)
    elif kind == "free decay + noise":
        fn, xi, Phi, lam = gen.make_system(rng, m, nch, fs, False, (0.003, 0.01), 0.03, 0.4, 0.07)
        Y, _ = gen.free_decay(rng, Phi, lam, fs, N)
        data = (Y + 0.02 * np.std(Y) * rng.standard_normal(Y.shape)).T.copy()
    else:
        data = rng.standard_normal((N, nch))
        fn = np.sort(rng.uniform(0.05, 0.4, m)) * fs
    return str(kind), data, fn


# ------------------------------------------------------------------------------------- running
def alg_spec(rng, alg, nch, neutral_phi):
    hc = dict(conj=True, xi_max=0.1, mpc_lim=0.7, mpd_lim=0.3, cov_max=0.2)
    if neutral_phi:
        hc.update(mpc_lim=-1.0, mpd_lim=10.0)
    method_SD = "per" if rng.random() < 0.55 else "cor"
    spec = {"alg": alg, "method_SD": method_SD}
    base = alg.replace("_MS", "")
    if base == "FDD":
        spec.update(kw=dict(nxseg=int(rng.choice([256, 512])), method_SD=method_SD, pov=float(rng.choice([0.25, 0.5]))), mpe="DF")
    elif base in ("EFDD", "FSDD"):
        spec.update(kw=dict(nxseg=1024, method_SD=method_SD), mpe="DF12")
    elif base == "SSIcovU":
        # the pole variances decide through hc['cov_max'] which poles stay in the table: gain, channel order and mixing leave them as they are,
        # the time unit scales them (and the limit, which is stated in Hz^2) by k^2
        spec.update(kw=dict(br=int(rng.integers(5, 8)), ordmax=int(rng.integers(6, 10)), hc=hc, method="cov_mm", calc_unc=True, nb=int(rng.integers(8, 16))), mpe="order")
    elif base in ("SSIcov", "SSIcovR", "SSIdat"):
        br = int(rng.integers(8, 13))
        spec.update(kw=dict(br=br, ordmax=int(rng.integers(10, 17)), hc=hc, method={"SSIcov": "cov_mm", "SSIcovR": "cov_R", "SSIdat": "dat"}[base]), mpe="order")
    else:
        hp = {k: v for k, v in hc.items() if k != "cov_max"}
        spec.update(kw=dict(ordmax=int(rng.integers(4, 8)), nxseg=int(rng.choice([256, 512])), method_SD=method_SD, hc=hp), mpe="order")
    return spec


def cls_of(alg):
    from pyoma2 import algorithms as A_
    return getattr(A_, {"SSIcovR": "SSIcov", "SSIcovU": "SSIcov"}.get(alg, alg))


def run_single(data, fs, spec, sel, ref_ind=None):
    from pyoma2.setup import SingleSetup

    kw = dict(spec["kw"])
    if ref_ind is not None and "br" in kw:
        kw["ref_ind"] = list(ref_ind)
    a = cls_of(spec["alg"])(name="a", **kw)
    ss = SingleSetup(np.array(data, copy=True), fs)
    if spec.get("pre_spectral"):
        # a spectral analysis of the same setup runs first (what a session usually starts with): it reads the records, nothing more
        from pyoma2.algorithms import FDD
        ss.add_algorithms(FDD(name="pre", nxseg=256), a)
    else:
        ss.add_algorithms(a)
    ss.run_all()
    do_mpe(ss, a, spec, sel, fs)
    return a.result


def run_multi(datasets, ref, fs, spec, sel):
    from pyoma2.setup import MultiSetup_PreGER

    a = cls_of(spec["alg"])(name="a", **spec["kw"])
    ms = MultiSetup_PreGER(fs, [list(r) for r in ref], [np.array(d, copy=True) for d in datasets])
    ms.add_algorithms(a)
    ms.run_all()
    do_mpe(ms, a, spec, sel, fs)
    return a.result


def do_mpe(s, a, spec, sel, fs):
    try:
        if spec["mpe"] == "DF":
            s.mpe("a", sel_freq=list(sel), DF=(spec["DF_lines"] * fs / spec["kw"]["nxseg"] if "DF_lines" in spec else 0.02 * fs))
        elif spec["mpe"] == "DF12":
            # (band half-widths that never put a band limit exactly on a spectral line for whole-number picks: the SDOF-bell band of the
            # library includes / excludes a line by comparison, which is decided by the last bit when a limit coincides with a line)
            s.mpe("a", sel_freq=list(sel), DF1=0.0213 * fs, DF2=0.0617 * fs)
        elif spec.get("find_min"):
            s.mpe("a", sel_freq=list(sel), rtol=0.05)  # the documented default: the lowest order with one stable pole per band
        else:
            o = spec["kw"]["ordmax"] - 1
            s.mpe("a", sel_freq=list(sel), order=int(o), rtol=0.05)
    except (ValueError, IndexError, RuntimeError, TypeError) as e:  # extraction may legitimately fail on white noise (all-NaN column, too few peaks)
        a.result.Fn = None
        a._mpe_error = f"{type(e).__name__}: {e}"


# ------------------------------------------------------------------------------------- comparison
def col_items(r, c):
    F, X, P = np.asarray(r.Fn_poles), np.asarray(r.Xi_poles), np.asarray(r.Phi_poles)
    idx = np.where(np.isfinite(F[:, c]))[0]
    return F[idx, c], X[idx, c], P[idx, c, :]


def col_distance(a, b, fscale, T):
    """a, b: (F, X, P) of one column; returns (count_equal, d_fx, d_shape)."""
    Fa, Xa, Pa = a
    Fb, Xb, Pb = b
    if len(Fa) != len(Fb):
        return False, np.inf, np.inf
    if len(Fa) == 0:
        return True, 0.0, 0.0
    Fa = Fa * fscale
    sc = np.maximum(np.abs(Fa), 1e-300)
    D = np.abs(Fa[:, None] - Fb[None, :]) / sc[:, None] + np.abs(Xa[:, None] - Xb[None, :])
    d = max(D.min(axis=1).max(), D.min(axis=0).max())
    # shapes: best MAC among the candidates equally near in (f, xi) (conjugate pairs share f and xi)
    ds = 0.0
    for i in range(len(Fa)):
        cand = np.where(D[i] <= D[i].min() + 1e-9)[0]
        pa = T(Pa[i])
        best = max(max(gen.mac(pa, Pb[j]), gen.mac(np.conj(pa), Pb[j])) for j in cand)
        ds = max(ds, 1 - best)
    return True, float(d), float(ds)


def compare_tables(ctx, tag, sig, base, other, probe, fscale, T, tol, exact_nan=True):
    """returns number of judged columns"""
    nc = np.shape(base.Fn_poles)[1]
    if not ctx.check(np.shape(other.Fn_poles) == np.shape(base.Fn_poles) and np.shape(other.Phi_poles) == np.shape(base.Phi_poles), f"{sig}:table_shape",
                     lambda: f"{tag}: pole table shapes {np.shape(base.Fn_poles)} vs {np.shape(other.Fn_poles)}"):
        return 0
    judged = 0
    npoles = 0
    for c in range(nc):
        a = col_items(base, c)
        okp, dp, dsp = col_distance(a, col_items(probe, c), 1.0, lambda p: p)
        if not okp or dp > 1e-8 or dsp > 1e-8:
            ctx.not_judged("column moved by the 1e-15 rounding probe (ill conditioned)")
            continue
        ok, d, ds = col_distance(a, col_items(other, c), fscale, T)
        judged += 1
        npoles += len(a[0])
        if not ok:
            ctx.fail(f"{sig}:pole_count", f"{tag}: column {c}: {len(a[0])} retained poles in the base run, {len(col_items(other, c)[0])} after the transformation")
            return judged
        ctx.maxi(f"{tag.split('@')[0]}: worst (f,xi) distance on judged columns", d)
        ctx.maxi(f"{tag.split('@')[0]}: worst 1-MAC on judged columns", ds)
        tol_c = max(tol, 100 * dp, 100 * dsp)  # BLAS results are not bitwise reproducible: never tighter than 100x the rounding probe
        if not (d <= tol_c) or not (ds <= tol_c):
            ctx.fail(f"{sig}:poles_differ", f"{tag}: column {c}: (f, xi) distance {d:.3e}, 1-MAC {ds:.3e} (tolerance {tol_c:.0e}; rounding probe moved this column by {dp:.1e})")
            return judged
        # unit normalisation of every shape of the transformed run
        Pb = col_items(other, c)[2]
        if len(Pb):
            ctx.ev("unit-normalisation", len(Pb))
            nrm = gen.unit_component_error(Pb)
            ctx.check(np.max(nrm) <= 1e-12, f"{sig}:normalisation", lambda: f"{tag}: largest-magnitude component of a mode shape differs from 1 by {np.max(nrm):.3g}")
    if npoles >= 4:
        ctx.nontrivial((tag, judged, npoles))
    # the table of stable poles is part of the identification: where the transformed pole tables are the base tables up to an exact factor on
    # the frequencies (power-of-two time units and gains), every relative criterion sees the same numbers and the labels are the same
    Lb, Lo = getattr(base, "Lab", None), getattr(other, "Lab", None)
    if Lb is not None and Lo is not None:
        Fb, Fo = np.asarray(base.Fn_poles), np.asarray(other.Fn_poles)
        same = (np.array_equal(Fo, Fb * fscale, equal_nan=True) or np.array_equal(Fo * fscale, Fb, equal_nan=True) or np.array_equal(Fo, Fb / fscale, equal_nan=True))
        same = same and np.array_equal(np.asarray(base.Xi_poles), np.asarray(other.Xi_poles), equal_nan=True) and np.array_equal(np.asarray(base.Phi_poles), np.asarray(other.Phi_poles), equal_nan=True)
        if same:
            ctx.ev("stable-pole labels on bit-identical tables")
            ctx.check(np.array_equal(np.asarray(Lb), np.asarray(Lo)), f"{sig}:labels_differ_on_identical_tables",
                      lambda: f"{tag}: the pole tables are identical up to the exact factor {fscale:g} on the frequencies, yet {int((np.asarray(Lb) != np.asarray(Lo)).sum())} stable/unstable labels differ")
    return judged


def compare_mpe(ctx, tag, sig, base, other, probe, fscale, T, tol):
    fb, fo, fp = getattr(base, "Fn", None), getattr(other, "Fn", None), getattr(probe, "Fn", None)
    if fb is None or fo is None or fp is None:
        if (fb is None) != (fo is None) and fp is not None and fb is not None:
            ctx.fail(f"{sig}:mpe_outcome", f"{tag}: extraction succeeded in one run and failed in the other")
        else:
            ctx.not_judged("extraction not available on this data")
        return
    fb, fo, fp = np.ravel(fb), np.ravel(fo), np.ravel(fp)
    for r in (base, other, probe):
        fplot = getattr(r, "forPlot", None)
        if fplot:
            # EFDD/FSDD: the damped-frequency estimate is the mean spacing of the correlation extrema found by value matching; when the
            # SDOF bell holds only a few lines (e.g. white noise) those indices are not even ordered and the estimate is discontinuous
            for pp in fplot:
                idx = np.asarray(pp[6])
                if np.count_nonzero(pp[2]) < 8 or np.any(np.diff(idx) <= 0):
                    ctx.not_judged("EFDD/FSDD fit undefined (SDOF bell of < 8 lines or unordered correlation extrema)")
                    return
    if len(fb) != len(fp) or (len(fb) and np.max(np.abs(fb - fp) / np.abs(fb)) > 1e-8):
        ctx.not_judged("extracted modes moved by the rounding probe")
        return
    dprobe = float(np.max(np.abs(fb - fp) / np.abs(fb))) if len(fb) else 0.0
    if not ctx.check(len(fb) == len(fo), f"{sig}:mpe_count", lambda: f"{tag}: {len(fb)} modes extracted before, {len(fo)} after the transformation"):
        return
    if len(fb) == 0:
        return
    d = np.max(np.abs(fb * fscale - fo) / np.abs(fo))
    xb, xo = getattr(base, "Xi", None), getattr(other, "Xi", None)
    xp = getattr(probe, "Xi", None)
    dx = 0.0
    if xb is not None and xo is not None:
        if np.max(np.abs(np.ravel(xb) - np.ravel(xp))) > 1e-8:
            ctx.not_judged("extracted damping moved by the rounding probe")
            return
        dprobe = max(dprobe, float(np.max(np.abs(np.ravel(xb) - np.ravel(xp)))))
        dx = float(np.max(np.abs(np.ravel(xb) - np.ravel(xo))))
    Pb, Po = np.asarray(base.Phi), np.asarray(other.Phi)
    ds = 0.0
    for k in range(len(fb)):
        pa = T(Pb[:, k])
        ds = max(ds, 1 - max(gen.mac(pa, Po[:, k]), gen.mac(np.conj(pa), Po[:, k])))
        nrm = float(gen.unit_component_error(Po[:, k])[0])
        ctx.ev("unit-normalisation")
        ctx.check(nrm <= 1e-12, f"{sig}:normalisation", lambda: f"{tag}: largest-magnitude component of an extracted shape differs from 1 by {nrm:.3g}")
    ctx.maxi(f"{tag.split('@')[0]}: worst extracted-mode difference", max(d, dx, ds))
    tol = max(tol, 100 * dprobe)
    ctx.check(d <= tol and dx <= tol and ds <= tol, f"{sig}:extracted_modes_differ", lambda: f"{tag}: extracted modes: frequency {d:.3e}, damping {dx:.3e}, 1-MAC {ds:.3e} (tolerance {tol:.0e})")
    if getattr(base, "order_out", None) is not None:
        ctx.check(np.array_equal(np.asarray(base.order_out), np.asarray(other.order_out)), f"{sig}:order_out", f"{tag}: order_out changed")


def compare(ctx, tr, alg, base, other, probe, fscale, T, tol):
    tag = f"{tr.replace('_pow2', '')}@{alg}"
    sig = f"{tr.replace('_pow2', '')}:{alg}"
    ctx.ev(tag)
    if hasattr(base, "freq") and base.freq is not None:
        ok = np.shape(base.freq) == np.shape(other.freq) and np.allclose(np.asarray(base.freq) * fscale, other.freq, rtol=1e-12, atol=0)
        ctx.check(ok, f"{sig}:frequency_grid", lambda: f"{tag}: frequency grid is not scaled by {fscale}")
    if getattr(base, "Fn_poles", None) is not None:
        compare_tables(ctx, tag, sig, base, other, probe, fscale, T, tol)
    compare_mpe(ctx, tag, sig, base, other, probe, fscale, T, tol)
    if getattr(base, "Fn_poles", None) is None and getattr(base, "Fn", None) is not None:
        ctx.nontrivial((tag, len(np.ravel(base.Fn))))


# ------------------------------------------------------------------------------------- cases
def draw_transform(rng, tr, nch, small=False):
    if tr == "gain" and small:
        return dict(g=float(10 ** rng.uniform(-6, -3.5)) * float(rng.choice([-1, 1])))  # records in very small units (m/s^2 expressed in km/s^2, volts in kV)
    if tr == "gain_pow2" and small:
        return dict(g=float(2.0 ** int(rng.integers(-20, -12))) * float(rng.choice([-1, 1])))
    if tr == "gain":
        return dict(g=float(10 ** rng.uniform(-6, 6)) * float(rng.choice([-1, 1])))
    if tr == "gain_pow2":
        return dict(g=float(2.0 ** int(rng.integers(-20, 21))) * float(rng.choice([-1, 1])))
    if tr == "time":
        return dict(k=float(10 ** rng.uniform(-2, 2)))
    if tr == "time_pow2":
        return dict(k=float(2.0 ** int(rng.integers(-6, 7))))
    if tr == "perm":
        p = rng.permutation(nch)
        while nch > 1 and np.array_equal(p, np.arange(nch)):
            p = rng.permutation(nch)
        return dict(perm=[int(x) for x in p])
    return dict(Q=ortho_group.rvs(nch, random_state=int(rng.integers(0, 2**31))) if nch > 1 else np.eye(1))


def run_single_case(ctx, case, rng):
    alg, tr = case["alg"], case["tr"]
    nch = int(rng.integers(2, 9)) if rng.random() < 0.5 else int(rng.integers(3, 6))
    if alg == "SSIcovU":
        nch = int(rng.integers(3, 6))
    fs = float(rng.choice([50.0, 100.0, 200.0]))
    N = int(rng.integers(6000, 10000))
    kind, data, fn = make_data(rng, nch, N, fs)
    spec = alg_spec(rng, alg, nch, neutral_phi=(tr == "mix"))
    ref = None
    if "br" in spec["kw"] and tr != "mix" and nch >= 3 and (rng.random() < 0.5 or (alg == "SSIcovU" and case.get("k", 0) % 2 == 0)):
        nref = int(rng.integers(2, nch))
        ref = [int(x) for x in rng.permutation(nch)[:nref]]
        spec["kw"]["ordmax"] = min(spec["kw"]["ordmax"], (spec["kw"]["br"] + 1) * nref - 2)
    if "br" in spec["kw"]:
        spec["kw"]["ordmax"] = min(spec["kw"]["ordmax"], spec["kw"]["br"] * nch - 1)
    sel = [float(f) for f in fn]
    if alg.startswith("SSI") and tr in ("perm", "gain") and case.get("k", 0) % 3 == 0:
        # records with static offsets (not detrended), analysed after a spectral algorithm of the same setup; the permuted copy data[:, perm]
        # is a column-major array, the base record a row-major one
        data = data + rng.uniform(-4, 4, (1, nch)) * np.std(data)
        spec["pre_spectral"] = True
        ctx.state("records with static offsets, a spectral algorithm run first on the same setup")
    if spec["mpe"] == "order" and alg.startswith("SSI") and case.get("k", 0) % 2 == 1:
        spec["find_min"] = True
        ctx.state("extraction at the automatically selected order")
    if tr.startswith("time") and spec["mpe"] in ("DF", "DF12"):
        u = rng.random()
        if spec["mpe"] == "DF" and case.get("k", 0) % 2 == 0:
            # a "round" spectral grid (fs/nxseg = 0.05, 0.1, 0.2 Hz ...) with picks on the lines and a band of a whole number of lines
            spec["kw"]["nxseg"] = int(rng.choice([500, 1000]))
            df_ = fs / spec["kw"]["nxseg"]
            sel = sorted({float(round(f / df_) * df_) for f in fn})
            spec["DF_lines"] = int(rng.choice([1, 1, 2, 20]))  # e.g. the default DF = 0.1 Hz at fs = 100, nxseg = 1000: one line each side
            ctx.state("picks and band limits exactly on spectral lines (time-unit clause)")
        elif u < 0.6:
            si = sorted({int(round(f)) for f in fn if round(f) >= 1})
            if si:
                sel = si  # whole numbers of integer type in the base run; k*sel (floats) in the transformed run
                ctx.state("integer-typed picks (time-unit clause)")
    t = draw_transform(rng, tr, nch)
    if tr.startswith("gain") and rng.random() < 0.5:
        # the base record stored as raw ADC counts (integer type); the scaled copy is a float array of the same samples times the gain
        # (int32: scipy's spectral estimators work in double precision for it; they deliberately use single precision for int16 input)
        data = np.round(data / np.std(data) * float(rng.choice([1500, 4000]))).astype(np.int32)
        ctx.state("base record of integer type")
    data_stored = data
    data = data.astype(float)  # reference run and rounding probe on the float copy of the same samples
    base = run_single(data, fs, spec, sel, ref)
    probe = run_single(data * (1 + 1e-15 * rng.standard_normal(data.shape)), fs, spec, sel, ref)
    fscale, T, tol = 1.0, (lambda p: p), 1e-6
    if data_stored.dtype.kind in "iu":
        # the same samples in their integer storage type are the gain-1 case
        compare(ctx, tr, alg, base, run_single(data_stored, fs, spec, sel, ref), probe, 1.0, (lambda p: p), 1e-9)
    if tr.startswith("gain"):
        other = run_single(data * t["g"], fs, spec, sel, ref)
        if tr == "gain_pow2":
            tol = 1e-9
    elif tr.startswith("time"):
        k = t["k"]
        spec2 = dict(spec)
        other = run_single_time(data, fs, k, spec, sel, ref)
        fscale = k
        if tr == "time_pow2":
            tol = 1e-9
    elif tr == "perm":
        perm = t["perm"]
        new_ref = None if ref is None else [perm.index(r) for r in ref]
        other = run_single(data[:, perm], fs, spec, sel, new_ref)
        T = lambda p: p[perm]  # noqa: E731
    else:
        Q = t["Q"]
        other = run_single(data @ Q.T, fs, spec, sel, None)
        T = lambda p: Q @ p  # noqa: E731
    compare(ctx, tr, alg, base, other, probe, fscale, T, tol)
    if "DF_lines" in spec and tr.startswith("time"):
        # on such a grid the decision which lines belong to the band is exposed to the last bit of k*fs: a handful of other time units
        for k2 in (0.7, 1.1, 1.7, 0.3, 3.3, 0.013, 7.7, 0.9, 1.3, 2.3, 0.17, 13.0):
            compare(ctx, tr, alg, base, run_single_time(data, fs, k2, spec, sel, ref), probe, k2, (lambda p: p), tol)
    ctx.state(kind)
    if "method_SD" in spec["kw"]:
        ctx.state("method_SD=" + spec["kw"]["method_SD"])
    if ref is not None:
        ctx.state("ref_ind subset")
    ctx.state("neutral MPC/MPD" if tr == "mix" else "default hard criteria")
    ctx.sample({"entry": f"SingleSetup/{alg}", "transformation": tr, "params": {k: (v if not isinstance(v, np.ndarray) else "orthogonal matrix") for k, v in t.items()},
                "data": kind, "channels": nch, "fs": fs, "N": N, "ref_ind": ref, "alg kwargs": {k: v for k, v in spec["kw"].items() if k != "hc"}})


def run_single_time(data, fs, k, spec, sel, ref):
    from pyoma2.setup import SingleSetup

    kw = dict(spec["kw"])
    if ref is not None and "br" in kw:
        kw["ref_ind"] = list(ref)
    if kw.get("calc_unc") and "cov_max" in kw.get("hc", {}):
        # the variance limit is a dimensional part of the request (Hz^2), like the picks and the band widths: stated in the new unit
        kw["hc"] = dict(kw["hc"], cov_max=kw["hc"]["cov_max"] * k * k)
    a = cls_of(spec["alg"])(name="a", **kw)
    ss = SingleSetup(np.array(data, copy=True), fs * k)
    ss.add_algorithms(a)
    ss.run_all()
    do_mpe(ss, a, spec, [f * k for f in sel], fs * k)
    return a.result


def run_multi_case(ctx, case, rng):
    from vf.props import c02

    alg, tr = case["alg"], case["tr"]
    fs = float(rng.choice([50.0, 100.0]))
    nset, nref, nrov, ndof, chan_glob, reflist = c02.layout(rng, nset=int(rng.integers(2, 4)), nref=int(rng.integers(2, 4)), max_rov=3, min_rov=1)
    N = int(rng.integers(5000, 8000))
    kind, data, fn = make_data(rng, ndof, N * nset, fs)
    datasets = [data[i * N:(i + 1) * N][:, cg].copy() for i, cg in enumerate(chan_glob)]
    spec = alg_spec(rng, alg, ndof, neutral_phi=False)
    if "br" in spec["kw"]:
        spec["kw"]["ordmax"] = min(spec["kw"]["ordmax"], (spec["kw"]["br"] + 1) * nref - 2)
    sel = [float(f) for f in fn]
    small = tr.startswith("gain") and case.get("k", 0) % 2 == 0
    if small:
        sd = float(np.std(data))
        datasets = [d / sd for d in datasets]  # unit-variance records; the transformed run has them in units 3e-4 .. 1e-6 times as large
        ctx.state("multi-setup records scaled by a gain below 3e-4")
    elif tr.startswith("gain") and rng.random() < 0.5:
        sd = float(np.std(data))
        datasets = [np.round(d / sd * 4000).astype(np.int32) for d in datasets]  # raw counts
        ctx.state("base record of integer type")
    stored = datasets
    datasets = [d.astype(float) for d in datasets]
    base = run_multi(datasets, reflist, fs, spec, sel)
    probe = run_multi([d * (1 + 1e-15 * rng.standard_normal(d.shape)) for d in datasets], reflist, fs, spec, sel)
    fscale, T, tol = 1.0, (lambda p: p), 1e-6
    if stored[0].dtype.kind in "iu":
        compare(ctx, tr, alg, base, run_multi(stored, reflist, fs, spec, sel), probe, 1.0, (lambda p: p), 1e-9)
    if tr.startswith("gain"):
        t = draw_transform(rng, tr, ndof, small=small)
        other = run_multi([d * t["g"] for d in datasets], reflist, fs, spec, sel)
        if tr == "gain_pow2":
            tol = 1e-9
    elif tr.startswith("time"):
        t = draw_transform(rng, tr, ndof)
        k = t["k"]
        from pyoma2.setup import MultiSetup_PreGER
        a = cls_of(alg)(name="a", **spec["kw"])
        ms = MultiSetup_PreGER(fs * k, [list(r) for r in reflist], [d.copy() for d in datasets])
        ms.add_algorithms(a)
        ms.run_all()
        do_mpe(ms, a, spec, [f * k for f in sel], fs * k)
        other = a.result
        fscale = k
        if tr == "time_pow2":
            tol = 1e-9
    else:
        # permute the channels inside every setup, reference indices mapped; expected row order follows the library's layout rule
        new_cg, new_ref, perms = [], [], []
        for cg, rf in zip(chan_glob, reflist):
            p = [int(x) for x in rng.permutation(len(cg))]
            perms.append(p)
            new_cg.append([cg[i] for i in p])
            new_ref.append([p.index(r) for r in rf])
        other = run_multi([d[:, p] for d, p in zip(datasets, perms)], new_ref, fs, spec, sel)
        rows_b = c02.expected_rows(nref, chan_glob, reflist)
        rows_o = c02.expected_rows(nref, new_cg, new_ref)
        idx = [rows_b.index(g) for g in rows_o]
        T = lambda p: p[idx]  # noqa: E731
        t = dict(perms=perms)
    compare(ctx, tr, alg, base, other, probe, fscale, T, tol)
    ctx.state(kind)
    if "method_SD" in spec["kw"]:
        ctx.state("method_SD=" + spec["kw"]["method_SD"])
    ctx.state("default hard criteria")


def run_sc_time_unit(ctx, case, rng):
    """the soft criteria are relative: expressing the frequencies of a pole table in another time unit (exact factor 2^k) leaves every label
    as it is - also where two poles of the previous order lie close together in frequency with different damping."""
    from pyoma2.functions import gen as G_

    nr, no, nch = int(rng.integers(3, 9)), int(rng.integers(4, 12)), int(rng.integers(2, 6))
    Fn = np.full((nr, no), np.nan)
    Xi = np.full((nr, no), np.nan)
    Phi = np.full((nr, no, nch), np.nan, complex)
    f0 = np.sort(rng.uniform(0.5, 40, nr // 2 + 1))
    P0 = rng.standard_normal((nr, nch)) + 1j * rng.standard_normal((nr, nch))
    for o in range(no):
        for q, f in enumerate(f0):
            if 2 * q + 1 >= nr:
                break
            gap = float(rng.choice([2e-4, 5e-4, 2e-3]))
            # a physical pole (xi ~ 1.5 %) next to a split / spurious one (xi ~ 6 %) almost at the same frequency
            Fn[2 * q, o] = f * (1 + 1e-3 * rng.uniform(-1, 1))
            Xi[2 * q, o] = 0.015 * (1 + 0.01 * rng.uniform(-1, 1))
            Fn[2 * q + 1, o] = Fn[2 * q, o] * (1 + gap * rng.choice([-1, 1]))
            Xi[2 * q + 1, o] = 0.064 * (1 + 0.01 * rng.uniform(-1, 1))
            Phi[2 * q, o] = P0[2 * q] * (1 + 0.01 * rng.standard_normal(nch))
            Phi[2 * q + 1, o] = P0[2 * q + 1] * (1 + 0.01 * rng.standard_normal(nch))
            if rng.random() < 0.2:
                Fn[2 * q + 1, o] = Xi[2 * q + 1, o] = np.nan
                Phi[2 * q + 1, o] = np.nan
    step = int(rng.choice([1, 2]))
    tol = (float(rng.choice([0.002, 0.01, 0.05])), float(rng.choice([0.02, 0.05, 0.3])), float(rng.choice([0.02, 0.05])))
    L0 = np.asarray(G_.SC_apply(Fn.copy(), Xi.copy(), Phi.copy(), 0, (no - 1) * step, step, *tol))
    for e in (-7, -3, 4, 9):
        Lk = np.asarray(G_.SC_apply(Fn * 2.0**e, Xi.copy(), Phi.copy(), 0, (no - 1) * step, step, *tol))
        ctx.ev("labels@SC_apply under an exact time unit")
        if not ctx.check(np.array_equal(L0, Lk), "sc:labels_depend_on_time_unit",
                         lambda: f"SC_apply: {int((L0 != Lk).sum())} of {L0.size} labels change when the frequencies of the table are multiplied by 2^{e} (damping, shapes and tolerances unchanged)"):
            break
    if (L0 == 1).any() and (L0 == 0).any():
        ctx.nontrivial(("sc_time_unit", nr, no, int(L0.sum())))
    ctx.sample({"entry": "gen.SC_apply under frequency scaling", "table": [nr, no], "tolerances": list(tol), "stable": int(L0.sum())})


def run_case(ctx, case):
    rng = gen.rng_of(case)
    if case["cls"] == "sc_time_unit":
        return run_sc_time_unit(ctx, case, rng)
    (run_single_case if case["cls"] == "single" else run_multi_case)(ctx, case, rng)
