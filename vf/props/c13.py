"""C13 - Spectral matrix estimation: grid, pairing, scaling and phase convention  [P + M]."""
from __future__ import annotations

import numpy as np

from vf import gen, plumbing

PID = "C13"
ANCHORS = ["pyoma2.functions.fdd:SD_est"]
REQUIRED_MONITORS = ["peak location@cor", "returned arrays are the caller's", "grid+shape", "welch-equivalence(per)", "hermitian-psd(per)", "bilinear+g2(per)", "bilinear+g2(cor)", "parseval(per)",
                     "gain-delay(per)", "gain-delay(cor)", "sinusoid-ratio(per)"]
ALL_STATES = ["pov=0", "pov=0.25", "pov=0.5", "pov=0.75", "ref=all", "ref=subset", "nxseg not a power of two", "nxseg with a prime factor > 5", "negative gain", "1 channel"]
REQUIRED_STATES = ["correlogram of an odd segment length: peak location", "pov=0", "pov=0.25", "pov=0.75", "ref=subset", "negative gain", "nxseg with a prime factor > 5", "odd nxseg", "arguments given by position", "record amplitude below 1e-5", "integer-stored records"]
RULE = ("random records (1..8 channels, 1..4 references, 2..10 segments), nxseg in {16..4096} incl. non powers of two, integer nxseg*pov, fs "
        "log-uniform; 'per' compared entry by entry with an independently written Welch estimate (lines >= 2); bilinearity/g^2, Hermitian PSD, "
        "Parseval; multi-channel gain-and-delay records (each entry (i,j) must show gain g_j/g_i and phase -2 pi f (d_j-d_i)/fs); sinusoids at "
        "grid lines; non-trivial = the case has >= 2 distinct channels or delays so that pairing/conjugation matter; distinct by parameters")
ASSUMPTIONS = ["independent Welch: Hann (periodic), per-segment mean removal, one-sided density, conj(X_i) X_j, written with numpy.fft only",
               "delay tolerances are the ones the property states (5 % every line for 'per', 30 % median for 'cor')"]


PLUMB_CLASSES = ['FDD', 'EFDD', 'pLSCF']
PLUMB_FIELDS = ['freq', 'Sy']
REQUIRED_MONITORS = list(REQUIRED_MONITORS) + ["class-settings@run"] + [f"plumbing:{s_}" for s_ in plumbing.SCENARIOS]
REQUIRED_STATES = list(REQUIRED_STATES) + ["class run with some settings left at their defaults", "class run with all settings given"] + [f"plumbing scenario {s_}" for s_ in plumbing.SCENARIOS]


def cases(tier, seed):
    return _cases(tier, seed) + plumbing.cases(len(plumbing.SCENARIOS) * len(PLUMB_CLASSES) * (1 if tier == "quick" else 6), PLUMB_CLASSES)


def _cases(tier, seed):
    n1, n2, n3, n4 = (120, 6, 24, 40) if tier == "quick" else (2500, 60, 400, 600)
    return ([{"cls": "welch", "k": k} for k in range(n1)] + [{"cls": "parseval", "k": k} for k in range(n2)]
            + [{"cls": "delay", "k": k} for k in range(n3)] + [{"cls": "sinus", "k": k} for k in range(n4)]
            + [{"cls": "class_settings", "k": k} for k in range(12 if tier == "quick" else 120)]
            + [{"cls": "cor_peak", "k": k} for k in range(16 if tier == "quick" else 200)])


def run_class_settings(ctx, case, rng):
    from pyoma2.algorithms import EFDD, FDD, FSDD, pLSCF
    from pyoma2.functions import fdd
    from pyoma2.setup import SingleSetup

    nch = int(rng.integers(2, 5))
    fs = float(rng.choice([50.0, 100.0, 128.0]))
    data, *_ = gen.sim_response(rng, nch, 5000, fs, m=2)
    cls = [FDD, EFDD, FSDD, pLSCF][case["k"] % 4]
    # which of the settings the user spells out: none / some / all (the others keep the documented defaults of the class)
    full = dict(nxseg=int(rng.choice([128, 256, 512])), method_SD=str(rng.choice(["per", "cor"])), pov=float(rng.choice([0.0, 0.25, 0.5])))
    given = {k: v for k, v in full.items() if rng.random() < (0.0, 0.5, 1.0)[case["k"] % 3]}
    kw = dict(given, **({"ordmax": 4} if cls is pLSCF else {}))
    a = cls(name="a", **kw) if kw else cls(name="a", nxseg=1024)
    ss = SingleSetup(data, fs)
    ss.add_algorithms(a)
    ss.run_all()
    rp = a.run_params
    ctx.ev("class-settings@run")
    for k, v in given.items():
        ctx.check(getattr(rp, k) == v, f"class:setting_not_recorded:{k}", lambda: f"{cls.__name__}({k}={v!r}): run_params.{k} = {getattr(rp, k)!r}")
    f, S = fdd.SD_est(data.T, data.T, 1 / fs, rp.nxseg, method=rp.method_SD, pov=rp.pov)
    r = a.result
    ok = np.shape(r.Sy) == np.shape(S) and np.allclose(r.Sy, S, rtol=1e-9, atol=1e-12 * np.max(np.abs(S))) and np.allclose(r.freq, f, rtol=1e-12, atol=0)
    ctx.check(ok, "class:stored_spectrum_not_the_estimate_for_the_recorded_settings",
              lambda: f"{cls.__name__} (settings given: {sorted(given)}): result.Sy / result.freq are not SD_est(data, data, dt, nxseg={rp.nxseg}, method={rp.method_SD!r}, pov={rp.pov})")
    ctx.state("class run with some settings left at their defaults" if len(given) < 3 else "class run with all settings given")
    ctx.nontrivial(("class_settings", cls.__name__, tuple(sorted(given.items()))))


def welch_ref(x, y, fs, nx, nov):
    n = np.arange(nx)
    w = 0.5 - 0.5 * np.cos(2 * np.pi * n / nx)  # periodic Hann
    step = nx - nov
    starts = range(0, len(x) - nx + 1, step)
    acc = 0
    for s in starts:
        xs = x[s:s + nx]
        ys = y[s:s + nx]
        xs = (xs - xs.mean()) * w
        ys = (ys - ys.mean()) * w
        acc = acc + np.conj(np.fft.rfft(xs)) * np.fft.rfft(ys)
    P = acc / len(starts) / (fs * (w**2).sum())
    if nx % 2 == 0:
        P[1:-1] *= 2
    else:
        P[1:] *= 2
    return P


def pick_nx_pov(rng, tier):
    nxs = [16, 20, 28, 32, 40, 48, 50, 56, 64, 88, 90, 100, 112, 128, 154, 170, 180, 200, 256, 340, 360, 500, 512, 700, 1000, 1022, 1024] + ([2048, 4094, 4096] if tier == "thorough" else [])
    if rng.random() < 0.15:
        nxs = [17, 25, 45, 125, 243, 625] + ([4095] if tier == "thorough" else [])  # odd segment lengths: the last line is below Nyquist
    nx = int(rng.choice(nxs))
    povs = [p for p in (0.0, 0.2, 0.25, 0.5, 0.75) if float(nx * p).is_integer() and (p != 0.2 or nx % 2)]
    more = [p for p in (0.1, 0.3, 0.35, 0.4, 0.6, 0.7, 0.8, 0.9, 0.875, 0.29, 0.57, 0.58, 0.15, 0.45, 0.55, 0.65, 0.85) if abs(nx * p - round(nx * p)) < 1e-9]  # e.g. nxseg = 100, 200, 1000 with 0.8 / 0.9
    if more and rng.random() < 0.5:
        povs = more
    return nx, float(rng.choice(povs))


def run_welch(ctx, rng):
    from pyoma2.functions import fdd

    nx, pov = pick_nx_pov(rng, ctx.tier)
    nch = int(rng.integers(1, 9))
    nref = int(rng.integers(1, min(4, nch) + 1))
    fs = float(10 ** rng.uniform(-1, 3.5))
    N = int(nx * rng.uniform(2, 10))
    Y = gen.coloured(rng, nch, N) * 10 ** (rng.uniform(-3, 3) if rng.random() < 0.7 else rng.uniform(-10, -3))
    if np.std(Y) < 1e-5:
        ctx.state("record amplitude below 1e-5")
    if rng.random() < 0.12:
        Y = np.round(gen.coloured(rng, nch, N) * float(rng.choice([3, 40, 5000]))).astype(rng.choice([np.int32, np.int64]))  # raw counts
        ctx.state("integer-stored records")
    refidx = [int(i) for i in rng.permutation(nch)[:nref]]
    allref = rng.random() < 0.3
    Yr = Y if allref else Y[refidx]
    if allref:
        refidx = list(range(nch))
    for method in ("per", "cor"):
        if rng.random() < 0.5:
            f, S = fdd.SD_est(Y.copy(), Yr.copy(), 1 / fs, nx, method, pov)  # all arguments by position, in the documented order
            ctx.state("arguments given by position")
        else:
            f, S = fdd.SD_est(Y.copy(), Yr.copy(), 1 / fs, nx, method=method, pov=pov)
        ctx.ev("grid+shape")
        nf = nx // 2 + 1
        ok = ctx.check(np.shape(S) == (nch, len(refidx), nf) and np.shape(f) == (nf,), f"{method}:shape",
                       lambda: f"{method}: Sy shape {np.shape(S)}, freq {np.shape(f)}; expected ({nch},{len(refidx)},{nf})")
        if not ok:
            continue
        ctx.check(np.allclose(f, np.arange(nf) * fs / nx, rtol=1e-12, atol=0), f"{method}:grid",
                  lambda: f"{method}: frequency grid is not k*fs/nxseg (fs={fs:.6g}, nxseg={nx}): f[1]={f[1]!r}, f[-1]={f[-1]!r}")
        # what a caller does with the arrays he got (the axis converted to rad/s, the matrix scaled - in place) is his own business: the next
        # estimate with the same settings is again the estimate of its data on the grid k*fs/nxseg
        f_keep, S_keep = np.array(f, copy=True), np.array(S, copy=True)
        f *= 2 * np.pi
        S *= 0.5
        f_n, S_n = fdd.SD_est(Y.copy(), Yr.copy(), 1 / fs, nx, method=method, pov=pov)
        ctx.ev("returned arrays are the caller's")
        ctx.check(np.array_equal(f_n, f_keep) and np.array_equal(S_n, S_keep), f"{method}:later_estimate_follows_in_place_change_of_an_earlier_result",
                  lambda: f"{method}: after the caller changed the returned freq / Sy in place, an identical second call returns f[1]={np.ravel(f_n)[1]!r} (grid line {f_keep[1]!r})")
        f, S = f_keep, S_keep
        # bilinearity and g^2
        ctx.ev(f"bilinear+g2({method})")
        a, b = rng.uniform(-3, 3, 2)
        Y2 = gen.coloured(rng, nch, N)
        Yr2 = Y2 if allref else Y2[refidx]
        _, S_a = fdd.SD_est(a * Y + b * Y2, Yr, 1 / fs, nx, method=method, pov=pov)
        _, S_1 = fdd.SD_est(Y2, Yr, 1 / fs, nx, method=method, pov=pov)
        sc = np.max(np.abs(S)) + np.max(np.abs(S_1)) * abs(b)
        ctx.check(np.max(np.abs(S_a - (a * S + b * S_1))) <= 1e-9 * sc * (1 + abs(a)), f"{method}:not_linear_in_data",
                  lambda: f"{method}: SD_est(a*Y+b*Y2, Yref) != a*SD_est(Y,Yref)+b*SD_est(Y2,Yref)")
        _, S_b = fdd.SD_est(Y, a * Yr + b * Yr2, 1 / fs, nx, method=method, pov=pov)
        _, S_2 = fdd.SD_est(Y, Yr2, 1 / fs, nx, method=method, pov=pov)
        sc = np.max(np.abs(S)) + np.max(np.abs(S_2)) * abs(b)
        ctx.check(np.max(np.abs(S_b - (a * S + b * S_2))) <= 1e-9 * sc * (1 + abs(a)), f"{method}:not_linear_in_reference",
                  lambda: f"{method}: SD_est(Y, a*Yref+b*Yref2) != a*SD_est(Y,Yref)+b*SD_est(Y,Yref2)")
        g = float(10 ** rng.uniform(-3, 3)) * rng.choice([-1, 1])
        _, S_g = fdd.SD_est(g * Y, g * Yr, 1 / fs, nx, method=method, pov=pov)
        ctx.check(np.max(np.abs(S_g - g * g * S)) <= 1e-9 * g * g * np.max(np.abs(S)), f"{method}:gain_square",
                  lambda: f"{method}: common gain {g:.3g} does not scale the matrix by g^2")
        if method == "per":
            ctx.ev("welch-equivalence(per)")
            worst = 0.0
            wij = None
            for i in range(nch):
                for jj, j in enumerate(refidx):
                    P = welch_ref(Y[i], Y[j], fs, nx, int(round(nx * pov)))
                    e = np.max(np.abs(S[i, jj, 2:] - P[2:])) / np.max(np.abs(P))
                    if np.isnan(e):
                        e = np.inf  # a NaN entry is the worst possible deviation
                    if e > worst or wij is None:
                        worst, wij = e, (i, j)
            ctx.maxi("welch-equivalence(per): worst relative difference", worst)
            if not (worst <= 1e-9):
                # mechanism hints
                i, j = wij
                jj = refidx.index(j)
                hints = []
                for nm, P in (("overlap ignored (pov=0.5 used)", welch_ref(Y[i], Y[j], fs, nx, nx // 2)),
                              ("no overlap used", welch_ref(Y[i], Y[j], fs, nx, 0)),
                              ("conjugate / transposed pairing", np.conj(welch_ref(Y[i], Y[j], fs, nx, int(round(nx * pov)))))):
                    if np.max(np.abs(S[i, jj, 2:] - P[2:])) / np.max(np.abs(P)) < 1e-9:
                        hints.append(nm)
                ctx.fail("per:not_welch" + (":" + hints[0].split(" ")[0] if hints else ""),
                         f"'per' entry ({i},{j}) differs from Welch(Hann, constant detrend, noverlap={int(round(nx*pov))}, one-sided, conj(X_i)X_j) by {worst:.2e} "
                         f"(nxseg={nx}, pov={pov}, N={N}); matches instead: {hints}")
            if allref:
                ctx.ev("hermitian-psd(per)")
                herm = max(np.max(np.abs(S[:, :, k] - S[:, :, k].conj().T)) for k in range(nf)) / np.max(np.abs(S))
                mineig = min(np.linalg.eigvalsh((S[:, :, k] + S[:, :, k].conj().T) / 2).min() for k in range(nf)) / np.max(np.abs(S))
                ctx.check(herm <= 1e-12 and mineig >= -1e-12, "per:not_hermitian_psd", lambda: f"'per' with Yref=Yall: Hermitian defect {herm:.2e}, min eigenvalue {mineig:.2e} (relative)")
    ctx.state(f"pov={pov:g}")
    ctx.state("ref=all" if allref else "ref=subset")
    if nx % 2:
        ctx.state("odd nxseg")
    if nx & (nx - 1):
        ctx.state("nxseg not a power of two")
    r_ = nx
    for q_ in (2, 3, 5):
        while r_ % q_ == 0:
            r_ //= q_
    if r_ > 1:
        ctx.state("nxseg with a prime factor > 5")
    if nch == 1:
        ctx.state("1 channel")
    if nch >= 2:
        ctx.nontrivial(("welch", nx, pov, nch, len(refidx), allref))
    ctx.sample({"entry": "fdd.SD_est per+cor", "nxseg": nx, "pov": pov, "channels": nch, "ref": refidx, "fs": fs, "N": N})


def run_parseval(ctx, rng):
    from pyoma2.functions import fdd

    nx = int(rng.choice([256, 512, 1024]))
    fs = float(10 ** rng.uniform(0, 3))
    N = nx * 400
    Y = gen.coloured(rng, 2, N)
    Y = Y - Y.mean(axis=1, keepdims=True)
    pov = float(rng.choice([0.0, 0.5, 0.75]))
    f, S = fdd.SD_est(Y, Y, 1 / fs, nx, method="per", pov=pov)
    ctx.ev("parseval(per)")
    for i in range(2):
        integ = float(np.sum(S[i, i].real) * (f[1] - f[0]))
        ms = float(np.mean(Y[i] ** 2))
        ctx.maxi("parseval(per): |integral/mean-square - 1|", abs(integ / ms - 1))
        ctx.check(abs(integ / ms - 1) <= 0.05, "per:parseval", lambda: f"sum S_ii df = {integ:.6g} but mean square = {ms:.6g} (nxseg={nx}, fs={fs:.4g}, pov={pov})")
    ctx.nontrivial(("parseval", nx, pov, round(fs, 2)))


def run_delay(ctx, rng):
    from pyoma2.functions import fdd

    nx = int(rng.choice([256, 512, 1024, 2048, 375, 1125]))
    fs = float(10 ** rng.uniform(0, 3))
    nch = int(rng.integers(2, 5))
    dmax = nx // 64
    N = nx * 400
    d = rng.integers(0, dmax + 1, nch)
    d[int(rng.integers(0, nch))] = 0
    if np.all(d == d[0]):
        d[0] = dmax - d[0] if dmax - d[0] != d[0] else 1
    g = 10 ** rng.uniform(-1, 1, nch) * rng.choice([-1, 1], nch)
    x = rng.standard_normal(N + dmax)
    Y = np.vstack([g[c] * x[dmax - d[c]: dmax - d[c] + N] for c in range(nch)])  # y_c(t) = g_c x(t - d_c)
    nref = int(rng.integers(1, nch + 1))
    refidx = [int(i) for i in rng.permutation(nch)[:nref]]
    for method in ("per", "cor"):
        f, S = fdd.SD_est(Y, Y[refidx], 1 / fs, nx, method=method)
        ctx.ev(f"gain-delay({method})")
        if np.shape(S) != (nch, nref, nx // 2 + 1):
            ctx.fail(f"{method}:shape", f"shape {np.shape(S)}")
            continue
        for i in range(nch):
            # auto spectrum of channel i from a call with Yref=Yall is not available here: use the pair (i, j) against (i', j) instead
            for jj, j in enumerate(refidx):
                if j == i:
                    continue
                # S[i,jj] = conj(X_i) X_j.  Literal form of the statement when channel i is itself a reference: S[i,j]/S[i,i];
                # otherwise the auto spectrum of the reference channel j (row j of the same column) is used.
                if i in refidx:
                    ratio = S[i, jj] / S[i, refidx.index(i)]
                    expct = (g[j] / g[i]) * np.exp(-2j * np.pi * f * (d[j] - d[i]) / fs)
                else:
                    ratio = S[i, jj] / S[j, jj]
                    expct = (g[i] / g[j]) * np.exp(-2j * np.pi * f * (d[j] - d[i]) / fs)
                if method == "cor" and d[j] - d[i] < 0:
                    # the correlogram estimator keeps non-negative lags only (half spectrum): the statement is about
                    # S[original, delayed copy]; the reversed entry carries (almost) nothing and is not judged
                    ctx.not_judged("'cor' entry (delayed, original): negative lag outside the half spectrum")
                    continue
                err = np.abs(ratio - expct) / np.abs(expct)
                erro = np.abs(np.conj(ratio) - expct) / np.abs(expct)
                inner = slice(1, -1)
                if method == "per":
                    ctx.maxi("gain-delay(per): worst line error", float(err[inner].max()))
                    ctx.check(err[inner].max() <= 0.05, "per:delay_phase_or_gain",
                              lambda: f"'per' entry ({i},{j}): cross/auto ratio differs from gain {g[i]/g[j]:.3g} and delay {d[i]-d[j]} samples by up to {err[inner].max():.2f} (opposite conjugation would give {np.median(erro):.2f} median)")
                else:
                    ctx.maxi("gain-delay(cor): median line error", float(np.median(err)))
                    ctx.check(np.median(err) <= 0.30, "cor:delay_phase_or_gain",
                              lambda: f"'cor' entry ({i},{j}): median error {np.median(err):.2f} against gain {g[j]/g[i]:.3g}, delay {d[j]-d[i]} (opposite conjugation: {np.median(erro):.2f})")
    if np.any(g < 0):
        ctx.state("negative gain")
    ctx.state("ref=subset" if nref < nch else "ref=all")
    ctx.nontrivial(("delay", nx, nch, tuple(int(v) for v in d), tuple(refidx)))
    ctx.sample({"entry": "fdd.SD_est gain-and-delay", "nxseg": nx, "fs": fs, "delays": d.tolist(), "gains": np.round(g, 3).tolist(), "ref": refidx})


def run_sinus(ctx, rng):
    from pyoma2.functions import fdd

    nx = int(rng.choice([56, 64, 112, 128, 256, 512, 75, 125]))
    fs = float(10 ** rng.uniform(0, 3))
    k = int(rng.integers(2, nx // 2 - 1))
    nch = int(rng.integers(2, 6))
    N = nx * int(rng.integers(4, 12))
    t = np.arange(N) / fs
    a = 10 ** rng.uniform(-1.5, 1.5, nch) * np.exp(1j * rng.uniform(0, 2 * np.pi, nch))
    Y = np.real(a[:, None] * np.exp(2j * np.pi * (k * fs / nx) * t)[None, :])
    pov = float(rng.choice([0.0, 0.5, 0.75]))
    f, S = fdd.SD_est(Y, Y, 1 / fs, nx, method="per", pov=pov)
    ctx.ev("sinusoid-ratio(per)")
    kk = int(np.argmax(np.abs(S[0, 0])))
    ctx.check(kk == k and abs(f[kk] - k * fs / nx) <= 1e-9 * fs, "per:sinusoid_line_frequency",
              lambda: f"a sinusoid at {k}*fs/nxseg = {k*fs/nx:.6g} Hz (nxseg={nx}) peaks at line {kk} labelled {f[kk]:.6g} Hz")
    r = S[0, :, k] / S[0, 0, k]
    err = np.max(np.abs(r - a / a[0]) / np.abs(a / a[0]))
    ctx.maxi("sinusoid-ratio(per): worst error", float(err))
    ctx.check(err <= 1e-9, "per:sinusoid_amplitude_ratio",
              lambda: f"S[0,:,k]/S[0,0,k] differs from the complex amplitude ratios by {err:.2e} (conjugate would differ by {np.max(np.abs(np.conj(r)-a/a[0])/np.abs(a/a[0])):.2e})")
    ctx.nontrivial(("sinus", nx, k, nch, pov))


def run_cor_peak(ctx, case, rng):
    """'one frequency line every fs/nxseg' also for the correlogram estimator: the spectral peak of a stationary sinusoid at f0 (anywhere
    between two lines, up to 0.45 fs) sits at f0 on the returned axis - centre of the peak from a three-point fit of log|S|, within 0.25 of a
    line spacing (calibrated: 0.1 for segment lengths >= 100, even and odd)."""
    from pyoma2.functions import fdd

    nx = int([125, 243, 625, 128, 101, 999, 256, 375][case["k"] % 8])
    fs = float(10 ** rng.uniform(0, 3))
    N = int(nx * rng.uniform(20, 60))
    k0 = float(rng.uniform(0.3, 0.45) * nx) if case["k"] % 2 == 0 else float(rng.uniform(0.1, 0.45) * nx)
    f0 = k0 * fs / nx
    t = np.arange(N) / fs
    y = np.vstack([np.sin(2 * np.pi * f0 * t + 1.0), 0.5 * np.sin(2 * np.pi * f0 * t + 0.3)]) + 1e-3 * rng.standard_normal((2, N))
    f, S = fdd.SD_est(y, y, 1 / fs, nx, method="cor")
    ctx.ev("peak location@cor")
    a = np.abs(S[0, 0, :])
    i = int(np.argmax(a[1:-1])) + 1
    lg = np.log(a[i - 1:i + 2])
    den = lg[0] - 2 * lg[1] + lg[2]
    centre = (i + (0.5 * (lg[0] - lg[2]) / den if den != 0 else 0.0)) * (f[1] - f[0])
    err = abs(centre - f0) / (fs / nx)
    ctx.maxi("peak location@cor: worst offset in line spacings", float(err))
    ctx.check(err <= 0.25, "cor:peak_not_at_the_sinusoid_frequency",
              lambda: f"'cor', nxseg={nx} ({'odd' if nx % 2 else 'even'}): a sinusoid at {f0:.6g} Hz (line {k0:.2f}) peaks at {centre:.6g} Hz on the returned axis, {err:.2f} line spacings off")
    if nx % 2:
        ctx.state("correlogram of an odd segment length: peak location")
    ctx.nontrivial(("cor_peak", nx, round(k0, 2)))


def run_case(ctx, case):
    if case["cls"] == "cor_peak":
        return run_cor_peak(ctx, case, gen.rng_of(case))
    if case["cls"] == "plumbing":
        return plumbing.run_case(ctx, case, gen.rng_of(case), PLUMB_FIELDS)
    if case["cls"] == "class_settings":
        return run_class_settings(ctx, case, gen.rng_of(case))
    rng = gen.rng_of(case)
    {"welch": run_welch, "parseval": run_parseval, "delay": run_delay, "sinus": run_sinus}[case["cls"]](ctx, rng)
