"""C19 - Geometry tables are validated, aligned to sensor order and mapped faithfully  [P + T + A]."""
from __future__ import annotations

import copy

import numpy as np
import pandas as pd

from vf import gen, probes

PID = "C19"
ANCHORS = ["pyoma2.functions.gen:check_on_geo1", "pyoma2.functions.gen:check_on_geo2", "pyoma2.functions.gen:flatten_sns_names", "pyoma2.functions.gen:dfphi_map_func",
           "pyoma2.support.geometry.mixin:GeometryMixin.def_geo1", "pyoma2.support.geometry.mixin:GeometryMixin.def_geo2", "pyoma2.support.geometry.mixin:GeometryMixin._def_geo_by_file",
           "pyoma2.support.geometry.mpl_plotter:Geo1MplPlotter.plot_mode", "pyoma2.support.geometry.mpl_plotter:Geo2MplPlotter.plot_mode"]
REQUIRED_MONITORS = ["arguments unchanged + second definition", "alignment@def_geo1_by_file", "alignment@def_geo2_by_file", "alignment@def_geo1(arguments)", "alignment@def_geo2(arguments)", "corruption->ValueError@geo1",
                     "corruption->ValueError@geo2", "mapping@dfphi_map_func", "artists@plot_mode_geo1", "artists@plot_mode_geo2_mpl", "names@flatten_sns_names"]
CORR1 = ["missing sensors names", "missing sensors coordinates", "missing sensors directions", "unknown sheet", "coordinates 2 columns", "directions 2 columns", "directions fewer rows",
         "directions other index", "BG nodes 2 columns", "BG lines 3 columns", "BG surfaces 2 columns", "name not in coordinates", "sensors lines 3 columns"]
CORR2 = ["missing sensors names", "missing points coordinates", "missing mapping", "unknown sheet", "points 2 columns", "mapping fewer rows", "sign fewer rows", "name not in mapping",
         "constraint column unknown sensor", "constraint never used", "BG nodes 2 columns", "BG lines 3 columns", "BG surfaces 2 columns", "sensors lines 3 columns",
         "sensors surfaces 2 columns", "mapping other index"]
ALL_STATES = ["geo1:" + c for c in CORR1] + ["geo2:" + c for c in CORR2] + ["table rows permuted against name order", "multi-setup names (table)", "multi-setup names (list of lists)",
                                                                                 "single names (row table)", "single names (list)", "single names (array)", "optional sheets all omitted",
                                                                                 "optional sheets all present", "constraints used", "constraints sheet omitted"]
ALL_STATES += ["mapping table with a purely numeric x or y column", "surface patches read back", "malformed tables given as arguments", "removed name is a substring of another cell", "sign table with row labels other than the points' labels"]
REQUIRED_STATES = list(ALL_STATES) + ["constraint row with coefficients summing to almost one", "exactly three sensors (square coordinate / direction tables)", "unknown sheet is a documented sheet name typed with other capitals / a stray blank", "sensors not aligned with a global axis (non-integer direction cosines)"]
RULE = ("sensor sets of 1..12 names; coordinate/direction tables with rows permuted against the name order; mapping tables whose cells are sensor names, constraint "
        "names or 0/NaN; constraint matrices; sign tables in {-1,0,1}; one-based line/surface tables; optional sheets present/absent in every combination; "
        "single-setup name forms (row table, list, array) and multi-setup forms (padded table, list of lists) on real SingleSetup / MultiSetup_PreGER "
        "objects; entry points def_geoN_by_file (reader replaced by the tables pandas would return), def_geoN with the documented argument types, "
        "check_on_geoN; every single-fault corruption listed in abstract_states must raise ValueError; prime-valued mode shapes identify every mapped "
        "cell; artist coordinates read back from Agg figures; non-trivial = table order differs from name order or a corruption; distinct by case")
ASSUMPTIONS = ["column-count validation of 'sensors lines' / 'sensors surfaces' is not claimed (the statement does not single out these tables)",
               "a mapping cell naming neither a sensor nor a declared constraint is outside the listed malformations"]

PRIMES = [2, 3, 5, 7, 11, 13, 17, 19, 23, 29, 31, 37, 41, 43, 47, 53, 59, 61, 67, 71]


def cases(tier, seed):
    n = 150 if tier == "quick" else 3000
    out = []
    for k in range(n):
        out.append({"cls": ["geo1", "geo2", "geo1_args", "geo2_args"][k % 4], "k": k})
    out += [{"cls": "corrupt1", "k": k} for k in range(len(CORR1) * (4 if tier == "quick" else 20))]
    out += [{"cls": "corrupt2", "k": k} for k in range(len(CORR2) * (4 if tier == "quick" else 20))]
    out += [{"cls": "artists", "k": k} for k in range(24 if tier == "quick" else 300)]
    return out


# ------------------------------------------------------------------------------------------- generators
def make_setup(rng, multi, numbered=False):
    """returns (setup object, names argument forms, flat expected names)"""
    from pyoma2.setup import MultiSetup_PreGER, SingleSetup
    if not multi:
        n = int(rng.integers(10, 13)) if numbered else int(rng.integers(1, 13))
        if getattr(make_setup, "three", False) and not numbered:
            n = 3
        names = [f"s{int(i)}" for i in rng.permutation(40)[:n]]
        if numbered or rng.random() < 0.35:
            # the usual numbered channel names: one name is a substring of another (ch1 / ch10, r1 / r11, REF1 / REF10)
            stem = str(rng.choice(["ch", "r", "REF", "acc_"]))
            names = [f"{stem}{int(i) + 1}" for i in rng.permutation(max(n, 10) + 2)[:n]]
            if numbered:
                rest = [x for x in names if x not in (f"{stem}1", f"{stem}10")][: n - 2]
                names = [str(x) for x in rng.permutation(rest + [f"{stem}1", f"{stem}10"])]
        ss = SingleSetup(rng.standard_normal((30, n)), 10.0)
        forms = {"single names (row table)": pd.DataFrame([names], index=pd.Index([1], name="setup No."), columns=[f"chann. {i+1}" for i in range(n)]),
                 "single names (list)": list(names), "single names (array)": np.array(names)}
        return ss, forms, list(names)
    nset = int(rng.integers(2, 4))
    nref = int(rng.integers(1, 3))
    chans, refs, rows = [], [], []
    cnt = 0
    for i in range(nset):
        nrov = int(rng.integers(1, 4))
        nch = nref + nrov
        pos = [int(x) for x in rng.permutation(nch)]
        refpos = pos[:nref]
        nm = [None] * nch
        for j, p in enumerate(refpos):
            nm[p] = f"r{j}_{i}"
        for p in sorted(pos[nref:]):
            nm[p] = f"m{cnt}"
            cnt += 1
        chans.append(nm)
        refs.append(refpos)
    flat = [f"REF{j+1}" for j in range(nref)] + [nm[p] for nm, rf in zip(chans, refs) for p in range(len(nm)) if p not in rf]
    width = max(len(c) for c in chans)
    table = pd.DataFrame([c + [np.nan] * (width - len(c)) for c in chans], index=pd.Index(range(1, nset + 1), name="setup No."), columns=[f"chann. {i+1}" for i in range(width)])
    ms = MultiSetup_PreGER(10.0, [list(r) for r in refs], [rng.standard_normal((30, len(c))) for c in chans])
    forms = {"multi-setup names (table)": table, "multi-setup names (list of lists)": [list(c) for c in chans]}
    return ms, forms, flat


def tables1(rng, flat, optional):
    n = len(flat)
    order = [int(i) for i in rng.permutation(n)]
    extra = [f"x{k}" for k in range(int(rng.integers(0, 3)))]
    if getattr(make_setup, "three", False):
        extra = []  # exactly three sensors, three table rows: the (3, 3) tables say nothing about their orientation by their shape
    labels = [flat[i] for i in order] + extra
    rng.shuffle(labels)
    coord = pd.DataFrame(rng.integers(-9, 10, (len(labels), 3)).astype(float) + rng.random((len(labels), 3)).round(2), index=pd.Index(labels, name="label"), columns=["x", "y", "z"])
    dirs = pd.DataFrame(rng.integers(-1, 2, (len(labels), 3)).astype(float), index=pd.Index(labels, name="label"), columns=["x", "y", "z"])
    tables1.inclined = False
    if rng.random() < 0.4:
        # sensors that are not aligned with a global axis: direction cosines such as (0.6, 0.8, 0) or 0.7071
        for r_ in range(len(labels)):
            if rng.random() < 0.5:
                v_ = [(0.6, 0.8, 0.0), (0.0, -0.6, 0.8), (0.7071, 0.0, -0.7071), (1.0, 0.3, 0.0)][int(rng.integers(0, 4))] if rng.random() < 0.6 else tuple(np.round(rng.uniform(-1, 1, 3), 4))
                dirs.iloc[r_] = v_
                tables1.inclined = True
    d = {"sensors coordinates": coord, "sensors directions": dirs}
    opt = {}
    if n >= 2:
        opt["sensors lines"] = pd.DataFrame(rng.integers(1, n + 1, (int(rng.integers(1, 4)), 2)), index=pd.Index(range(1, 1 + 0), name="label") if False else None, columns=["start", "end"])
    nb = int(rng.integers(2, 5))
    opt["BG nodes"] = pd.DataFrame(rng.random((nb, 3)).round(3), index=pd.Index(range(1, nb + 1), name="ptName"), columns=["x", "y", "z"])
    opt["BG lines"] = pd.DataFrame(rng.integers(1, nb + 1, (2, 2)), columns=["start", "end"])
    opt["BG surfaces"] = pd.DataFrame(rng.integers(1, nb + 1, (1, 3)), columns=["i", "j", "k"])
    for k, v in opt.items():
        if optional == "all" or (optional == "random" and rng.random() < 0.5):
            d[k] = v
    return d


def tables2(rng, flat, optional, with_constraints, plane=False):
    tables2.near_one = False
    n = len(flat)
    npts = int(rng.integers(max(1, (n + 2) // 3), max(2, n) + 2))
    while npts * (2 if plane else 3) < n + (2 if with_constraints else 0):
        npts += 1
    pts = pd.DataFrame(rng.integers(-9, 10, (npts, 3)).astype(float), index=pd.Index(range(1, npts + 1), name="ptName"), columns=["x", "y", "z"])
    cells = [(i, j) for i in range(npts) for j in range(3) if not (plane and j == 1)]  # plane structure: nothing measured along y
    rng.shuffle(cells)
    mp = pd.DataFrame(np.zeros((npts, 3), dtype=object), index=pts.index.copy(), columns=["x", "y", "z"])
    mp[:] = 0
    for name, (i, j) in zip(flat, cells):
        mp.iat[i, j] = name
    rest = cells[n:]
    # some sensors appear twice
    for (i, j) in rest[: int(rng.integers(0, 2))]:
        mp.iat[i, j] = flat[int(rng.integers(0, n))]
        rest = rest[1:]
    cst = None
    if with_constraints and rest:
        nc = min(len(rest), int(rng.integers(1, 3)))
        cn = [f"k{c+1}" for c in range(nc)]
        for c, (i, j) in zip(cn, rest[:nc]):
            mp.iat[i, j] = c
        rest = rest[nc:]
        cols = [flat[int(i)] for i in rng.permutation(n)[: int(rng.integers(1, min(n, 3) + 1))]]
        cst = pd.DataFrame(rng.integers(-2, 3, (nc, len(cols))).astype(float) / 2, index=cn, columns=cols)
        tables2.near_one = False
        if len(cols) >= 2 and rng.random() < 0.4:
            # interpolation weights as they are typed: 0.33 / 0.33 / 0.33, 0.6 / 0.405 - a row that sums to ALMOST one holds exactly the
            # coefficients written there
            w_ = [[0.33, 0.33, 0.33], [0.6, 0.405, 0.0], [0.5, 0.495, 0.0], [0.25, 0.25, 0.505]][int(rng.integers(0, 4))][: len(cols)]
            if len(cols) == 2 and w_ == [0.33, 0.33]:
                w_ = [0.67, 0.325]
            cst.iloc[0, :] = w_
            tables2.near_one = True
        elif rng.random() < 0.3:
            cst.iat[0, 0] = np.nan
    for (i, j) in rest:
        if rng.random() < 0.3:
            mp.iat[i, j] = np.nan
    if plane or rng.random() < 0.4:
        # as a spreadsheet reader delivers it: a direction column without any name is a numeric column (0 / NaN), not an object column
        for col_ in mp.columns:
            if not any(isinstance(v, str) for v in mp[col_]):
                mp[col_] = mp[col_].astype(float)
        tables2.numeric_cols = any(mp[c_].dtype.kind == "f" for c_ in mp.columns[:2])
    else:
        tables2.numeric_cols = False
    d = {"points coordinates": pts, "mapping": mp}
    if cst is not None:
        d["constraints"] = cst
    # the sign table is read by position (row k = point k): its own row labels may be the points' labels, a default 0..n-1 index
    # (an ndarray / a sheet without the label column) or anything else
    u = rng.random()
    sidx = pts.index.copy() if u < 0.5 else (pd.RangeIndex(npts) if u < 0.8 else pd.Index([f"row{k}" for k in rng.permutation(npts)]))
    opt = {"sensors sign": pd.DataFrame(rng.integers(-1, 2, (npts, 3)).astype(float), index=sidx, columns=["x", "y", "z"])}
    if npts >= 2:
        opt["sensors lines"] = pd.DataFrame(rng.integers(1, npts + 1, (2, 2)), columns=["start", "end"])
    if npts >= 3:
        opt["sensors surfaces"] = pd.DataFrame(rng.integers(1, npts + 1, (1, 3)), columns=["i", "j", "k"])
    nb = int(rng.integers(2, 5))
    opt["BG nodes"] = pd.DataFrame(rng.random((nb, 3)).round(3), columns=["x", "y", "z"])
    opt["BG lines"] = pd.DataFrame(rng.integers(1, nb + 1, (2, 2)), columns=["start", "end"])
    opt["BG surfaces"] = pd.DataFrame(rng.integers(1, nb + 1, (1, 3)), columns=["i", "j", "k"])
    for k, v in opt.items():
        if optional == "all" or (optional == "random" and rng.random() < 0.5):
            d[k] = v
    return d


def clone(d):
    return {k: (v.copy(deep=True) if isinstance(v, pd.DataFrame) else copy.deepcopy(v)) for k, v in d.items()}


# ------------------------------------------------------------------------------------------- oracles
def check_geo1(ctx, tag, sig, geo, flat, src):
    ctx.ev(tag)
    if not ctx.check(list(geo.sens_names) == list(flat), f"{sig}:names", lambda: f"{tag}: sens_names {geo.sens_names} expected {flat}"):
        return
    exp_c = src["sensors coordinates"].loc[flat].to_numpy(float)
    exp_d = src["sensors directions"].loc[flat].to_numpy(float)
    if np.any(exp_d != np.round(exp_d)):
        ctx.state("sensors not aligned with a global axis (non-integer direction cosines)")
    got_c = geo.sens_coord.to_numpy(float) if isinstance(geo.sens_coord, pd.DataFrame) else np.asarray(geo.sens_coord, float)
    ok_idx = (not isinstance(geo.sens_coord, pd.DataFrame)) or list(geo.sens_coord.index) == list(flat)
    ctx.check(got_c.shape == exp_c.shape and np.array_equal(got_c, exp_c) and ok_idx, f"{sig}:coordinates_not_aligned_to_sensor_order",
              lambda: f"{tag}: row k of sens_coord is not the coordinate row labelled names[k] (table order {list(src['sensors coordinates'].index)}, names {flat})")
    got_d = np.asarray(geo.sens_dir, float)
    ctx.check(got_d.shape == exp_d.shape and np.array_equal(got_d, exp_d), f"{sig}:directions_not_aligned_to_sensor_order",
              lambda: f"{tag}: row k of sens_dir is not the direction row labelled names[k]")
    for key, attr in (("sensors lines", "sens_lines"), ("BG nodes", "bg_nodes"), ("BG lines", "bg_lines"), ("BG surfaces", "bg_surf")):
        got = getattr(geo, attr)
        if key not in src or src[key] is None:
            ctx.check(got is None, f"{sig}:omitted_sheet_not_none", lambda: f"{tag}: {attr} should be None when '{key}' is omitted, got {got!r}")
        else:
            exp = src[key].to_numpy() - (0 if key == "BG nodes" else 1)
            ctx.check(got is not None and np.array_equal(np.asarray(got), exp), f"{sig}:{attr}_wrong", lambda: f"{tag}: {attr} = {got} expected {exp} (one-based input -> zero-based)")


def check_geo2(ctx, tag, sig, geo, flat, src):
    ctx.ev(tag)
    if not ctx.check(list(geo.sens_names) == list(flat), f"{sig}:names", lambda: f"{tag}: sens_names {geo.sens_names} expected {flat}"):
        return
    ctx.check(np.array_equal(geo.pts_coord.to_numpy(float), src["points coordinates"].to_numpy(float)), f"{sig}:points", f"{tag}: points coordinates changed")
    exp_map = src["mapping"].fillna(0.0)
    ctx.check(geo.sens_map.shape == exp_map.shape and all(str(a) == str(b) or (a == b) for a, b in zip(geo.sens_map.to_numpy().ravel(), exp_map.to_numpy().ravel())),
              f"{sig}:mapping", f"{tag}: mapping table changed (other than NaN -> 0)")
    if "sensors sign" in src:
        ctx.check(np.array_equal(geo.sens_sign.to_numpy(float), src["sensors sign"].to_numpy(float)), f"{sig}:sign", f"{tag}: sign table changed")
    else:
        ctx.check(geo.sens_sign is not None and np.array_equal(geo.sens_sign.to_numpy(float), np.ones(src["points coordinates"].shape)), f"{sig}:default_sign",
                  f"{tag}: omitted 'sensors sign' should default to +1 everywhere")
    if "constraints" in src and src["constraints"] is not None:
        c = geo.cstrn
        if ctx.check(c is not None and list(c.columns) == list(flat) and list(c.index) == list(src["constraints"].index), f"{sig}:constraints_columns", lambda: f"{tag}: constraint table columns {None if c is None else list(c.columns)} expected sensor order {flat}"):
            exp = src["constraints"].fillna(0).reindex(columns=flat, fill_value=0).to_numpy(float)
            ctx.check(np.array_equal(c.to_numpy(float), exp), f"{sig}:constraints_values", f"{tag}: constraint coefficients not aligned with the sensor order")
    for key, attr in (("sensors lines", "sens_lines"), ("sensors surfaces", "sens_surf"), ("BG nodes", "bg_nodes"), ("BG lines", "bg_lines"), ("BG surfaces", "bg_surf")):
        got = getattr(geo, attr)
        if key not in src or src[key] is None:
            ctx.check(got is None, f"{sig}:omitted_sheet_not_none", lambda: f"{tag}: {attr} should be None when '{key}' is omitted, got {got!r}")
        else:
            exp = src[key].to_numpy() - (0 if key == "BG nodes" else 1)
            ctx.check(got is not None and np.array_equal(np.asarray(got), exp), f"{sig}:{attr}_wrong", lambda: f"{tag}: {attr} = {got} expected {exp}")


def check_mapping(ctx, geo, flat, src):
    from pyoma2.functions import gen as G_
    ctx.ev("mapping@dfphi_map_func")
    phi = np.array([float(PRIMES[i % len(PRIMES)] * (1 + i // len(PRIMES) * 100)) for i in range(len(flat))])
    val = dict(zip(flat, phi))
    cst = src.get("constraints")
    cval = {}
    if cst is not None:
        C = cst.fillna(0)
        for cn in C.index:
            cval[cn] = float(sum(C.loc[cn, s] * val[s] for s in C.columns))
    out = G_.dfphi_map_func(phi, geo.sens_names, geo.sens_map, cstrn=geo.cstrn)
    exp = np.zeros(src["mapping"].shape)
    for (i, j), cell in np.ndenumerate(src["mapping"].to_numpy()):
        if isinstance(cell, str):
            exp[i, j] = val[cell] if cell in val else cval[cell]
    got = out.to_numpy(float)
    if got.shape != exp.shape or not np.allclose(got, exp, rtol=1e-12, atol=1e-12):
        i, j = np.argwhere(~np.isclose(got, exp))[0] if got.shape == exp.shape else (0, 0)
        ctx.fail("mapping:cell_value", f"dfphi_map_func: cell ({i},{j}) naming {src['mapping'].iat[i, j]!r} holds {got[i, j] if got.shape == exp.shape else got.shape}, expected {exp[i, j]}")
    return phi, exp


# ------------------------------------------------------------------------------------------- drivers
def patched_reader(tabs):
    import pyoma2.support.geometry.mixin as mx
    return probes.patched(mx, "read_excel_file", lambda path, **k: clone(tabs))


def run_geo(ctx, rng, which, by_args, three=False):
    multi = rng.random() < 0.4
    make_setup.three = three
    if three:
        multi = False
        ctx.state("exactly three sensors (square coordinate / direction tables)")
    try:
        setup, forms, flat = make_setup(rng, multi)
    finally:
        pass
    optional = str(rng.choice(["none", "all", "random"]))
    use_cst = which == 2 and rng.random() < 0.6
    tabs = tables1(rng, flat, optional) if which == 1 else tables2(rng, flat, optional, use_cst)
    form_name = str(rng.choice(list(forms)))
    names_arg = forms[form_name]
    if not by_args and not isinstance(names_arg, pd.DataFrame):
        form_name = [k for k in forms if isinstance(forms[k], pd.DataFrame)][0]
        names_arg = forms[form_name]
    src = clone(tabs)
    if not by_args:
        file_tabs = dict(tabs)
        file_tabs["sensors names"] = names_arg
        if rng.random() < 0.3:
            file_tabs["INFO"] = pd.DataFrame([["template"]])
        if which == 2 and "constraints" not in file_tabs and rng.random() < 0.5:
            file_tabs["constraints"] = pd.DataFrame()  # the template's empty sheet
        with patched_reader(file_tabs):
            (setup.def_geo1_by_file if which == 1 else setup.def_geo2_by_file)("dummy.xlsx")
        tag = f"alignment@def_geo{which}_by_file"
    else:
        if which == 1:
            kw = {}
            dirs = tabs["sensors directions"]
            dir_arg = dirs.to_numpy() if rng.random() < 0.6 else dirs  # documented type is ndarray (rows as in the coordinate table)
            if isinstance(dir_arg, np.ndarray):
                src["sensors directions"] = pd.DataFrame(dir_arg, index=tabs["sensors coordinates"].index, columns=["x", "y", "z"])
            for key, arg in (("sensors lines", "sens_lines"), ("BG nodes", "bg_nodes"), ("BG lines", "bg_lines"), ("BG surfaces", "bg_surf")):
                if key in tabs:
                    kw[arg] = tabs[key].to_numpy() if rng.random() < 0.7 else tabs[key]
            coord_arg = tabs["sensors coordinates"].copy()
            keep = {k: (v.copy() if hasattr(v, "copy") else v) for k, v in kw.items()}
            setup.def_geo1(copy.deepcopy(names_arg), coord_arg, dir_arg, **kw)
            first = setup.geo1
            ctx.ev("arguments unchanged + second definition")
            unchanged = all((a.equals(keep[k]) if isinstance(a, pd.DataFrame) else np.array_equal(a, keep[k])) for k, a in kw.items()) and coord_arg.equals(tabs["sensors coordinates"])
            ctx.check(unchanged, "geo1_args:argument_tables_modified", "def_geo1 modified the tables / arrays it was given")
            setup.def_geo1(copy.deepcopy(names_arg), coord_arg, dir_arg, **kw)  # the same objects again
            same = all(np.array_equal(getattr(first, f), getattr(setup.geo1, f)) if getattr(first, f) is not None else getattr(setup.geo1, f) is None
                       for f in ("sens_lines", "bg_nodes", "bg_lines", "bg_surf"))
            ctx.check(same, "geo1_args:second_definition_differs", "defining geo1 a second time from the same argument objects gives another geometry")
        else:
            kw = {}
            for key, arg in (("constraints", "cstr"), ("sensors sign", "sens_sign")):
                if key in tabs:
                    kw[arg] = tabs[key].copy()
            for key, arg in (("sensors lines", "sens_lines"), ("sensors surfaces", "sens_surf"), ("BG nodes", "bg_nodes"), ("BG lines", "bg_lines"), ("BG surfaces", "bg_surf")):
                if key in tabs:
                    kw[arg] = tabs[key].to_numpy() if rng.random() < 0.7 else tabs[key]
            keep = {k: (v.copy() if hasattr(v, "copy") else v) for k, v in kw.items()}
            pts_arg, map_arg = tabs["points coordinates"].copy(), tabs["mapping"].copy()
            setup.def_geo2(copy.deepcopy(names_arg), pts_arg, map_arg, **kw)
            first = setup.geo2
            ctx.ev("arguments unchanged + second definition")
            unchanged = all((a.equals(keep[k]) if isinstance(a, pd.DataFrame) else np.array_equal(a, keep[k])) for k, a in kw.items()) and pts_arg.equals(tabs["points coordinates"])
            ctx.check(unchanged, "geo2_args:argument_tables_modified", "def_geo2 modified the tables / arrays it was given")
            setup.def_geo2(copy.deepcopy(names_arg), pts_arg, tabs["mapping"].copy(), **kw)
            same = all(np.array_equal(getattr(first, f), getattr(setup.geo2, f)) if getattr(first, f) is not None else getattr(setup.geo2, f) is None
                       for f in ("sens_lines", "sens_surf", "bg_nodes", "bg_lines", "bg_surf"))
            ctx.check(same, "geo2_args:second_definition_differs", "defining geo2 a second time from the same argument objects gives another geometry")
        tag = f"alignment@def_geo{which}(arguments)"
    sig = f"geo{which}{'_args' if by_args else ''}"
    if which == 1:
        check_geo1(ctx, tag, sig, setup.geo1, flat, src)
        if list(src["sensors coordinates"].index)[: len(flat)] != list(flat):
            ctx.state("table rows permuted against name order")
            ctx.nontrivial((sig, tuple(flat), tuple(src["sensors coordinates"].index)))
    else:
        check_geo2(ctx, tag, sig, setup.geo2, flat, src)
        check_mapping(ctx, setup.geo2, flat, src)
        ctx.state("constraints used" if "constraints" in src else "constraints sheet omitted")
        if "constraints" in src and getattr(tables2, "near_one", False):
            ctx.state("constraint row with coefficients summing to almost one")
        ctx.nontrivial((sig, tuple(flat), src["mapping"].shape))
    ctx.state(form_name)
    ctx.ev("names@flatten_sns_names")
    ctx.state({"none": "optional sheets all omitted", "all": "optional sheets all present"}.get(optional, "optional sheets random"))
    ctx.sample({"entry": tag, "names form": form_name, "sensor order": flat[:8], "table order": [str(x) for x in (src["sensors coordinates"].index if which == 1 else src["points coordinates"].index)][:8],
                "optional sheets": sorted(k for k in src if k not in ("sensors coordinates", "sensors directions", "points coordinates", "mapping"))})


def corrupt(rng, which, name, tabs, flat, names_tab):
    d = clone(tabs)
    d["sensors names"] = names_tab
    if name.startswith("missing "):
        d.pop(name[len("missing "):])
    elif name == "unknown sheet":
        # any name that is not one of the documented sheet names - also a documented name typed with other capitals or a stray blank, whose table
        # would otherwise be ignored without a word
        opts = ["foo", "SENSORS LINES", "sensors lines ", "Bg Nodes", " BG lines", "bg surfaces"] + (["Sensors sign", "sensors sign "] if which == 2 else [])
        key = opts[int(rng.integers(0, len(opts)))]
        if getattr(corrupt, "mistype", False):
            key = opts[1 + int(rng.integers(0, len(opts) - 1))]
        base_ = {k_.strip().casefold(): k_ for k_ in d}.get(key.strip().casefold())
        d[key] = d[base_].copy() if base_ is not None and key != "foo" else pd.DataFrame([[1]])
        if base_ is not None and key != "foo" and rng.random() < 0.5:
            d.pop(base_)  # the mistyped sheet instead of the right one
        if key != "foo":
            corrupt.note = "unknown sheet is a documented sheet name typed with other capitals / a stray blank"
    elif name == "coordinates 2 columns":
        d["sensors coordinates"] = d["sensors coordinates"].iloc[:, :2]
    elif name == "directions 2 columns":
        d["sensors directions"] = d["sensors directions"].iloc[:, :2]
    elif name == "directions fewer rows":
        d["sensors directions"] = d["sensors directions"].iloc[:-1]
    elif name == "directions other index":
        idx = list(d["sensors directions"].index)
        idx[-1] = "zz_unknown"
        d["sensors directions"] = d["sensors directions"].set_axis(idx)
    elif name == "sensors lines 3 columns":
        d["sensors lines"] = pd.DataFrame([[1, 2, 1]] if rng.random() < 0.7 else [[1]])
    elif name == "sensors surfaces 2 columns":
        d["sensors surfaces"] = pd.DataFrame([[1, 2]] if rng.random() < 0.7 else [[1, 2, 1, 2]])
    elif name == "mapping other index":
        # the mapping sheet's point labels differ from those of the coordinate sheet (one label replaced / the rows in another order): the
        # two sheets describe the same points row by row, as 'sensors coordinates' and 'sensors directions' do for geometry 1
        idx = list(d["mapping"].index)
        if len(idx) >= 2 and rng.random() < 0.5:
            idx = idx[1:] + idx[:1]
        else:
            idx[-1] = "zz_unknown"
        d["mapping"] = d["mapping"].set_axis(idx)
    elif name == "BG nodes 2 columns":
        d["BG nodes"] = pd.DataFrame(np.ones((2, 2)))
    elif name == "BG lines 3 columns":
        d.setdefault("BG nodes", pd.DataFrame(np.ones((3, 3))))
        d["BG lines"] = pd.DataFrame([[1, 2, 3]])
    elif name == "BG surfaces 2 columns":
        d.setdefault("BG nodes", pd.DataFrame(np.ones((3, 3))))
        d["BG surfaces"] = pd.DataFrame([[1, 2]])
    elif name == "name not in coordinates":
        t = d["sensors coordinates"]
        keep = [i for i in t.index if i != flat[-1]]
        d["sensors coordinates"] = t.loc[keep]
        d["sensors directions"] = d["sensors directions"].loc[keep]
    elif name == "points 2 columns":
        d["points coordinates"] = d["points coordinates"].iloc[:, :2]
    elif name == "mapping fewer rows":
        d["mapping"] = d["mapping"].iloc[:-1]
    elif name == "sign fewer rows":
        d["sensors sign"] = pd.DataFrame(np.ones((len(d["points coordinates"]) - 1 or 2, 3)))
    elif name == "name not in mapping":
        cells = [c for c in d["mapping"].to_numpy().ravel() if isinstance(c, str)]
        inside = [n_ for n_ in flat if any(n_ != c and n_ in c for c in cells)]  # absent names that still occur INSIDE another cell's text
        victim = inside[int(rng.integers(0, len(inside)))] if inside and (getattr(corrupt, "force", False) or rng.random() < 0.7) else flat[-1]
        d["mapping"] = d["mapping"].replace(victim, 0)
        corrupt.note = "removed name is a substring of another cell" if victim in inside else None
    elif name == "constraint column unknown sensor":
        c = d["constraints"].copy()
        c["zz_unknown"] = 0.5
        d["constraints"] = c
    elif name == "constraint never used":
        c = d["constraints"].copy()
        c.loc["k_unused"] = 1.0
        d["constraints"] = c
    return d


def run_corrupt(ctx, case, rng, which):
    from pyoma2.functions import gen as G_
    names_list = CORR1 if which == 1 else CORR2
    name = names_list[case["k"] % len(names_list)]
    multi = rng.random() < 0.3
    corrupt.force = name == "name not in mapping" and (case["k"] // len(names_list)) % 2 == 0
    if corrupt.force:
        setup, forms, flat = make_setup(rng, False, numbered=True)
    else:
        setup, forms, flat = make_setup(rng, multi)
    if len(flat) < 2:
        setup, forms, flat = make_setup(np.random.default_rng(case["k"] + 5), True)
    names_tab = [v for v in forms.values() if isinstance(v, pd.DataFrame)][0]
    tabs = tables1(rng, flat, "all") if which == 1 else tables2(rng, flat, "all", True)
    if which == 2 and "constraints" not in tabs:
        tabs = tables2(np.random.default_rng(case["k"] + 11), flat, "all", True)
        if "constraints" not in tabs:
            ctx.not_judged("no free mapping cell for a constraint")
            return
    corrupt.note = None
    corrupt.mistype = name == "unknown sheet" and (case["k"] // len(names_list)) % 2 == 0
    bad = corrupt(rng, which, name, tabs, flat, names_tab)
    if corrupt.note:
        ctx.state(corrupt.note)
    tag = f"corruption->ValueError@geo{which}"
    ctx.ev(tag)
    via_file = rng.random() < 0.5
    ARGS1 = {"coordinates 2 columns", "directions 2 columns", "directions fewer rows", "directions other index", "name not in coordinates",
             "BG nodes 2 columns", "BG lines 3 columns", "BG surfaces 2 columns", "sensors lines 3 columns"}
    ARGS2 = {"points 2 columns", "mapping fewer rows", "sign fewer rows", "name not in mapping", "constraint column unknown sensor", "constraint never used",
             "sensors lines 3 columns", "sensors surfaces 2 columns"}
    via_args = name in (ARGS1 if which == 1 else ARGS2) and rng.random() < 0.4
    try:
        if via_args:
            # the same malformed tables handed over as arguments (tables stay tables: labels and shapes as corrupted)
            ctx.state("malformed tables given as arguments")
            opt1 = (("sensors lines", "sens_lines"), ("BG nodes", "bg_nodes"), ("BG lines", "bg_lines"), ("BG surfaces", "bg_surf"))
            opt2 = (("constraints", "cstr"), ("sensors sign", "sens_sign"), ("sensors lines", "sens_lines"), ("sensors surfaces", "sens_surf"), ("BG nodes", "bg_nodes"),
                    ("BG lines", "bg_lines"), ("BG surfaces", "bg_surf"))
            kw = {arg: bad[key].copy() for key, arg in (opt1 if which == 1 else opt2) if key in bad}
            if which == 1:
                setup.def_geo1(copy.deepcopy(names_tab), bad["sensors coordinates"].copy(), bad["sensors directions"].copy(), **kw)
            else:
                setup.def_geo2(copy.deepcopy(names_tab), bad["points coordinates"].copy(), bad["mapping"].copy(), **kw)
            made = True
        elif via_file:
            with patched_reader(bad):
                (setup.def_geo1_by_file if which == 1 else setup.def_geo2_by_file)("dummy.xlsx")
            made = (setup.geo1 if which == 1 else setup.geo2) is not None
        else:
            (G_.check_on_geo1 if which == 1 else G_.check_on_geo2)(clone(bad), ref_ind=getattr(setup, "ref_ind", None))
            made = True
        ctx.fail(f"geo{which}:malformed_accepted:{name.replace(' ', '_')}", f"{tag}: corruption '{name}' was accepted (geometry produced: {made})")
    except ValueError:
        pass
    except Exception as e:  # noqa: BLE001
        ctx.fail(f"geo{which}:malformed_wrong_exception:{name.replace(' ', '_')}:{type(e).__name__}", f"{tag}: corruption '{name}' raised {type(e).__name__}: {e} instead of ValueError")
    # and the uncorrupted set is accepted
    good = clone(tabs)
    good["sensors names"] = names_tab
    with patched_reader(good):
        (setup.def_geo1_by_file if which == 1 else setup.def_geo2_by_file)("dummy.xlsx")
    ctx.state(f"geo{which}:{name}")
    ctx.nontrivial((which, name, case["k"]))


def run_artists(ctx, rng):
    import matplotlib.pyplot as plt
    from pyoma2.algorithms.data.result import BaseResult

    setup, forms, flat = make_setup(rng, rng.random() < 0.3)
    n = len(flat)
    names_tab = [v for v in forms.values() if isinstance(v, pd.DataFrame)][0]
    nmodes = 2
    Phi = rng.standard_normal((n, nmodes)) + 1j * rng.standard_normal((n, nmodes)) * 0.1
    res = BaseResult(Fn=np.array([1.5, 2.5]), Phi=Phi)
    mode = int(rng.integers(1, nmodes + 1))
    scaleF = float(rng.choice([1, 2, 7.5]))
    # geo1
    t1 = tables1(rng, flat, "random")
    f1 = dict(t1)
    f1["sensors names"] = names_tab
    with patched_reader(f1):
        setup.def_geo1_by_file("x")
    fig, ax = setup.plot_mode_geo1(res, mode_nr=mode, scaleF=scaleF, view="3D")
    ctx.ev("artists@plot_mode_geo1")
    coord = t1["sensors coordinates"].loc[flat].to_numpy(float)
    dirs = t1["sensors directions"].loc[flat].to_numpy(float)
    phi = Phi[:, mode - 1].real
    exp = [(tuple(coord[k]), tuple(coord[k] + dirs[k] * phi[k] * scaleF)) for k in range(n)]
    segs = []
    for ln in ax.get_lines():
        xs, ys, zs = ln.get_data_3d()
        if len(xs) == 2:
            segs.append(((xs[0], ys[0], zs[0]), (xs[1], ys[1], zs[1])))
    nsl = 0 if setup.geo1.sens_lines is None else len(setup.geo1.sens_lines)
    nbg = 0 if (setup.geo1.bg_lines is None or setup.geo1.bg_nodes is None) else len(setup.geo1.bg_lines)
    quiv = segs[:n]
    ok = len(segs) >= n and all(np.allclose(a, e[0]) and np.allclose(b, e[1]) for (a, b), e in zip(quiv, exp))
    ctx.check(ok, "artists:geo1_quiver_segments", lambda: f"plot_mode_geo1: arrows do not run from the sensor named k to coord + dir*phi_k*scaleF (mode {mode}, scaleF {scaleF}); first arrow {quiv[:1]} expected {exp[:1]}")
    plt.close(fig)
    # geo2
    t2 = tables2(rng, flat, "random", rng.random() < 0.5, plane=bool(rng.random() < 0.5))
    if len(t2["points coordinates"]) >= 3 and "sensors surfaces" not in t2:
        t2["sensors surfaces"] = pd.DataFrame([1 + rng.permutation(len(t2["points coordinates"]))[:3]], columns=["i", "j", "k"])
    f2 = dict(t2)
    f2["sensors names"] = names_tab
    with patched_reader(f2):
        setup.def_geo2_by_file("x")
    fig, ax = setup.plot_mode_geo2_mpl(res, mode_nr=mode, scaleF=scaleF, view="3D", color="red")
    ctx.ev("artists@plot_mode_geo2_mpl")
    val = dict(zip(flat, phi * scaleF))
    cst = t2.get("constraints")
    cval = {}
    if cst is not None:
        C = cst.fillna(0)
        for cn in C.index:
            cval[cn] = float(sum(C.loc[cn, s] * val[s] for s in C.columns))
    disp = np.zeros(t2["mapping"].shape)
    for (i, j), cell in np.ndenumerate(t2["mapping"].to_numpy()):
        if isinstance(cell, str):
            disp[i, j] = val[cell] if cell in val else cval[cell]
    sign = t2["sensors sign"].to_numpy(float) if "sensors sign" in t2 else np.ones(disp.shape)
    if "sensors sign" in t2 and list(t2["sensors sign"].index) != list(t2["points coordinates"].index):
        ctx.state("sign table with row labels other than the points' labels")
    newpts = t2["points coordinates"].to_numpy(float) + disp * sign
    got = None
    for col in ax.collections:
        off = getattr(col, "_offsets3d", None)
        if off is not None:
            pts3 = np.array([np.asarray(o, float) for o in off]).T
            if pts3.shape == newpts.shape and (got is None or np.allclose(pts3, newpts)):
                got = pts3  # background nodes may have the same count: prefer the collection that matches
    if getattr(tables2, "numeric_cols", False):
        ctx.state("mapping table with a purely numeric x or y column")
    if "sensors surfaces" in t2:
        # the surface patches are drawn on the displaced points as well
        tri = np.asarray(t2["sensors surfaces"]).astype(int) - 1
        Ev = newpts[tri.ravel()]
        cands = []
        for col in ax.collections:
            if type(col).__name__ != "Poly3DCollection":
                continue
            faces, vec = getattr(col, "_faces", None), getattr(col, "_vec", None)  # vertex store of the installed / of older matplotlib
            V3 = np.asarray(faces, float).reshape(-1, 3) if faces is not None else (np.asarray(vec)[:3].T if vec is not None else None)
            if V3 is not None and len(V3) == len(Ev):
                cands.append(V3)
        ctx.ev("artists@plot_mode_geo2_mpl(surfaces)")
        if cands:
            key = lambda A: A[np.lexsort(np.round(A, 9).T[::-1])]  # noqa: E731
            ctx.check(any(np.allclose(key(cv), key(Ev), atol=1e-9) for cv in cands), "artists:geo2_surfaces_not_on_displaced_points",
                      lambda: f"plot_mode_geo2_mpl(color='red'): no surface patch has its vertices at points + mapped value * sign (expected {Ev.round(4).tolist()}, drawn {[c_.round(4).tolist() for c_ in cands]})")
            ctx.state("surface patches read back")
    ctx.check(got is not None and np.allclose(got, newpts), "artists:geo2_displaced_points",
              lambda: f"plot_mode_geo2_mpl: scatter points are not points + mapped value * sign (mode {mode}, scaleF {scaleF}); got {None if got is None else got[:2]}, expected {newpts[:2]}")
    plt.close(fig)
    ctx.nontrivial(("artists", tuple(flat), mode, scaleF))


def run_case(ctx, case):
    make_setup.three = False
    rng = gen.rng_of(case)
    c = case["cls"]
    if c == "geo1":
        run_geo(ctx, rng, 1, False, three=(case["k"] % 16 == 8))
    elif c == "geo2":
        run_geo(ctx, rng, 2, False)
    elif c == "geo1_args":
        run_geo(ctx, rng, 1, True, three=(case["k"] % 16 == 2))
    elif c == "geo2_args":
        run_geo(ctx, rng, 2, True)
    elif c == "corrupt1":
        run_corrupt(ctx, case, rng, 1)
    elif c == "corrupt2":
        run_corrupt(ctx, case, rng, 2)
    else:
        run_artists(ctx, rng)
