"""C02 - PoSER merging reproduces the global mode shape from re-scaled setups  [T + P]."""
from __future__ import annotations

import statistics

import numpy as np

from vf import gen, probes

PID = "C02"
ANCHORS = ["pyoma2.functions.gen:merge_mode_shapes", "pyoma2.functions.gen:MSF", "pyoma2.functions.gen:flatten_sns_names",
           "pyoma2.setup.multi:MultiSetup_PoSER.merge_results", "pyoma2.setup.multi:MultiSetup_PoSER._init_setups"]
REQUIRED_MONITORS = ["merge-is-repeatable", "merge@function", "merge@PoSER.synthetic", "merge@PoSER.ssi", "stats@PoSER", "roworder@flatten", "two-campaigns", "names@PoSER.def_geo1"]
ALL_STATES = ["factors:generic", "factors:+-1 only", "entries:real", "entries:complex", "rov:some setup has none",
              "refs:permuted differently per setup", "nref=1", "nref>1"]
REQUIRED_STATES = ["a mode whose reference part has a vanishing bilinear form (sensors in quadrature)", "a roving position measured in two setups (repeated name)", "factors:generic", "entries:complex", "refs:permuted differently per setup", "global shapes of magnitude < 1e-3", "result object replaced after construction", "two modes with the same frequency", "geometry names from setups of different channel counts", "a reference sensor on a node of a mode", "first setup's shapes of integer type"]
RULE = ("global matrices G (1..8 modes, real/complex), 2..5 setups, 1..4 references, 0..5 roving per setup, channel lists randomly "
        "permuted per setup, factors +-[0.05,20] per setup and mode; merged result compared with c_1k*[G_ref;G_rov1;...] (rel 1e-10), "
        "row order with flatten_sns_names; PoSER statistics with statistics.pstdev; non-trivial = at least one factor ratio "
        "|c_i/c_1| differs from 1 by > 5 % on a setup that has roving sensors; distinct = (entry, layout, factors hash)")
ASSUMPTIONS = ["reference vectors with |g^T g| < 1e-6 g^H g (isotropic, see K18c) are not judged",
               "end-to-end class reuses the C01 generator; its SSI results are trusted only through the C01 monitors"]


def cases(tier, seed):
    n_fn, n_syn, n_ssi = (400, 60, 12) if tier == "quick" else (8000, 800, 120)
    return ([{"cls": "fn_merge", "k": k} for k in range(n_fn)] + [{"cls": "poser_synthetic", "k": k} for k in range(n_syn)]
            + [{"cls": "poser_ssi", "k": k} for k in range(n_ssi)])


def layout(rng, nset=None, nref=None, max_rov=5, min_rov=0):
    nset = nset or int(rng.integers(2, 6))
    nref = nref or int(rng.integers(1, 5))
    nrov = [int(rng.integers(min_rov, max_rov + 1)) for _ in range(nset)]
    off = nref
    chan_glob, reflist = [], []
    for i in range(nset):
        rov = list(range(off, off + nrov[i]))
        off += nrov[i]
        nch = nref + nrov[i]
        pos = rng.permutation(nch)
        refpos = [int(p) for p in pos[:nref]]  # position of physical reference j in this setup
        movpos = sorted(int(p) for p in pos[nref:])
        rng.shuffle(rov)  # which global dof sits at which roving position
        cg = [None] * nch
        for j, p in enumerate(refpos):
            cg[p] = j
        for g, p in zip(rov, movpos):
            cg[p] = g
        chan_glob.append(cg)
        reflist.append(refpos)
    return nset, nref, nrov, off, chan_glob, reflist


def expected_rows(nref, chan_glob, reflist):
    rows = list(range(nref))
    for cg, rf in zip(chan_glob, reflist):
        rows += [g for p, g in enumerate(cg) if p not in rf]
    return rows


def factors(rng, nset, nmodes, pm1=False):
    if pm1:
        return rng.choice([-1.0, 1.0], size=(nset, nmodes))
    return rng.choice([-1.0, 1.0], size=(nset, nmodes)) * 10 ** rng.uniform(np.log10(0.05), np.log10(20), size=(nset, nmodes))


def judge_merge(ctx, tag, M, G, c, nref, nrov, chan_glob, reflist, rtol, sigp):
    rows = expected_rows(nref, chan_glob, reflist)
    ctx.ev(tag)
    if not ctx.check(np.shape(M) == (len(rows), G.shape[1]), f"{sigp}:shape", lambda: f"{tag}: merged shape {np.shape(M)} expected {(len(rows), G.shape[1])}"):
        return
    E = G[rows, :] * c[0][None, :]
    bad = None
    for k in range(G.shape[1]):
        g = G[:nref, k]
        if abs(np.sum(g * g)) < 1e-6 * np.vdot(g, g).real:
            # the reference part of this mode has a vanishing bilinear form g^T g (two sensors in quadrature on a whirling mode, three
            # sensors 120 degrees apart on a ring): the scale factor between the setups is well defined (g^H g != 0), the library's is 0/0
            err_ = np.abs(M[:, k] - E[:, k]) / np.max(np.abs(E[:, k]))
            if sigp == "fn" and not (err_.max() <= rtol):
                ctx.fail("fn:isotropic_reference_part", f"{tag}: mode {k} whose reference part g has |g^T g| / g^H g = {abs(np.sum(g * g)) / np.vdot(g, g).real:.1e}: merged shape off by {err_.max():.3g} (relative)")
            else:
                ctx.not_judged("isotropic reference vector (sum phi^2 ~ 0)")
            continue
        err = np.abs(M[:, k] - E[:, k]) / np.max(np.abs(E[:, k]))
        ctx.maxi(f"{tag}: worst relative error", float(err.max()))
        if not (err.max() <= rtol) and bad is None:  # (NaN-safe: a NaN entry is a mismatch)
            j = int(np.argmax(err))
            # which setup does row j belong to?  report the ratio to make the mechanism visible
            off = nref
            sidx = 0
            for i, n in enumerate(nrov):
                if off <= j < off + n:
                    sidx = i
                off += n
            ratio = M[j, k] / E[j, k] if E[j, k] != 0 else np.nan
            inv2 = (c[sidx, k] / c[0, k]) ** 2 if j >= nref else np.nan
            bad = (k, j, sidx, ratio, inv2)
    if bad is not None:
        k, j, sidx, ratio, inv2 = bad
        mech = "inverse_scale" if (j >= nref and np.isfinite(inv2) and abs(ratio - inv2) <= 1e-6 * abs(inv2) and abs(inv2 - 1) > 1e-9) else "mismatch"
        ctx.fail(f"{sigp}:roving_block_{mech}" if j >= nref else f"{sigp}:reference_block_mismatch",
                 f"{tag}: mode {k} row {j} (setup {sidx}): merged/expected = {ratio:.6g}; (c_i/c_1)^2 = {inv2:.6g}; factors c_1={c[0,k]:.4g} c_i={c[sidx,k]:.4g}")
    nt = any(nrov[i] > 0 and np.any(np.abs(np.abs(c[i] / c[0]) - 1) > 0.05) for i in range(1, len(nrov)))
    return nt


def note_states(ctx, G, c, nref, nrov, reflist):
    ctx.state("entries:complex" if np.iscomplexobj(G) else "entries:real")
    ctx.state("factors:+-1 only" if np.all(np.abs(np.abs(c) - 1) < 1e-12) else "factors:generic")
    if any(n == 0 for n in nrov):
        ctx.state("rov:some setup has none")
    if any(r != reflist[0] for r in reflist[1:]):
        ctx.state("refs:permuted differently per setup")
    ctx.state("nref=1" if nref == 1 else "nref>1")


def run_fn(ctx, rng):
    from pyoma2.functions import gen as G_

    nset, nref, nrov, ndof, chan_glob, reflist = layout(rng)
    nmodes = int(rng.integers(1, 9))
    cplx = bool(rng.integers(0, 2))
    G = rng.standard_normal((ndof, nmodes)) + (1j * rng.standard_normal((ndof, nmodes)) if cplx else 0)
    mag = float(10 ** rng.uniform(-5, 3)) if rng.random() < 0.4 else 1.0  # mass-normalised shapes in SI units are of order 1e-3..1e-5
    G = G * mag
    if nref >= 2 and rng.random() < 0.3:
        # one reference sensor sits exactly on a node of some modes (the other references still fix the scale)
        for k in range(nmodes):
            if rng.random() < 0.5:
                G[int(rng.integers(0, nref)), k] = 0.0
        ctx.state("a reference sensor on a node of a mode")
    if getattr(run_fn, "circular", False) and nref >= 2:
        # a mode whose reference sensors move in quadrature (x / y sensors on a whirling mode: (1, i); three sensors around a ring: (1, w, w^2))
        G = G.astype(complex)
        k_ = int(rng.integers(0, nmodes))
        a_ = complex(rng.standard_normal(), rng.standard_normal()) * mag
        G[:nref, k_] = 0
        if nref >= 3 and rng.random() < 0.5:
            w_ = np.exp(2j * np.pi / 3)
            G[:3, k_] = a_ * np.array([1, w_, w_**2])
        else:
            G[:2, k_] = a_ * np.array([1, 1j])
        ctx.state("a mode whose reference part has a vanishing bilinear form (sensors in quadrature)")
    if mag < 1e-3:
        ctx.state("global shapes of magnitude < 1e-3")
    c = factors(rng, nset, nmodes, pm1=rng.random() < 0.1)
    MS = [G[cg, :] * c[i][None, :] for i, cg in enumerate(chan_glob)]
    if rng.random() < 0.15:
        # shapes typed in as whole numbers: the first setup stored with an integer dtype, the factors of the others are not integers
        Gi = np.round(G.real * 3 / max(np.max(np.abs(G.real)), 1e-300))
        Gi[Gi == 0] = 1.0
        G = Gi.astype(float) if not cplx else Gi.astype(complex)
        c = c.copy()
        c[0] = np.sign(c[0]) * np.maximum(1, np.round(np.abs(c[0])))
        MS = [G[cg, :] * c[i][None, :] for i, cg in enumerate(chan_glob)]
        MS[0] = np.round(MS[0].real).astype(np.int64)
        ctx.state("first setup's shapes of integer type")
    MS_copy = [a.copy() for a in MS]
    M = G_.merge_mode_shapes([a for a in MS], [list(r) for r in reflist])
    for a, b in zip(MS, MS_copy):
        ctx.check(np.array_equal(a, b), "fn:inputs_modified", "merge_mode_shapes modified its input arrays")
    nt = judge_merge(ctx, "merge@function", M, G, c, nref, nrov, chan_glob, reflist, 1e-10, "fn")
    note_states(ctx, G, c, nref, nrov, reflist)
    # row order = flatten_sns_names of matching name lists
    alias = {}
    rov_sets = [[g for g in cg if g >= nref] for cg in chan_glob]
    if nset >= 2 and rng.random() < 0.3 and rov_sets[0] and rov_sets[-1]:
        # a roving position measured again in a later setup: the merged shape keeps one row per measured channel, so does the name list
        alias[int(rng.choice(rov_sets[-1]))] = int(rng.choice(rov_sets[0]))
        ctx.state("a roving position measured in two setups (repeated name)")
    names = [[("R%d" % g if g < nref else "dof%d" % alias.get(g, g)) for g in cg] for cg in chan_glob]
    flat = G_.flatten_sns_names([list(n) for n in names], [list(r) for r in reflist])
    ctx.ev("roworder@flatten")
    exp = [f"REF{j+1}" for j in range(nref)] + [f"dof{alias.get(g, g)}" for g in expected_rows(nref, chan_glob, reflist)[nref:]]
    ctx.check(list(flat) == exp, "fn:flatten_order", lambda: f"flatten_sns_names order {flat} differs from merged row order {exp}")
    if nt:
        ctx.nontrivial(("fn", nset, nref, tuple(nrov), cplx, nmodes, float(np.round(c[1, 0], 6))))
    ctx.sample({"entry": "gen.merge_mode_shapes", "setups": nset, "nref": nref, "nrov": nrov, "reflist": reflist,
                "channel->global dof": chan_glob, "modes": nmodes, "complex": cplx, "factors c[setup][mode]": np.round(c, 4).tolist()})


def run_synth(ctx, rng):
    """MultiSetup_PoSER.merge_results fed by setups whose (real) algorithm objects carry prescribed results."""
    from pyoma2.algorithms import EFDD, SSIcov
    from pyoma2.algorithms.data.result import EFDDResult, SSIResult
    from pyoma2.setup import MultiSetup_PoSER, SingleSetup

    nset, nref, nrov, ndof, chan_glob, reflist = layout(rng)
    nmodes = int(rng.integers(1, 7))
    nalg = int(rng.integers(1, 3))
    setups = []
    truth = []
    for a in range(nalg):
        cplx = bool(rng.integers(0, 2))
        G = rng.standard_normal((ndof, nmodes)) + (1j * rng.standard_normal((ndof, nmodes)) if cplx else 0)
        if rng.random() < 0.4:
            G = G * float(10 ** rng.uniform(-5, 3))
        c = factors(rng, nset, nmodes)
        base_f = np.sort(rng.uniform(1, 40, nmodes))
        noise_f = 0.02 * rng.standard_normal((nset, nmodes))
        if nmodes >= 2 and rng.random() < 0.3:
            # a double mode (symmetric structure): equal frequencies, different shapes and damping - modes are matched by position
            k = int(rng.integers(0, nmodes - 1))
            base_f[k + 1] = base_f[k]
            if rng.random() < 0.5:
                noise_f[:, [k, k + 1]] = 0.0
            ctx.state("two modes with the same frequency")
        fn_i = base_f[None, :] * (1 + noise_f)
        xi_i = rng.uniform(0.005, 0.05, nmodes)[None, :] * (1 + 0.2 * rng.standard_normal((nset, nmodes)))
        truth.append((G, c, fn_i, xi_i))
    for i in range(nset):
        ss = SingleSetup(rng.standard_normal((64, len(chan_glob[i]))), 100.0)
        algs = []
        for a in range(nalg):
            G, c, fn_i, xi_i = truth[a]
            if a == 0:
                alg = SSIcov(name=f"ssi{i}", br=4, ordmax=6)
                alg.result = SSIResult(Fn=fn_i[i].copy(), Xi=xi_i[i].copy(), Phi=G[chan_glob[i], :] * c[i][None, :])
            else:
                alg = EFDD(name=f"efdd{i}", nxseg=32)
                alg.result = EFDDResult(freq=np.arange(3.0), Sy=np.zeros((1, 1, 3)), S_val=np.zeros((1, 1, 3)), S_vec=np.zeros((1, 1, 3)),
                                        Fn=fn_i[i].copy(), Xi=xi_i[i].copy(), Phi=G[chan_glob[i], :] * c[i][None, :])
            algs.append(alg)
        ss.add_algorithms(*algs)
        setups.append(ss)
    names = [f"group{a}" for a in range(nalg)]
    ms = MultiSetup_PoSER(ref_ind=[list(r) for r in reflist], single_setups=setups, names=names)
    before = [[probes.digest(a.result) for a in ss.algorithms.values()] for ss in setups]
    res = ms.merge_results()
    ctx.check(sorted(res.keys()) == sorted(names), "poser:result_keys", lambda: f"merge_results keys {list(res)} expected {names}")
    # history: merging must not touch the setups' own results, and merging again (same object, or a new one sharing the setups) gives the same
    ctx.ev("merge-is-repeatable")
    after = [[probes.digest(a.result) for a in ss.algorithms.values()] for ss in setups]
    ctx.check(before == after, "poser:merge_modified_setup_results", "merge_results changed the results stored in the single setups")
    first = {k: probes.digest(v) for k, v in res.items()}
    again = {k: probes.digest(v) for k, v in ms.merge_results().items()}
    other = {k: probes.digest(v) for k, v in MultiSetup_PoSER(ref_ind=[list(r) for r in reflist], single_setups=setups, names=names).merge_results().items()}
    ctx.check(first == again == other, "poser:second_merge_differs", "merging the same setups a second time gives a different result")
    # history: ANOTHER campaign merged in the same process (same group names, other values) leaves this one's merged result alone
    import copy as _copy
    setups_b = _copy.deepcopy(setups)
    for ss_b in setups_b:
        for a_b in ss_b.algorithms.values():
            a_b.result.Fn = np.asarray(a_b.result.Fn) * 1.5
            a_b.result.Phi = np.asarray(a_b.result.Phi)[:, ::-1] * 2.0
    ms_b = MultiSetup_PoSER(ref_ind=[list(r) for r in reflist], single_setups=setups_b, names=names)
    res_b = ms_b.merge_results()
    ctx.ev("two-campaigns")
    ctx.check({k: probes.digest(v) for k, v in ms.result.items()} == first and {k: probes.digest(v) for k, v in res.items()} == first,
              "poser:merged_result_changed_by_another_campaign", "merging a second PoSER object changed the merged result held / returned by the first one")
    ctx.check(all(np.allclose(res_b[nm].Fn, 1.5 * np.asarray(res[nm].Fn)) for nm in names) and res_b is not res, "poser:second_campaign_result", "second campaign: merged Fn is not its own")
    # the class's geometry takes the names in the order of the merged rows, whatever form the names have (ragged table included)
    import pandas as pd
    names_ch = [[("R%d" % g if g < nref else "dof%d" % g) for g in cg] for cg in chan_glob]
    exp_names = [f"REF{j+1}" for j in range(nref)] + [f"dof{g}" for g in expected_rows(nref, chan_glob, reflist)[nref:]]
    width = max(len(c) for c in names_ch)
    labels = [f"{w} span" for w in rng.permutation(["north", "centre", "south", "east", "west"])[:nset]]  # descriptive, not sorted
    forms = [[list(c) for c in names_ch],
             pd.DataFrame([c + [np.nan] * (width - len(c)) for c in names_ch], index=pd.Index(range(1, nset + 1), name="setup No."), columns=[f"chann. {i+1}" for i in range(width)]),
             pd.DataFrame([c + [np.nan] * (width - len(c)) for c in names_ch], index=pd.Index(labels, name="setup"), columns=[f"chann. {i+1}" for i in range(width)])]
    coords = pd.DataFrame(rng.integers(-5, 6, (len(exp_names), 3)).astype(float), index=exp_names, columns=["x", "y", "z"])
    for form in forms:
        ms.def_geo1(_copy.deepcopy(form), coords.copy(), np.ones((len(exp_names), 3)))
        ctx.ev("names@PoSER.def_geo1")
        ctx.check(list(ms.geo1.sens_names) == exp_names, "poser:geometry_names_not_in_merged_row_order",
                  lambda: f"MultiSetup_PoSER.def_geo1 (names as {type(form).__name__}): sens_names {list(ms.geo1.sens_names)}, merged rows are {exp_names}")
    if len({len(c) for c in names_ch}) > 1:
        ctx.state("geometry names from setups of different channel counts")
    for a, nm in enumerate(names):
        if nm not in res:
            continue
        G, c, fn_i, xi_i = truth[a]
        R = res[nm]
        nt = judge_merge(ctx, "merge@PoSER.synthetic", np.asarray(R.Phi), G, c, nref, nrov, chan_glob, reflist, 1e-10, "poser")
        note_states(ctx, G, c, nref, nrov, reflist)
        ctx.ev("stats@PoSER")
        for k in range(nmodes):
            mf = statistics.fmean(fn_i[:, k])
            mx = statistics.fmean(xi_i[:, k])
            exp = (mf, statistics.pstdev(fn_i[:, k]) / mf, mx, statistics.pstdev(xi_i[:, k]) / mx)
            got = (R.Fn[k], R.Fn_cov[k], R.Xi[k], R.Xi_cov[k])
            for lab, e, g in zip(("Fn", "Fn_cov", "Xi", "Xi_cov"), exp, got):
                ctx.check(abs(g - e) <= 1e-10 * max(abs(e), 1e-12) + 1e-14, f"poser:stats_{lab}",
                          lambda: f"{nm} mode {k}: {lab} = {g!r}, expected {e!r} (mean / population std over {nset} setups)")
        if nt:
            ctx.nontrivial(("synth", nset, nref, tuple(nrov), nmodes, a, float(np.round(c[1, 0], 6))))
    # history: a setup is re-run after the multi-setup object was built (run_by_name stores a NEW result object); the next merge must use it
    a0 = list(setups[0].algorithms.values())[0]
    G0, c0, fn0, xi0 = truth[0]
    newF = fn0[0] * 1.07
    a0.result = type(a0.result)(**{**{k: getattr(a0.result, k) for k in type(a0.result).model_fields if getattr(a0.result, k, None) is not None}, "Fn": newF})
    R2 = ms.merge_results()[names[0]]
    expF = (newF + fn0[1:].sum(axis=0)) / nset
    ctx.check(np.allclose(R2.Fn, expF, rtol=1e-12), "poser:merge_uses_results_captured_at_construction",
              "after a setup's result object was replaced (re-run), merge_results still averages the results captured when the multi-setup object was built")
    ctx.state("result object replaced after construction")


def run_ssi(ctx, rng):
    from pyoma2.algorithms import SSIcov
    from pyoma2.setup import MultiSetup_PoSER, SingleSetup

    m = int(rng.integers(1, 5))
    fs = float(rng.choice([50.0, 100.0, 256.0]))
    nset, nref, nrov, ndof, chan_glob, reflist = layout(rng, nset=int(rng.integers(2, 4)), nref=int(rng.integers(1, 4)), max_rov=3)
    if any(nref + n < 2 for n in nrov):
        ctx.not_judged("a one-channel setup cannot pass the MPC criterion (C18 quantifies over >= 2 components)")
        return
    fn, xi, Phi, lam = gen.make_system(rng, m, ndof, fs, False, (0.005, 0.05), 0.03, 0.4, 0.04)
    nus = [gen.obs_index(Phi[[cg[p] for p in rf]], lam, fs) for cg, rf in zip(chan_glob, reflist)]
    if any(n is None for n in nus):
        ctx.not_judged("references do not observe all modes")
        return
    br = max(nus) + 2 + int(rng.integers(0, 3))
    setups = []
    gains = []
    for i in range(nset):
        gain = float(10 ** rng.uniform(-2, 2) * rng.choice([-1, 1]))
        gains.append(gain)
        Y, _ = gen.free_decay(rng, Phi[chan_glob[i]], lam, fs, int(rng.integers(800, 2000)))
        ss = SingleSetup((gain * Y).T.copy(), fs)
        a = SSIcov(name=f"s{i}", br=br, ordmax=2 * m, method="cov_mm", ref_ind=list(reflist[i]),
                   hc=dict(conj=False, xi_max=1.0, mpc_lim=0.0, mpd_lim=10.0, cov_max=1e9))
        ss.add_algorithms(a)
        ss.run_all()
        s = np.linalg.svd(a.result.H, compute_uv=False)
        if s[0] / s[2 * m - 1] > 1e7:
            ctx.not_judged("cond(H) > 1e7 in a setup")
            return
        ss.mpe(f"s{i}", sel_freq=[float(f) for f in fn], order=2 * m, rtol=1e-3)
        if np.shape(a.result.Fn) != (m,):
            ctx.not_judged("a setup did not return all modes (C01/C11 territory)")
            return
        setups.append(ss)
    ms = MultiSetup_PoSER(ref_ind=[list(r) for r in reflist], single_setups=setups, names=["ssi"])
    R = ms.merge_results()["ssi"]
    ctx.ev("merge@PoSER.ssi")
    rows = expected_rows(nref, chan_glob, reflist)
    if not ctx.check(np.shape(R.Phi) == (len(rows), m), "e2e:shape", lambda: f"merged shape {np.shape(R.Phi)} expected {(len(rows), m)}"):
        return
    ctx.check(np.max(np.abs(R.Fn - fn) / fn) <= 1e-6 and np.max(np.abs(R.Xi - xi)) <= 1e-6, "e2e:fn_xi",
              lambda: f"merged Fn/Xi differ from the global system: {R.Fn} vs {fn}; {R.Xi} vs {xi}")
    for k in range(m):
        e = Phi[rows, k]
        g = np.asarray(R.Phi)[:, k]
        one_minus_mac = 1 - gen.mac(g, e)
        j0 = int(np.argmax(np.abs(e)))
        ratio = (g / g[j0]) / (e / e[j0])
        spread = float(np.max(np.abs(ratio[np.abs(e) > 1e-3 * np.abs(e[j0])] - 1)))
        ctx.maxi("merge@PoSER.ssi: 1-MAC", one_minus_mac)
        ctx.maxi("merge@PoSER.ssi: component ratio spread", spread)
        if not (one_minus_mac <= 1e-8 and spread <= 1e-6):
            # mechanism: roving block of setup i off by (scale_i/scale_1)^2 ?
            ctx.fail("e2e:merged_shape_not_global", f"mode {k}: 1-MAC={one_minus_mac:.3e}, component ratio spread={spread:.3e} (gains {np.round(gains,4).tolist()})")
            break
    if any(n > 0 for n in nrov[1:]):
        ctx.nontrivial(("ssi", nset, nref, tuple(nrov), m, round(fs)))
    ctx.state("entries:real")
    ctx.state("factors:generic")


def run_case(ctx, case):
    rng = gen.rng_of(case)
    run_fn.circular = case["cls"] == "fn_merge" and case["k"] % 12 == 5
    {"fn_merge": run_fn, "poser_synthetic": run_synth, "poser_ssi": run_ssi}[case["cls"]](ctx, rng)
