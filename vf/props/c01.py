"""C01 - SSI recovers exact modal parameters from noise-free free-vibration data  [T + P]."""
from __future__ import annotations

import numpy as np

from vf import gen, plumbing

PID = "C01"
ANCHORS = [
    "pyoma2.functions.ssi:build_hank", "pyoma2.functions.ssi:SSI_fast", "pyoma2.functions.ssi:SSI",
    "pyoma2.functions.ssi:SSI_poles", "pyoma2.functions.ssi:ac2mp", "pyoma2.functions.ssi:SSI_mpe",
    "pyoma2.algorithms.ssi:SSIdat.run", "pyoma2.algorithms.ssi:SSIdat.mpe",
]
REQUIRED_MONITORS = ["truth@setup.cov_mm", "truth@setup.dat", "truth@SSI_fast", "truth@SSI_legacy", "mpe@setup"]
ALL_STATES = [f"{s}|{r}|{b}|{m}" for s in ("real", "complex") for r in ("ref=all", "ref=subset", "ref=single")
              for b in ("br=nu+1", "br>nu+1") for m in ("cov_mm", "dat")] + ["mpe: two modes inside each other's default tolerance"]
REQUIRED_STATES = ["mpe: two modes inside each other's default tolerance", "lowest mode below 0.01 fs, short record", "mpe: requests not in ascending order",
                   "second analysis on the same array object", "record amplitude below 1e-5", "mpe: whole-number requests of integer type"]
RULE = ("seeded random systems (m 1..6, real/complex shapes, xi 0.2..8 %, f in (0.02,0.45) fs, 2..8 channels, any reference "
        "subset whose numerical observability index nu is finite, br >= nu+1, records 400..3000 samples); a case is "
        "non-trivial when the guards hold (cond(H) <= 1e8, sigma_2m/sigma_2m+1 >= 1e6) and the monitors judged it; distinct = "
        "distinct (entry point, m, channels, references, br-nu, shape kind, method, fs)")
ASSUMPTIONS = ["tolerance max(1e-9, 1e3*eps*cond(H)); cases with cond(H) > 1e8 are counted as not judged",
               "trusted base: NumPy/SciPy, the generator's closed-form free decay"]

NEUTRAL = dict(conj=False, xi_max=1.0, mpc_lim=0.0, mpd_lim=10.0, cov_max=1e9)


PLUMB_CLASSES = ['SSIcov', 'SSIdat']
PLUMB_FIELDS = ['Fn_poles', 'Xi_poles', 'Phi_poles', 'Lambds', 'Fn', 'Xi', 'Phi', 'order_out']
REQUIRED_MONITORS = list(REQUIRED_MONITORS) + [f"plumbing:{s_}" for s_ in plumbing.SCENARIOS]
REQUIRED_STATES = list(REQUIRED_STATES) + [f"plumbing scenario {s_}" for s_ in plumbing.SCENARIOS]


def cases(tier, seed):
    return _cases(tier, seed) + plumbing.cases(len(plumbing.SCENARIOS) * len(PLUMB_CLASSES) * (1 if tier == "quick" else 6), PLUMB_CLASSES)


def _cases(tier, seed):
    n = 320 if tier == "quick" else 6000
    out = []
    for k in range(n):
        r = k % 10
        cls = "setup_neutral" if r < 5 else ("setup_default_real" if r < 7 else "fn_exact_product")
        out.append({"cls": cls, "k": k})
    return out


def draw_system(rng, real_only=False, mmax=6):
    m = int(rng.integers(1, mmax + 1))
    nch = int(rng.integers(2, 9))
    fs = float(rng.choice([10.0, 100.0, 256.0, 1000.0])) if rng.random() < 0.6 else float(10 ** rng.uniform(0, 3.3))
    cplx = (not real_only) and bool(rng.integers(0, 2))
    xi_rng = (0.002, 0.08)
    fn, xi, Phi, lam = gen.make_system(rng, m, nch, fs, cplx, xi_rng)
    if fs >= 20 and rng.random() < 0.2:
        # frequencies that are (almost) whole numbers of Hz - what a user types as sel_freq=[2, 5, 9]
        cand = np.arange(max(1, int(0.03 * fs) + 1), int(0.44 * fs))
        if len(cand) >= m:
            fn = np.sort(rng.choice(cand, m, replace=False)).astype(float) * (1 + 3e-3 * rng.uniform(-1, 1, m))
            lam = 2 * np.pi * fn * (-xi + 1j * np.sqrt(1 - xi**2))
    if rng.random() < 0.15:
        # the lowest mode far below 0.02 fs: less than one cycle may fit into a short record (still a legal, well-conditioned case)
        fn = fn.copy()
        fn[0] = fs * 10 ** rng.uniform(-3.3, -2.0)
        if m >= 2 and fn[1] - fn[0] < 0.02 * fs:
            fn[1:] = fn[1:] + 0.02 * fs
            fn = np.minimum(fn, 0.449 * fs)
            fn = np.sort(fn) + np.arange(m) * 1e-3 * fs
        lam = 2 * np.pi * fn * (-xi + 1j * np.sqrt(1 - xi**2))
        draw_system.low = True
    else:
        draw_system.low = False
    if m >= 2 and rng.random() < 0.25:
        # a pair of close modes (2..4 % apart): both lie inside the default extraction tolerance of each other
        j = int(rng.integers(0, m - 1))
        f_new = fn[j] * (1 + rng.uniform(0.02, 0.04))
        if f_new < (fn[j + 2] * 0.98 if j + 2 < m else 0.45 * fs):
            fn = fn.copy()
            fn[j + 1] = f_new
            lam = 2 * np.pi * fn * (-xi + 1j * np.sqrt(1 - xi**2))
    kind = int(rng.integers(0, 3))
    if kind == 0:
        ref = list(range(nch))
    elif kind == 1:
        ref = [int(rng.integers(0, nch))]
    else:
        nref = int(rng.integers(1, nch + 1))
        ref = [int(x) for x in rng.permutation(nch)[:nref]]
        if rng.random() < 0.5:
            ref = sorted(ref)
    return m, nch, fs, cplx, fn, xi, Phi, lam, ref


def judge_column(ctx, tag, Lam_col, Fn_col, Xi_col, Phi_col, fn, xi, Phi, lam, tol, sigp):
    """oracle at order 2m: exactly 2m finite poles = m conjugate pairs equal to the truth."""
    m = len(fn)
    fin = np.isfinite(Fn_col)
    ctx.ev(tag)
    if not ctx.check(fin.sum() == 2 * m, f"{sigp}:pole_count", lambda: f"{tag}: {fin.sum()} finite poles at order 2m={2*m}"):
        return False
    idx = np.where(fin)[0]
    L = Lam_col[idx]
    used = set()
    ok = True
    worst = dict(f=0.0, x=0.0, mac=0.0)
    for k in range(m):
        for target, shape in ((lam[k], Phi[:, k]), (np.conj(lam[k]), np.conj(Phi[:, k]))):
            j = int(np.argmin(np.abs(L - target)))
            if j in used:
                ctx.fail(f"{sigp}:pairing", f"{tag}: pole {idx[j]} matched twice; column does not hold m conjugate pairs")
                return False
            used.add(j)
            i = idx[j]
            el = abs(L[j] - target) / abs(target)
            ef = abs(Fn_col[i] - fn[k]) / fn[k]
            ex = abs(Xi_col[i] - xi[k])
            em = 1 - gen.mac(Phi_col[i], shape)
            en = float(gen.unit_component_error(Phi_col[i])[0])
            worst["f"] = max(worst["f"], ef)
            worst["x"] = max(worst["x"], ex)
            worst["mac"] = max(worst["mac"], em)
            if not (el <= tol and ef <= tol and ex <= tol and em <= tol):
                ctx.fail(f"{sigp}:accuracy", f"{tag}: mode {k} f={fn[k]:.6g} xi={xi[k]:.4g}: err lam={el:.2e} f={ef:.2e} xi={ex:.2e} 1-MAC={em:.2e} tol={tol:.1e}")
                ok = False
            if not en <= 1e-12:
                ctx.fail(f"{sigp}:normalisation", f"{tag}: largest-magnitude component is {Phi_col[i][np.argmax(np.abs(Phi_col[i]))]!r}, not 1")
                ok = False
    ctx.maxi(f"{tag}: worst error / tolerance", max(worst.values()) / tol)
    ctx.maxi(f"{tag}: worst error", max(worst.values()))
    return ok


def guards(ctx, H, m):
    s = np.linalg.svd(H, compute_uv=False)
    if len(s) < 2 * m:
        ctx.not_judged("Hankel smaller than 2m")
        return None
    cond = s[0] / s[2 * m - 1] if s[2 * m - 1] > 0 else np.inf
    gap = s[2 * m - 1] / s[2 * m] if len(s) > 2 * m and s[2 * m] > 0 else np.inf
    if not (cond <= 1e8):
        ctx.not_judged("cond(H) > 1e8")
        return None
    if not (gap >= 1e6):
        ctx.not_judged("sigma_2m/sigma_2m+1 < 1e6")
        return None
    return max(1e-9, 1e3 * np.finfo(float).eps * cond)


def run_setup(ctx, case, rng, default_hc):
    from pyoma2.algorithms import SSIcov, SSIdat
    from pyoma2.functions import ssi as ssi_f
    from pyoma2.setup import SingleSetup

    m, nch, fs, cplx, fn, xi, Phi, lam, ref = draw_system(rng, real_only=default_hc)
    nu = gen.obs_index(Phi[ref], lam, fs)
    if nu is None:
        ctx.not_judged("reference subset does not observe all modes numerically")
        return
    extra = 0 if rng.random() < 0.4 else int(rng.integers(1, 6))
    br = nu + 1 + extra
    N = int(rng.integers(400, 3001))
    if getattr(draw_system, "low", False):
        N = int(rng.integers(250, 900))
        ctx.state("lowest mode below 0.01 fs, short record")
    N = max(N, 2 * br + 2 + (br + 1) * (nch + len(ref)) + 50)
    Y, _ = gen.free_decay(rng, Phi, lam, fs, N)
    if rng.random() < 0.35:
        amp = float(10 ** rng.uniform(-10, 4))  # displacements in metres, strains, raw counts: identification does not depend on the unit
        Y = Y * amp
        if amp < 1e-5:
            ctx.state("record amplitude below 1e-5")
    ordmax = 2 * m + int(rng.integers(0, 3))
    if br * nch < ordmax or (br + 1) * len(ref) < ordmax:
        ordmax = 2 * m
    refkind = "ref=all" if len(ref) == nch else ("ref=single" if len(ref) == 1 else "ref=subset")
    ref_arg = None if (len(ref) == nch and ref == sorted(ref) and rng.random() < 0.5) else ref
    if ref_arg is None:
        ref = list(range(nch))
    shared = rng.random() < 0.5  # both analyses read the same array object (what a user session does): a run must leave the records alone
    data_shared = Y.T.copy()
    if shared:
        ctx.state("second analysis on the same array object")
    for meth, cls in (("cov_mm", SSIcov), ("dat", SSIdat)):
        data = data_shared if shared else Y.T.copy()
        ss = SingleSetup(data, fs)
        kw = dict(name="a", br=br, ordmax=ordmax, method=meth, ref_ind=ref_arg)
        if not default_hc:
            kw["hc"] = dict(NEUTRAL)
        alg = cls(**kw)
        ss.add_algorithms(alg)
        ss.run_by_name("a")
        ctx.check(np.array_equal(data, Y.T), "setup:run_modified_the_records", f"{cls.__name__}.run changed the array holding the records")
        r = alg.result
        # the conditioning guards are taken from the block matrix of the records themselves (function path), not from what the class stored:
        # a class that corrupts its matrix must not talk the check out of judging it
        H_own, _ = ssi_f.build_hank(np.array(Y, dtype=float), np.array(Y[ref], dtype=float), br, meth)
        tol = guards(ctx, H_own, m)
        if tol is None:
            continue
        o = 2 * m
        tag = f"truth@setup.{meth}"
        ok = judge_column(ctx, tag, r.Lambds[:, o], r.Fn_poles[:, o], r.Xi_poles[:, o], r.Phi_poles[:, o, :],
                          fn, xi, Phi, lam, tol, "setup" + ("_defaulthc" if default_hc else ""))
        st = f"{'complex' if cplx else 'real'}|{refkind}|{'br=nu+1' if extra == 0 else 'br>nu+1'}|{meth}"
        ctx.state(st)
        ctx.nontrivial(("setup", default_hc, m, nch, len(ref), extra, cplx, meth, round(fs, 3)))
        # extraction at that order
        close = m >= 2 and np.min(np.diff(fn) / fn[:-1]) < 0.05
        rtol_mpe = 5e-2 if rng.random() < 0.5 else 1e-3  # the default tolerance and a tight one
        fn_true, xi_true, Phi_true = fn, xi, Phi
        if m >= 2 and rng.random() < 0.5:
            # requests listed in another order than ascending: mode k of the answer is request k, in frequency, damping AND shape
            perm = rng.permutation(m)
            if not np.array_equal(perm, np.arange(m)):
                fn, xi, Phi = fn_true[perm], xi_true[perm], Phi_true[:, perm]
                ctx.state("mpe: requests not in ascending order")
        as_int = (not close) and all(abs(f - round(f)) <= 0.3 * rtol_mpe * f and round(f) >= 1 for f in fn) and len({round(f) for f in fn}) == m
        mpe_block.as_int = bool(as_int and rng.random() < 0.7)
        if mpe_block.as_int:
            ctx.state("mpe: whole-number requests of integer type")
        try:
            mpe_block(ctx, ss, alg, r, fn, xi, Phi, o, rtol_mpe, m, nch, tol, meth, close)
        finally:
            fn, xi, Phi = fn_true, xi_true, Phi_true
        if ok and len(ctx.samples) < 2:
            ctx.sample({"entry": f"SingleSetup/{cls.__name__}", "m": m, "channels": nch, "ref_ind": ref_arg, "br": br, "nu": nu,
                        "fs": fs, "N": N, "complex_shapes": cplx, "fn": [float(x) for x in fn], "xi": [float(x) for x in xi], "tol": tol})


def mpe_block(ctx, ss, alg, r, fn, xi, Phi, o, rtol_mpe, m, nch, tol, meth, close):
    if True:
        ss.mpe("a", sel_freq=([int(round(f)) for f in fn] if getattr(mpe_block, "as_int", False) else [float(f) for f in fn]), order=o, rtol=rtol_mpe)
        if close and rtol_mpe == 5e-2:
            ctx.state("mpe: two modes inside each other's default tolerance")
        ctx.ev("mpe@setup")
        res = alg.result
        Fn = np.atleast_1d(res.Fn)
        if not ctx.check(Fn.shape == (m,) and np.shape(res.Xi) == (m,) and np.shape(res.Phi) == (nch, m), "setup:mpe_shape",
                         lambda: f"mpe at order 2m returned shapes Fn{np.shape(res.Fn)} Xi{np.shape(res.Xi)} Phi{np.shape(res.Phi)} for m={m}, nch={nch}"):
            return
        for k in range(m):
            rows = np.where(np.isfinite(r.Fn_poles[:, o]))[0]
            cand = [i for i in rows if r.Fn_poles[i, o] == Fn[k] and r.Xi_poles[i, o] == res.Xi[k]
                    and np.array_equal(r.Phi_poles[i, o, :], res.Phi[:, k])]
            ctx.check(len(cand) >= 1, "setup:mpe_not_table_entry",
                      lambda: f"mode {k}: mpe(order=2m) returned (f={Fn[k]!r}, xi={res.Xi[k]!r}) which is not one whole entry of the order-2m pole table")
            ef = abs(Fn[k] - fn[k]) / fn[k]
            ex = abs(res.Xi[k] - xi[k])
            em = 1 - max(gen.mac(res.Phi[:, k], Phi[:, k]), gen.mac(res.Phi[:, k], np.conj(Phi[:, k])))
            ctx.check(ef <= tol and ex <= tol and em <= tol, "setup:mpe_accuracy",
                      lambda: f"mpe mode {k}: err f={ef:.2e} xi={ex:.2e} 1-MAC={em:.2e} tol={tol:.1e} ({meth})")


def run_fn(ctx, case, rng):
    from pyoma2.functions import ssi

    m, nch, fs, cplx, fn, xi, Phi, lam, ref = draw_system(rng)
    r = len(ref)
    nu = gen.obs_index(Phi[ref], lam, fs)
    if nu is None:
        ctx.not_judged("reference subset does not observe all modes numerically")
        return
    extra = 0 if rng.random() < 0.4 else int(rng.integers(1, 5))
    br = nu + 1 + extra
    dt = 1 / fs
    mu = np.concatenate([np.exp(lam * dt), np.exp(np.conj(lam) * dt)])
    Cc = np.hstack([Phi, np.conj(Phi)]).astype(complex)
    # controllability-like factor with conjugate symmetry: random, or the reference rows of C (stochastic case)
    if rng.random() < 0.5:
        G = rng.standard_normal((m, r)) + 1j * rng.standard_normal((m, r))
        G = np.vstack([G, np.conj(G)])
    else:
        w = rng.uniform(0.5, 2, m) * np.exp(1j * rng.uniform(0, 2 * np.pi, m))
        G = np.concatenate([w, np.conj(w)])[:, None] * Cc[ref].T
    O = np.vstack([Cc * (mu**k)[None, :] for k in range(br + 1)])
    Gam = np.hstack([(mu**k)[:, None] * G for k in range(br + 1)])
    Hc = O @ Gam
    if np.max(np.abs(Hc.imag)) > 1e-9 * np.max(np.abs(Hc.real)):
        raise AssertionError("generator: H not real")
    H = Hc.real
    H = H / np.linalg.norm(H, 2) * 10 ** (rng.uniform(-3, 3) if rng.random() < 0.7 else rng.uniform(-20, 6))  # covariances of records in any unit
    tol = guards(ctx, H, m)
    if tol is None:
        return
    ordmax = 2 * m + int(rng.integers(0, 3))
    if br * nch < ordmax or min(H.shape) < ordmax:
        ordmax = 2 * m
    o = 2 * m
    st = f"{'complex' if cplx else 'real'}|{'ref=all' if r == nch else ('ref=single' if r == 1 else 'ref=subset')}|{'br=nu+1' if extra == 0 else 'br>nu+1'}"
    # fast
    Obs, A, C, *_ = ssi.SSI_fast(H, br, ordmax)
    Fn, Xi, Ph, Lam, *_ = ssi.SSI_poles(Obs, A, C, ordmax, dt)
    judge_column(ctx, "truth@SSI_fast", Lam[:, o], Fn[:, o], Xi[:, o], Ph[:, o, :], fn, xi, Phi, lam, tol, "fast")
    # legacy
    A2, C2 = ssi.SSI(H, br, ordmax)
    Fn2, Xi2, Ph2, Lam2, *_ = ssi.SSI_poles(None, A2, C2, ordmax, dt)
    judge_column(ctx, "truth@SSI_legacy", Lam2[:, o], Fn2[:, o], Xi2[:, o], Ph2[:, o, :], fn, xi, Phi, lam, tol, "legacy")
    # ac2mp alone on the true realisation in a random real basis
    ctx.state("fn|" + st)
    ctx.nontrivial(("fn", m, nch, r, extra, cplx, round(fs, 3)))


def run_case(ctx, case):
    if case["cls"] == "plumbing":
        return plumbing.run_case(ctx, case, gen.rng_of(case), PLUMB_FIELDS)
    rng = gen.rng_of(case)
    if case["cls"] == "setup_neutral":
        run_setup(ctx, case, rng, False)
    elif case["cls"] == "setup_default_real":
        run_setup(ctx, case, rng, True)
    else:
        run_fn(ctx, case, rng)
