"""C03 - PreGER multi-setup SSI identifies the global system exactly on noise-free data  [T + P, exhaustive split]."""
from __future__ import annotations

import itertools

import numpy as np

from vf import gen, plumbing, probes
from vf.props import c02
from vf.props.c01 import NEUTRAL

PID = "C03"
ANCHORS = ["pyoma2.functions.ssi:SSI_multi_setup", "pyoma2.functions.gen:pre_multisetup", "pyoma2.functions.ssi:build_hank",
           "pyoma2.functions.ssi:SSI_poles", "pyoma2.algorithms.ssi:SSIdat_MS.run",
           "pyoma2.setup.multi:MultiSetup_PreGER._initialize_data"]
REQUIRED_MONITORS = ["shared-object history", "truth@PreGER.cov_mm", "truth@PreGER.dat", "truth@SSI_multi_setup", "gain-metamorphic", "split@pre_multisetup(direct)",
                     "split@pre_multisetup(every call made by MultiSetup_PreGER)"]
ALL_STATES = ["refs listed out of order", "refs differ between setups", "complex shapes", "real shapes", "br=nu+1", "br>nu+1"]
REQUIRED_STATES = ["one mode excited 1e-3..1e-4 times as strongly as the others in one setup", "modes requested in a rotated order", "refs listed out of order", "refs differ between setups", "br=nu+1", "equal record lengths, different channel counts", "a later setup repeats the first setup's reference records", "two global modes inside each other's default tolerance", "oversampled records, one reference, 3..5 modes", "setup dictionaries with 'mov' before 'ref'"]
RULE = ("A: random global systems (1..5 modes), 2..4 setups, 1..3 references anywhere/any order, 1..4 roving, gains 10^U(-2,2), own record "
        "length and initial condition per setup, br >= nu_ref+1, both methods, through MultiSetup_PreGER+SSIcov_MS/SSIdat_MS and "
        "ssi.SSI_multi_setup; non-trivial = guards hold and >= 2 setups with different gains; B: EVERY channel count 2..6 and EVERY ordered "
        "proper reference subset (1492 layouts) with sample-identifying data, split checked on the direct call and on every call the setup "
        "object makes (init, decimate, detrend, filter, rollback)")
ASSUMPTIONS = ["tolerance max(1e-8, 1e4*eps*max cond(H_setup)); cond > 1e7 not judged",
               "layouts in which all channels are references (no roving sensor) are outside the quantifier"]


PLUMB_CLASSES = ['SSIcov_MS', 'SSIdat_MS']
PLUMB_FIELDS = ['Fn_poles', 'Xi_poles', 'Phi_poles', 'Lambds', 'Fn', 'Xi', 'Phi', 'order_out']
REQUIRED_MONITORS = list(REQUIRED_MONITORS) + [f"plumbing:{s_}" for s_ in plumbing.SCENARIOS]
REQUIRED_STATES = list(REQUIRED_STATES) + [f"plumbing scenario {s_}" for s_ in plumbing.SCENARIOS]


def cases(tier, seed):
    return _cases(tier, seed) + plumbing.cases(len(plumbing.SCENARIOS) * len(PLUMB_CLASSES) * (1 if tier == "quick" else 6), PLUMB_CLASSES)


def _cases(tier, seed):
    nA = 160 if tier == "quick" else 3000
    out = [{"cls": "identify", "k": k} for k in range(nA)]
    # B: exhaustive split
    for n in range(2, 7):
        for kref in range(1, n):
            perms = list(itertools.permutations(range(n), kref))
            for c0 in range(0, len(perms), 60):
                out.append({"cls": "split_exhaustive", "n": n, "refs": [list(p) for p in perms[c0:c0 + 60]], "k": c0})
    return out


def judge(ctx, tag, Lam, Fn, Xi, Ph, fn, xi, PhiG, lam, tol, sigp):
    from vf.props.c01 import judge_column
    return judge_column(ctx, tag, Lam, Fn, Xi, Ph, fn, xi, PhiG, lam, tol, sigp)


def build(rng, ctx):
    m = int(rng.integers(1, 6))
    fs = float(rng.choice([10.0, 100.0, 256.0]))
    nset, nref, nrov, ndof, chan_glob, reflist = c02.layout(rng, nset=int(rng.integers(2, 5)), nref=int(rng.integers(1, 4)), max_rov=4, min_rov=1)
    cplx = bool(rng.integers(0, 2))
    fn, xi, Phi, lam = gen.make_system(rng, m, ndof, fs, cplx)
    if rng.random() < 0.2:
        # strongly oversampled records (all modes below fs/12), many modes, a single reference: the reference observability matrix is
        # legal but far from orthogonal - the change of basis between the setups must still be computed accurately
        m = int(rng.integers(3, 6))
        nset, nref, nrov, ndof, chan_glob, reflist = c02.layout(rng, nset=int(rng.integers(2, 4)), nref=1, max_rov=4, min_rov=1)
        fn, xi, Phi, lam = gen.make_system(rng, m, ndof, fs, cplx, (0.005, 0.03), 0.01, 0.08, 0.008)
        ctx.state("oversampled records, one reference, 3..5 modes")
    if m >= 2 and rng.random() < 0.25:
        # two global modes 2..4 % apart (inside each other's default extraction tolerance of 5 %)
        j = int(rng.integers(0, m - 1))
        fn = fn.copy()
        fn[j + 1] = fn[j] * (1 + rng.uniform(0.02, 0.04))
        fn = np.sort(fn)
        if np.min(np.diff(fn) / fn[:-1]) > 0.015:
            lam = 2 * np.pi * fn * (-xi + 1j * np.sqrt(1 - xi**2))
            ctx.state("two global modes inside each other's default tolerance")
    nu = gen.obs_index(Phi[:nref], lam, fs)
    return m, fs, nset, nref, nrov, ndof, chan_glob, reflist, cplx, fn, xi, Phi, lam, nu


def make_data(rng, Phi, lam, fs, chan_glob, gains, Ns, q0s):
    out = []
    for cg, g, N, q0 in zip(chan_glob, gains, Ns, q0s):
        Y, _ = gen.free_decay(rng, Phi[cg], lam, fs, N, q0=q0)
        out.append((g * Y).T.copy())
    return out


def run_identify(ctx, rng):
    from pyoma2.algorithms import SSIcov_MS, SSIdat_MS
    from pyoma2.functions import gen as G_
    from pyoma2.functions import ssi
    from pyoma2.setup import MultiSetup_PreGER

    m, fs, nset, nref, nrov, ndof, chan_glob, reflist, cplx, fn, xi, Phi, lam, nu = build(rng, ctx)
    if nu is None:
        ctx.not_judged("references do not observe all modes numerically")
        return
    extra = 0 if rng.random() < 0.4 else int(rng.integers(1, 5))
    br = nu + 1 + extra
    if (br - 1) * ndof < 2 * m:
        br = int(np.ceil(2 * m / ndof)) + 1
    gains = [float(10 ** rng.uniform(-2, 2)) for _ in range(nset)]
    Ns = [max(int(rng.integers(600, 2500)), 2 * br + 2 + (br + 1) * (nref + max(nrov) + nref) + 50) for _ in range(nset)]
    q0s = [rng.uniform(0.5, 2, m) * np.exp(1j * rng.uniform(0, 2 * np.pi, m)) for _ in range(nset)]
    if nset >= 2 and rng.random() < 0.25:
        # a repeated test: a later setup released from the same initial condition with the same gain and length as the first one - the
        # reference channels of both carry the same record, the roving ones do not
        k = int(rng.integers(1, nset))
        gains[k], q0s[k], Ns[k] = gains[0], q0s[0], Ns[0]
        ctx.state("a later setup repeats the first setup's reference records")
    if m >= 2 and getattr(run_identify, "weak", False):
        # "arbitrary initial condition per setup": in one setup one mode is excited three to four orders of magnitude less than the others
        # (visible, far above rounding, but weak) - the identification is of all 2m poles of every setup
        k = int(rng.integers(0, nset))
        j = int(rng.integers(0, m))
        q0s[k] = q0s[k].copy()
        q0s[k][j] *= float(10 ** rng.uniform(-4, -3))
        ctx.state("one mode excited 1e-3..1e-4 times as strongly as the others in one setup")
    datasets = make_data(rng, Phi, lam, fs, chan_glob, gains, Ns, q0s)
    rows = c02.expected_rows(nref, chan_glob, reflist)
    PhiG = Phi[rows]
    o = 2 * m
    # conditioning guard from the per-setup Hankel matrices
    Ysplit = G_.pre_multisetup([d for d in datasets], [list(r) for r in reflist])
    cond = 0.0
    condm = {"cov_mm": 0.0, "dat": 0.0}
    overs = bool(np.max(fn) < fs / 12 and nref == 1 and m >= 3)
    for meth in ("cov_mm", "dat"):
        for y in Ysplit:
            H, _ = ssi.build_hank(np.vstack([y["ref"], y["mov"]]), y["ref"], br, meth)
            s = np.linalg.svd(H, compute_uv=False)
            if len(s) <= o or s[o - 1] == 0:
                ctx.not_judged("Hankel smaller than 2m")
                return
            cond = max(cond, s[0] / s[o - 1])
            condm[meth] = max(condm[meth], s[0] / s[o - 1])
            if s[o] > 0 and s[o - 1] / s[o] < 1e6:
                ctx.not_judged("sigma_2m/sigma_2m+1 < 1e6")
                return
    # the change of basis between the setups goes through the reference observability matrix: its conditioning (from the true system,
    # columns scaled to unit length) limits the accuracy as well - measured: error <= ~3 eps cond(O_ref) for 'dat'
    mu_ = np.concatenate([np.exp(lam / fs), np.exp(np.conj(lam) / fs)])
    C_ = np.hstack([Phi[:nref], np.conj(Phi[:nref])])
    O_ = np.vstack([C_ * (mu_**k_)[None, :] for k_ in range(br)])
    sv_ = np.linalg.svd(O_ / np.linalg.norm(O_, axis=0, keepdims=True), compute_uv=False)
    condO = float(sv_[0] / sv_[-1]) if sv_[-1] > 0 else np.inf
    eps_ = np.finfo(float).eps
    skip = set()
    if overs:
        # strongly oversampled single-reference records: 'cov_mm' loses accuracy much faster than eps*cond(H) there (measured up to
        # 1e5 eps cond(H)); it is judged only while cond(H) <= 1e5; 'dat' is judged against the reference-observability bound
        if condm["cov_mm"] > 1e5:
            skip.add("cov_mm")
            ctx.not_judged("oversampled class: cov_mm with cond(H) > 1e5")
        if condO > 1e9 or condm["dat"] > 1e7:
            skip.add("dat")
            ctx.not_judged("oversampled class: cond(O_ref) > 1e9")
        if len(skip) == 2:
            return
        tolm = {mm: max(1e-8, 1e5 * eps_ * condm[mm], 1e3 * eps_ * condO) for mm in condm}
    elif getattr(run_identify, "weak", False) and m >= 2:
        # the weakly excited mode makes cond(H) large by construction (quadratically so for the moment matrix): each method is judged against its
        # own Hankel matrices, up to cond 1e9 (the accuracy bound 1e5 eps cond is then 2e-2 - a lost or mixed-up mode is far above it)
        for mm in condm:
            if condm[mm] > 1e9:
                skip.add(mm)
                ctx.not_judged("weak-mode class: cond(H) > 1e9")
        if len(skip) == 2:
            return
        tolm = {mm: max(1e-8, 1e5 * eps_ * condm[mm], 1e3 * eps_ * min(condO, 1e9)) for mm in condm}
    else:
        if cond > 1e7:
            ctx.not_judged("cond(H) > 1e7")
            return
        # (1e5: a thorough sweep met 1.02e4 eps cond(H) on the unchanged tree; the breaking changes of section 5 are orders of magnitude above)
        tolm = {mm: max(1e-8, 1e5 * eps_ * cond, 1e3 * eps_ * min(condO, 1e9)) for mm in condm}
    res = {}
    for meth, cls in (("cov_mm", SSIcov_MS), ("dat", SSIdat_MS)):
        if meth in skip:
            continue
        tol = tolm[meth]
        ms = MultiSetup_PreGER(fs=fs, ref_ind=[list(r) for r in reflist], datasets=[d.copy() for d in datasets])
        alg = cls(name="a", br=br, ordmax=o, method=meth, hc=dict(NEUTRAL))
        ms.add_algorithms(alg)
        ms.run_by_name("a")
        r = alg.result
        if not ctx.check(r.Phi_poles.shape[2] == ndof, "ms:shape", lambda: f"mode shapes have {r.Phi_poles.shape[2]} rows, expected {ndof}"):
            continue
        judge(ctx, f"truth@PreGER.{meth}", r.Lambds[:, o], r.Fn_poles[:, o], r.Xi_poles[:, o], r.Phi_poles[:, o, :], fn, xi, PhiG, lam, tol, "ms")
        res[meth] = r
        # the modes come back in the order in which they were asked for, whatever that order is (ascending, rotated, shuffled)
        perm = list(range(m))
        if m >= 3 and rng.random() < 0.5:
            sh = int(rng.integers(1, m))
            perm = perm[sh:] + perm[:sh]
            ctx.state("modes requested in a rotated order")
        elif rng.random() < 0.3:
            perm = [int(x) for x in rng.permutation(m)]
        ms.mpe("a", sel_freq=[float(fn[k]) for k in perm], order=o, rtol=(5e-2 if rng.random() < 0.5 else 1e-3))  # the default tolerance and a tight one
        R = alg.result
        ctx.ev("mpe@PreGER")
        if ctx.check(np.shape(R.Fn) == (m,) and np.shape(R.Phi) == (ndof, m), "ms:mpe_shape", lambda: f"mpe shapes {np.shape(R.Fn)} {np.shape(R.Phi)}"):
            for i, k in enumerate(perm):
                em = 1 - max(gen.mac(R.Phi[:, i], PhiG[:, k]), gen.mac(R.Phi[:, i], np.conj(PhiG[:, k])))
                ctx.check(abs(R.Fn[i] - fn[k]) / fn[k] <= tol and abs(R.Xi[i] - xi[k]) <= tol and em <= tol, "ms:mpe_accuracy",
                          lambda: f"mpe request {i} (mode {k}, requests in order {perm}): f {R.Fn[i]} vs {fn[k]}, xi {R.Xi[i]} vs {xi[k]}, 1-MAC {em:.2e}")
    # history: both algorithms on ONE object, run twice; the shared split data must stay untouched and the results exact
    ms = MultiSetup_PreGER(fs=fs, ref_ind=[list(r) for r in reflist], datasets=[d.copy() for d in datasets])
    a1 = SSIcov_MS(name="c", br=br, ordmax=o, method="cov_mm", hc=dict(NEUTRAL))
    a2 = SSIdat_MS(name="d", br=br, ordmax=o, method="dat", hc=dict(NEUTRAL))
    ms.add_algorithms(a1, a2)
    sha0 = [probes.sha(y["ref"]) + probes.sha(y["mov"]) for y in ms.data]
    ms.run_all()
    ms.run_all()
    ctx.ev("shared-object history")
    ctx.check([probes.sha(y["ref"]) + probes.sha(y["mov"]) for y in ms.data] == sha0, "ms:shared_data_modified", "a multi-setup SSI run modified the split data shared by the algorithms")
    for a_, meth_ in ((a1, "cov_mm"), (a2, "dat")):
        r_ = a_.result
        tol = tolm[meth_]
        if meth_ not in skip and r_.Phi_poles.shape[2] == ndof:
            judge(ctx, f"truth@PreGER.{meth_}", r_.Lambds[:, o], r_.Fn_poles[:, o], r_.Xi_poles[:, o], r_.Phi_poles[:, o, :], fn, xi, PhiG, lam, tol, "ms_shared")
    # function level
    meth = "cov_mm" if rng.random() < 0.5 else "dat"
    if meth in skip:
        meth = "dat" if meth == "cov_mm" else "cov_mm"
    tol = tolm[meth]
    Yarg = Ysplit
    if rng.random() < 0.5:
        Yarg = [{"mov": y["mov"], "ref": y["ref"]} for y in Ysplit]  # the same dictionaries written in the other key order
        ctx.state("setup dictionaries with 'mov' before 'ref'")
    Obs, A, C = ssi.SSI_multi_setup(Yarg, fs, br, o, meth)
    F, X, P, L, *_ = ssi.SSI_poles(Obs, A, C, o, 1 / fs)
    judge(ctx, "truth@SSI_multi_setup", L[:, o], F[:, o], X[:, o], P[:, o, :], fn, xi, PhiG, lam, tol, "msfn")
    # metamorphic: other gains, same everything else -> same tables
    if "cov_mm" in res:
        gains2 = [float(10 ** rng.uniform(-2, 2)) * rng.choice([-1, 1]) for _ in range(nset)]
        data2 = [d * (g2 / g1) for d, g1, g2 in zip(datasets, gains, gains2)]
        ms = MultiSetup_PreGER(fs=fs, ref_ind=[list(r) for r in reflist], datasets=data2)
        alg = SSIcov_MS(name="a", br=br, ordmax=o, method="cov_mm", hc=dict(NEUTRAL))
        ms.add_algorithms(alg)
        ms.run_by_name("a")
        r2, r1 = alg.result, res["cov_mm"]
        ctx.ev("gain-metamorphic")
        d = gen.multiset_dist(r1.Lambds[:, o][np.isfinite(r1.Fn_poles[:, o])], r2.Lambds[:, o][np.isfinite(r2.Fn_poles[:, o])])
        ctx.check(d <= 10 * tolm["cov_mm"], "ms:gain_dependence", lambda: f"order-2m eigenvalues change by {d:.2e} when per-setup gains change")
    ctx.state("complex shapes" if cplx else "real shapes")
    ctx.state("br=nu+1" if br == nu + 1 else "br>nu+1")
    if any(list(r) != sorted(r) for r in reflist):
        ctx.state("refs listed out of order")
    if any(r != reflist[0] for r in reflist):
        ctx.state("refs differ between setups")
    if len(set(np.round(gains, 6))) > 1:
        ctx.nontrivial(("identify", m, nset, nref, tuple(nrov), br - nu, cplx, round(fs)))
    ctx.sample({"entry": "MultiSetup_PreGER/SSIcov_MS+SSIdat_MS", "m": m, "fs": fs, "ref_ind": reflist, "channel->global dof": chan_glob,
                "gains": gains, "br": br, "nu": nu, "record lengths": Ns, "tol": tol})


def check_split(ctx, tag, dataList, reflist, Y, sig):
    ok = True
    for i, (d, rf, y) in enumerate(zip(dataList, reflist, Y)):
        ctx.ev(tag)
        mov = [c for c in range(d.shape[1]) if c not in rf]
        ref_ok = np.shape(y["ref"]) == (len(rf), d.shape[0]) and np.array_equal(y["ref"], d[:, list(rf)].T)
        mov_ok = np.shape(y["mov"]) == (len(mov), d.shape[0]) and np.array_equal(y["mov"], d[:, mov].T)
        if not ref_ok:
            ctx.fail(f"{sig}:ref_rows", f"{tag}: setup {i} ref_ind={list(rf)}: 'ref' rows are not the listed channels in listed order with intact samples")
            ok = False
        if not mov_ok:
            ctx.fail(f"{sig}:mov_rows", f"{tag}: setup {i} ref_ind={list(rf)}: 'mov' rows are not the remaining channels in ascending order with intact samples")
            ok = False
    return ok


def run_split(ctx, case, rng):
    import pyoma2.setup.multi as multi
    from pyoma2.functions import gen as G_
    from pyoma2.setup import MultiSetup_PreGER

    n = case["n"]
    T = 96
    base = 1000.0 * np.arange(n)[None, :] + np.arange(T)[:, None]
    calls = []
    orig = multi.pre_multisetup

    def spy(dataList, reflist):
        out = orig(dataList, reflist)
        calls.append((dataList, reflist, out))
        return out

    for refs in case["refs"]:
        k = len(refs)
        # second setup: random layout with the same number of references
        n2 = int(rng.integers(k + 1, 7))
        refs2 = [int(x) for x in rng.permutation(n2)[:k]]
        T2 = T if rng.random() < 0.5 else T + 7  # equal record lengths with different channel counts are legal too
        base2 = 1000.0 * np.arange(n2)[None, :] + np.arange(T2)[:, None] + 0.5
        if T2 == T and n2 != n:
            ctx.state("equal record lengths, different channel counts")
        Y = G_.pre_multisetup([base.copy(), base2.copy()], [list(refs), refs2])
        check_split(ctx, "split@pre_multisetup(direct)", [base, base2], [refs, refs2], Y, "split")
        # identify by value: every sample names its channel and time
        if np.shape(Y[0]["ref"]) == (k, T):
            ch = np.round((Y[0]["ref"][:, 0]) / 1000.0).astype(int).tolist()
            ctx.check(ch == list(refs), "split:ref_identity", lambda: f"ref rows carry channels {ch}, listed {list(refs)}")
        # through the object and its preprocessing steps
        del calls[:]
        with probes.patched(multi, "pre_multisetup", spy):
            ms = MultiSetup_PreGER(fs=50.0, ref_ind=[list(refs), list(refs2)], datasets=[base.copy(), base2.copy()])
            first = calls[-1][2] if calls else None
            ctx.check(first is not None and ms.data is first, "split:init_not_from_split", "MultiSetup_PreGER.data is not the output of the split made at construction")
            ms.decimate_data(q=2)
            ms.detrend_data()
            ms.filter_data(Wn=5.0, order=2, btype="lowpass")
            # after the steps each setup still holds ITS channels: shapes of the split follow the datasets' channel counts
            ctx.check([d["ref"].shape[0] + d["mov"].shape[0] for d in ms.data] == [n, n2], "split:channels_moved_between_setups",
                      lambda: f"after preprocessing the setups hold {[d['ref'].shape[0] + d['mov'].shape[0] for d in ms.data]} channels, datasets have {[n, n2]}")
            ms.rollback()
            ctx.check(ms.data is calls[-1][2], "split:rollback_not_from_split", "data after rollback is not the output of a fresh split")
        ctx.check(len(calls) >= 5, "split:preprocessing_skips_split", lambda: f"only {len(calls)} splits for init+decimate+detrend+filter+rollback")
        for dl, rl, out in calls:
            check_split(ctx, "split@pre_multisetup(every call made by MultiSetup_PreGER)", dl, rl, out, "split_obj")
        ctx.nontrivial(("split", n, tuple(refs)))
    ctx.add_extra("split_layouts_enumerated", len(case["refs"]))
    if case["k"] == 0 and n == 4:
        ctx.sample({"entry": "pre_multisetup / MultiSetup_PreGER", "channels": n, "ordered reference subsets in this chunk": case["refs"][:6], "data": "y[t,c]=1000c+t"})


def run_case(ctx, case):
    if case["cls"] == "plumbing":
        return plumbing.run_case(ctx, case, gen.rng_of(case), PLUMB_FIELDS)
    rng = gen.rng_of(case)
    if case["cls"] == "identify":
        run_identify.weak = (case["k"] % 6 == 3)
        run_identify(ctx, rng)
    else:
        run_split(ctx, case, rng)
