"""C20 - Diagrams show exactly the identified poles at their frequency, order and damping  [A + P]."""
from __future__ import annotations

import collections

import numpy as np

from vf import gen

PID = "C20"
ANCHORS = ["pyoma2.functions.plot:stab_plot", "pyoma2.functions.plot:cluster_plot", "pyoma2.functions.plot:CMIF_plot", "pyoma2.algorithms.ssi:SSIdat.plot_stab",
           "pyoma2.algorithms.ssi:SSIdat.plot_cluster", "pyoma2.algorithms.plscf:pLSCF.plot_stab", "pyoma2.algorithms.plscf:pLSCF.plot_cluster", "pyoma2.algorithms.fdd:FDD.plot_CMIF"]
REQUIRED_MONITORS = ["markers@stab_plot(function)", "markers@cluster_plot(function)", "curves@CMIF_plot(function)", "markers@SSIcov.plot_stab", "markers@SSIcov.plot_cluster",
                     "markers@pLSCF.plot_stab", "markers@pLSCF.plot_cluster", "curves@FDD.plot_CMIF", "marker-order accepted by mpe"]
ALL_STATES = ["hide_poles=True", "hide_poles=False", "with covariance error bars", "freqlim given", "step=1", "step=2", "step=3", "more rows than orders", "more orders than rows",
              "empty column", "no stable pole", "nSv=all", "nSv<all"]
REQUIRED_STATES = ["CMIF drawn after an extraction on the same run", "as many spectral lines as singular values (cubic array)", "hide_poles given as a numpy boolean / integer / 0-d array", "nSv=0", "hide_poles=True", "hide_poles=False", "with covariance error bars", "freqlim given", "step=2", "more rows than orders", "more orders than rows", "nSv=all", "nSv<all", "column-major tables",
                   "earlier figures left open", "49 or more pole slots", "several objects of one class and name plotted in one process",
                   "retained poles with a value of exactly zero", "labels stored as bool / int8 / uint8 / int32 / float"]
RULE = ("random pole / label tables up to 60 orders, non-square, any NaN pattern, labels 0/1, step 1..3 at function level, freqlim, with/without covariance; results "
        "of real SSIcov / pLSCF / FDD runs through the classes' plot methods; the data of the matplotlib artists on the returned axes (Agg) are read back: green "
        "'o' Line2D = multiset {(Fn[i,j], j*step): Lab=1}, red PathCollection = {(Fn[i,j], j*step): Lab=0}, cluster diagram with Xi as ordinate; CMIF "
        "curves over the whole grid in dB relative to the first singular value's maximum; marker ordinates fed back to mpe(order=.); non-trivial = table "
        "with both stable and unstable finite poles and >= 2 orders; distinct by table digest and options")
ASSUMPTIONS = ["error-bar artists (caps, bar collections) and legend handles are excluded by marker/colour; markers outside freqlim are still data of the artist (only the view is limited)"]


def cases(tier, seed):
    n1, n2, n3 = (160, 60, 10) if tier == "quick" else (3000, 1000, 120)
    return [{"cls": "tables", "k": k} for k in range(n1)] + [{"cls": "cmif", "k": k} for k in range(n2)] + [{"cls": "classes", "k": k} for k in range(n3)]


def green_markers(ax):
    pts = []
    n = 0
    for ln in ax.get_lines():
        if ln.get_marker() == "o" and ln.get_linestyle() in ("None", "none", "", " "):
            import matplotlib.colors as mc
            if mc.to_rgba(ln.get_color()) == mc.to_rgba("g"):
                n += 1
                x, y = np.asarray(ln.get_xdata(), float), np.asarray(ln.get_ydata(), float)
                fin = np.isfinite(x)
                pts += list(zip(x[fin].tolist(), y[fin].tolist()))
    return n, pts


def red_scatter(ax):
    from matplotlib.collections import PathCollection
    pts = []
    n = 0
    for c in ax.collections:
        if isinstance(c, PathCollection):
            n += 1
            off = np.ma.filled(c.get_offsets().astype(float), np.nan)
            off = off[np.isfinite(off[:, 0])]
            pts += [tuple(p) for p in off.tolist()]
    return n, pts


def same_multiset(a, b, tol=1e-12):
    if len(a) != len(b):
        return False
    a = sorted(a)
    b = sorted(b)
    return all(abs(p[0] - q[0]) <= tol * max(1, abs(q[0])) and abs(p[1] - q[1]) <= tol * max(1, abs(q[1])) for p, q in zip(a, b))


def expected(Fn, Y, Lab, val):
    return [(float(Fn[i, j]), float(Y(i, j))) for i in range(Fn.shape[0]) for j in range(Fn.shape[1]) if Lab[i, j] == val and np.isfinite(Fn[i, j])]


def judge_axes(ctx, tag, sig, ax, Fn, Lab, Y, hide):
    ctx.ev(tag)
    ng, g = green_markers(ax)
    exp_s = expected(Fn, Y, Lab, 1)
    ok = ctx.check(ng == 1, f"{sig}:stable_artist_count", lambda: f"{tag}: {ng} green 'o' marker artists on the axes")
    if ok and not same_multiset(g, exp_s):
        mech = "count" if len(g) != len(exp_s) else ("ordinate" if same_multiset([(p[0], 0) for p in g], [(p[0], 0) for p in exp_s]) else "abscissa_or_pairing")
        ctx.fail(f"{sig}:stable_markers:{mech}", f"{tag}: {len(g)} stable markers, {len(exp_s)} poles labelled stable; first markers {sorted(g)[:3]} expected {sorted(exp_s)[:3]} (table {Fn.shape})")
    nr, r = red_scatter(ax)
    if hide:
        ctx.check(len(r) == 0, f"{sig}:unstable_shown_although_hidden", lambda: f"{tag}: hide_poles=True but {len(r)} unstable markers drawn")
    else:
        exp_u = expected(Fn, Y, Lab, 0)
        if not same_multiset(r, exp_u):
            mech = "count" if len(r) != len(exp_u) else "position"
            ctx.fail(f"{sig}:unstable_markers:{mech}", f"{tag}: {len(r)} unstable markers, {len(exp_u)} retained poles not labelled stable; first {sorted(r)[:3]} expected {sorted(exp_u)[:3]} (table {Fn.shape})")


def make_tables(rng):
    nr = int(rng.integers(1, 20))
    if rng.random() < 0.25:
        nr = int(rng.choice([49, 50, 59, 60, 98, 103, 107, 120]))  # as many pole slots as the highest order (SSI), twice as many, pLSCF sizes
    no = int(rng.integers(2, 61))
    if rng.random() < 0.1:
        nr, no = (1, int(rng.integers(2, 10))) if rng.random() < 0.5 else (int(rng.integers(2, 10)), 2)
    Fn = rng.uniform(0.5, 50, (nr, no))
    Xi = rng.uniform(0.001, 0.1, (nr, no))
    mask = rng.random((nr, no)) < rng.choice([0.0, 0.3, 0.7])
    if rng.random() < 0.4:
        mask[:, int(rng.integers(0, no))] = True
    Fn[mask] = np.nan
    Xi[mask] = np.nan
    Lab = (rng.random((nr, no)) < rng.choice([0.0, 0.3, 0.6])).astype(int)
    Lab[:, 0] = 0
    Lab[mask] = 0
    make_tables.special = []
    if rng.random() < 0.15:
        # legal retained poles with a value of exactly zero: an undamped pole (xi = 0), a rigid-body pole (f = 0)
        fin_ = np.argwhere(~mask)
        for i_, j_ in fin_[rng.permutation(len(fin_))[:3]]:
            if rng.random() < 0.5:
                Xi[i_, j_] = 0.0
            else:
                Fn[i_, j_] = 0.0
        if len(fin_):
            make_tables.special.append("retained poles with a value of exactly zero")
    if rng.random() < 0.2:
        Lab = Lab.astype(rng.choice([bool, np.int8, np.uint8, np.int32, float]))  # 0/1 labels in another storage type
        make_tables.special.append("labels stored as bool / int8 / uint8 / int32 / float")
    if rng.random() < 0.3:  # a legal memory layout: column-major tables (e.g. a transposed orders-by-slots array)
        Fn, Xi, Lab = np.asfortranarray(Fn), np.asfortranarray(Xi), np.asfortranarray(Lab)
    return Fn, Xi, Lab, mask


def run_tables(ctx, rng):
    import matplotlib.pyplot as plt
    from pyoma2.functions import plot as P_

    Fn, Xi, Lab, mask = make_tables(rng)
    for st_ in make_tables.special:
        ctx.state(st_)
    nr, no = Fn.shape
    step = int(rng.choice([1, 1, 2, 3]))
    hide = bool(rng.integers(0, 2))
    freqlim = (5.0, 30.0) if rng.random() < 0.3 else None
    cov = rng.uniform(0, 0.05, Fn.shape) if rng.random() < 0.4 else None
    if cov is not None:
        cov[mask] = np.nan
    Fc, Lc = Fn.copy(), Lab.copy()
    keep_open = rng.random() < 0.5  # an interactive session leaves earlier figures open: every diagram is drawn from its own table only
    if keep_open:
        ctx.state("earlier figures left open")
        real_close, plt.close = plt.close, (lambda *a, **k: None)
    try:
        _run_tables_body(ctx, rng, P_, plt, Fn, Xi, Lab, mask, Fc, Lc, step, hide, freqlim, cov, nr, no)
    finally:
        if keep_open:
            plt.close = real_close
        plt.close("all")


def _run_tables_body(ctx, rng, P_, plt, Fn, Xi, Lab, mask, Fc, Lc, step, hide, freqlim, cov, nr, no):
    # the switch is a flag: on when truthy, whatever carries it (a numpy comparison result, an integer from a settings table, ...)
    hide_, nothide_ = [(hide, not hide), (np.bool_(hide), np.bool_(not hide)), (int(hide), int(not hide)), (np.array(hide), np.array(not hide))][int(rng.integers(0, 4))]
    if not isinstance(hide_, bool):
        ctx.state("hide_poles given as a numpy boolean / integer / 0-d array")
    fig, ax = P_.stab_plot(Fn, Lab, step, (no - 1) * step, ordmin=int(rng.integers(0, no)) * step, freqlim=freqlim, hide_poles=hide_, Fn_cov=cov)
    judge_axes(ctx, "markers@stab_plot(function)", "stab", ax, Fc, Lc, lambda i, j: j * step, hide)
    ctx.check(np.array_equal(Fn, Fc, equal_nan=True) and np.array_equal(Lab, Lc), "stab:inputs_modified", "stab_plot modified its inputs")
    if freqlim is not None:
        ctx.check(tuple(np.round(ax.get_xlim(), 9)) == freqlim, "stab:freqlim", lambda: f"xlim {ax.get_xlim()} for freqlim {freqlim}")
    plt.close(fig)
    # history: the same diagram drawn again (a dialog re-plots after every click) must show the same markers
    fig, ax = P_.stab_plot(Fn, Lab, step, (no - 1) * step, ordmin=0, freqlim=freqlim, hide_poles=hide_, Fn_cov=cov)
    judge_axes(ctx, "markers@stab_plot(function)", "stab_second_call", ax, Fc, Lc, lambda i, j: j * step, hide)
    plt.close(fig)
    Xc = Xi.copy()
    fig, ax = P_.cluster_plot(Fn, Xi, Lab, ordmin=0, freqlim=freqlim, hide_poles=hide_)
    judge_axes(ctx, "markers@cluster_plot(function)", "cluster", ax, Fc, Lc, lambda i, j: Xc[i, j], hide)
    ctx.check(np.array_equal(Fn, Fc, equal_nan=True) and np.array_equal(Xi, Xc, equal_nan=True) and np.array_equal(Lab, Lc), "cluster:inputs_modified", "cluster_plot modified its inputs")
    plt.close(fig)
    # history: a second cluster diagram of ANOTHER table / other options
    Fn2 = np.where(np.isfinite(Fn), Fn * 0.5 + 1.0, np.nan)
    Lab2 = np.where(np.isfinite(Fn), 1 - Lab, 0)
    Lab2[:, 0] = 0
    fig, ax = P_.cluster_plot(Fn2, Xi, Lab2, ordmin=0, freqlim=freqlim, hide_poles=nothide_)
    judge_axes(ctx, "markers@cluster_plot(function)", "cluster_second_diagram", ax, Fn2, Lab2, lambda i, j: Xc[i, j], not hide)
    plt.close(fig)
    if nr >= 49:
        ctx.state("49 or more pole slots")
    if Fn.flags.f_contiguous and not Fn.flags.c_contiguous:
        ctx.state("column-major tables")
    fin = np.isfinite(Fn)
    if no >= 2 and (Lab[fin] == 1).any() and (Lab[fin] == 0).any():
        ctx.nontrivial(("tables", Fn.shape, step, hide, cov is not None, float(np.nansum(Fn))))
    ctx.state("hide_poles=True" if hide else "hide_poles=False")
    ctx.state(f"step={step}")
    if cov is not None:
        ctx.state("with covariance error bars")
    if freqlim:
        ctx.state("freqlim given")
    ctx.state("more rows than orders" if nr > no else "more orders than rows")
    if mask.all(axis=0).any():
        ctx.state("empty column")
    if not (Lab == 1).any():
        ctx.state("no stable pole")
    ctx.sample({"entry": "plot.stab_plot / plot.cluster_plot", "table": [nr, no], "step": step, "hide_poles": hide, "freqlim": freqlim, "with Fn_cov": cov is not None,
                "stable": int((Lab == 1).sum()), "finite": int(fin.sum())})


def judge_cmif(ctx, tag, sig, ax, S_val, freq, nSv):
    ctx.ev(tag)
    lines = [ln for ln in ax.get_lines()]
    n = S_val.shape[1] if nSv == "all" else int(nSv)
    if not ctx.check(len(lines) == n, f"{sig}:curve_count", lambda: f"{tag}: {len(lines)} curves for nSv={nSv} ({S_val.shape[1]} singular values)"):
        return
    ref = np.max(S_val[0, 0, :])
    for k, ln in enumerate(lines):
        x, y = np.asarray(ln.get_xdata(), float), np.asarray(ln.get_ydata(), float)
        exp = 10 * np.log10(S_val[k, k, :] / ref)
        ok = x.shape == freq.shape and np.array_equal(x, freq) and np.allclose(y, exp, rtol=1e-12, atol=1e-12)
        if not ok:
            own = 10 * np.log10(S_val[k, k, :] / np.max(S_val[k, k, :]))
            mech = "relative_to_own_maximum" if (k > 0 and y.shape == own.shape and np.allclose(y, own)) else ("grid" if not (x.shape == freq.shape and np.array_equal(x, freq)) else "level")
            ctx.fail(f"{sig}:curve_{mech}", f"{tag}: curve {k} is not 10 log10(S_val[{k},{k},:] / max S_val[0,0,:]) over the whole grid ({mech})")
            return


def run_cmif(ctx, rng, cube=False):
    import matplotlib.pyplot as plt
    from pyoma2.functions import plot as P_

    nch = int(rng.integers(2, 9))
    nf = int(rng.integers(5, 400))
    if cube:
        # as many spectral lines as singular values (a very short segment, or a zoomed stretch of the axis): the (n, n, n) array still has the
        # documented layout [value index, value index, line]
        nch = int(rng.integers(4, 9))
        nf = nch
        ctx.state("as many spectral lines as singular values (cubic array)")
    freq = np.arange(nf) * float(10 ** rng.uniform(-2, 1))
    S = np.sort(10 ** rng.uniform(-6, 3, (nch, nf)), axis=0)[::-1]
    S_val = np.zeros((nch, nch, nf))
    for k in range(nch):
        S_val[k, k] = S[k]
    nSv = "all" if rng.random() < 0.4 else int(rng.integers(1, nch))
    if rng.random() < 0.12:
        nSv = [0, np.int64(0)][int(rng.integers(0, 2))]  # the lowest admissible request: no curve
        ctx.state("nSv=0")
    elif nSv != "all" and rng.random() < 0.3:
        nSv = np.int64(nSv)
    freqlim = (float(freq[1]), float(freq[-2])) if rng.random() < 0.3 else None
    fig, ax = P_.CMIF_plot(S_val.copy(), freq.copy(), freqlim=freqlim, nSv=nSv)
    judge_cmif(ctx, "curves@CMIF_plot(function)", "cmif", ax, S_val, freq, nSv)
    plt.close(fig)
    ctx.state("nSv=all" if nSv == "all" else "nSv<all")
    ctx.nontrivial(("cmif", nch, nf, str(nSv)))


_CACHE = {}


def real_runs():
    if "r" not in _CACHE:
        from pyoma2.algorithms import FDD, SSIcov, pLSCF
        from pyoma2.setup import SingleSetup
        rng = np.random.default_rng(2024)
        data, fn, *_ = gen.sim_response(rng, 3, 8000, 100.0, m=3)
        ss = SingleSetup(data, 100.0)
        a = SSIcov(name="ssi", br=8, ordmax=14, calc_unc=True, nb=20)
        p = pLSCF(name="plscf", ordmax=8, nxseg=512)
        f = FDD(name="fdd", nxseg=512)
        ss.add_algorithms(a, p, f)
        ss.run_all()
        _CACHE["r"] = (ss, a, p, f, fn)
        _CACHE["S_val_after_run"] = np.array(f.result.S_val, copy=True)  # what the run stored: the reference for every later diagram
    return _CACHE["r"]


def run_classes(ctx, rng):
    import matplotlib.pyplot as plt

    ss, a, p, f, fn = real_runs()
    hide = bool(rng.integers(0, 2))
    freqlim = (2.0, 45.0) if rng.random() < 0.3 else None
    for alg, nm in ((a, "SSIcov"), (p, "pLSCF")):
        r = alg.result
        Fn, Xi, Lab = np.asarray(r.Fn_poles), np.asarray(r.Xi_poles), np.asarray(r.Lab)
        hide_ = [hide, np.bool_(hide), int(hide)][int(rng.integers(0, 3))]
        if not isinstance(hide_, bool):
            ctx.state("hide_poles given as a numpy boolean / integer / 0-d array")
        fig, ax = alg.plot_stab(freqlim=freqlim, hide_poles=hide_)
        judge_axes(ctx, f"markers@{nm}.plot_stab", f"{nm}_stab", ax, Fn, Lab, lambda i, j: j, hide)
        # the ordinate of a stable marker is an order accepted by extraction and yields that pole
        _, g = green_markers(ax)
        plt.close(fig)
        if g:
            x, y = g[int(rng.integers(0, len(g)))]
            ctx.ev("marker-order accepted by mpe")
            o = int(round(y))
            if ctx.check(abs(y - o) < 1e-9, f"{nm}:marker_ordinate_not_integer_order", lambda: f"{nm}: stable marker at ordinate {y}"):
                ss.mpe(alg.name, sel_freq=[float(x)], order=o, rtol=1e-9)
                got = np.atleast_1d(alg.result.Fn)
                ctx.check(len(got) == 1 and got[0] == x, f"{nm}:marker_order_not_accepted_by_mpe", lambda: f"{nm}: marker (f={x}, order={o}) but mpe(order={o}) returns {got}")
        fig, ax = alg.plot_cluster(freqlim=freqlim, hide_poles=hide_)
        judge_axes(ctx, f"markers@{nm}.plot_cluster", f"{nm}_cluster", ax, Fn, Lab, lambda i, j: Xi[i, j], hide)
        # the other variant while the first figure is still open
        fig2, ax2 = alg.plot_cluster(freqlim=freqlim, hide_poles=not hide)
        judge_axes(ctx, f"markers@{nm}.plot_cluster", f"{nm}_cluster_second_diagram", ax2, Fn, Lab, lambda i, j: Xi[i, j], not hide)
        plt.close(fig)
        plt.close(fig2)
        ctx.nontrivial((nm, hide, freqlim))
        if nm == "SSIcov":
            ctx.state("with covariance error bars")
    # history: other recordings analysed in the same process by algorithms of the same class, the same (default) name and the same
    # table sizes - every diagram shows the poles of the object it was asked of
    from pyoma2.algorithms import SSIcov as _S, pLSCF as _P
    from pyoma2.setup import SingleSetup as _SS
    for rep in range(2):
        d2, *_ = gen.sim_response(rng, 3, 5000, 100.0, m=int(rng.integers(2, 4)))
        s2 = _SS(d2, 100.0)
        a2, p2 = _S(br=8, ordmax=14), _P(ordmax=8, nxseg=512)
        s2.add_algorithms(a2, p2)
        s2.run_all()
        for alg2, nm2 in ((a2, "SSIcov"), (p2, "pLSCF")):
            r2 = alg2.result
            F2, X2, L2 = np.asarray(r2.Fn_poles), np.asarray(r2.Xi_poles), np.asarray(r2.Lab)
            h2 = bool(rng.integers(0, 2))
            fig, ax = alg2.plot_stab(freqlim=freqlim, hide_poles=h2)
            judge_axes(ctx, f"markers@{nm2}.plot_stab", f"{nm2}_stab_other_object_same_name", ax, F2, L2, lambda i, j: j, h2)
            fig2, ax2 = alg2.plot_cluster(freqlim=freqlim, hide_poles=h2)
            judge_axes(ctx, f"markers@{nm2}.plot_cluster", f"{nm2}_cluster_other_object_same_name", ax2, F2, L2, lambda i, j: X2[i, j], h2)
            plt.close(fig)
            plt.close(fig2)
    ctx.state("several objects of one class and name plotted in one process")
    nch = np.shape(f.result.S_val)[0]
    nSv = "all" if rng.random() < 0.5 else int(rng.integers(1, nch))
    if rng.random() < 0.15:
        nSv = 0
        ctx.state("nSv=0")
    # history: modes were extracted in between - the diagram still shows the singular values of the run
    ss.mpe("fdd", sel_freq=[float(x) for x in rng.permutation(fn)[: int(rng.integers(1, len(fn) + 1))]], DF=float(rng.choice([0.2, 0.5, 2.0])))
    ctx.state("CMIF drawn after an extraction on the same run")
    fig, ax = f.plot_CMIF(freqlim=freqlim, nSv=nSv)
    judge_cmif(ctx, "curves@FDD.plot_CMIF", "FDD_cmif", ax, _CACHE["S_val_after_run"], np.asarray(f.result.freq), nSv)
    plt.close(fig)
    ctx.state("hide_poles=True" if hide else "hide_poles=False")
    ctx.state("nSv=all" if nSv == "all" else "nSv<all")
    if freqlim:
        ctx.state("freqlim given")


def run_case(ctx, case):
    rng = gen.rng_of(case)
    if case["cls"] == "cmif" and case["k"] % 10 == 3:
        return run_cmif(ctx, rng, cube=True)
    {"tables": run_tables, "cmif": run_cmif, "classes": run_classes}[case["cls"]](ctx, rng)
