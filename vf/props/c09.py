"""C09 - Hard validation criteria are enforced soundly, completely and consistently  [P + I]."""
from __future__ import annotations

import numpy as np

from vf import gen, plumbing, probes

PID = "C09"
ANCHORS = ["pyoma2.functions.gen:HC_conj", "pyoma2.functions.gen:HC_damp", "pyoma2.functions.gen:HC_phi_comp", "pyoma2.functions.gen:HC_cov",
           "pyoma2.functions.gen:applymask", "pyoma2.algorithms.ssi:SSIdat.run", "pyoma2.algorithms.ssi:SSIdat_MS.run",
           "pyoma2.algorithms.plscf:pLSCF.run", "pyoma2.algorithms.plscf:pLSCF_MS.run"]
ALGS = ["SSIcov", "SSIdat", "SSIcov_MS", "SSIdat_MS", "pLSCF", "pLSCF_MS"]
REQUIRED_MONITORS = [f"sound+complete@{a}.run" for a in ALGS] + [f"one-NaN-pattern@{a}.run" for a in ALGS] + ["conj-injection@run", "HC_conj(function)", "HC_phi_comp(function)", "sound+complete@SSIcov.run(calc_unc)"]
CRIT = ["conj", "xi", "mpc", "mpd", "cov"]
ALL_STATES = [f"fails {c} alone" for c in CRIT] + ["fails several", "passes all", "conj=False keeps orphan", "ordmin > 0"]
REQUIRED_STATES = ["two-component shapes (MPC = 1 up to rounding)", "two-channel records", "pole tables with more than 4096 slots", "criteria given as numpy scalars / 0-d arrays / integers", "same instance re-run with relaxed criteria", "ordmin > 0", "fails xi alone", "fails mpc alone", "fails mpd alone", "fails cov alone", "fails conj alone", "passes all", "conj=False keeps orphan",
                   "relaxed mpd_lim in [0.5, 1.2] with mpc_lim = 0", "mpd_lim = 0", "mpc_lim = 1", "result tables re-examined after plotting with freqlim", "same instance run twice with the same criteria",
                   "limits a relative 1e-6 beside the indicators of existing poles"]
RULE = ("noisy responses of systems with complex non-proportional shapes, high model orders (many spurious, negatively damped and real poles); a first "
        "run observes the indicator distributions of the unfiltered solution (captured at the return of SSI_poles / pLSCF_poles in the same "
        "execution), later runs put xi_max / mpc_lim / mpd_lim / cov_max at their 30..70 % quantiles; every cell of every run is judged for "
        "soundness, completeness and the shared NaN pattern with the oracle's own MPC / MPD / conjugate tests; the conjugate criterion is "
        "exercised by blanking the partner of a few poles at the probe (fault injection); a run is non-trivial when, for every enabled "
        "criterion, some pole fails that criterion alone; distinct by (algorithm, thresholds, data seed)")
ASSUMPTIONS = ["poles whose indicator lies within relative 1e-9 of a threshold, or whose own-oracle indicator is NaN, are not judged",
               "conjugate partner in another column only: not judged (the statement does not say whether the partner must be of the same order)"]


PLUMB_CLASSES = ['SSIcov', 'SSIdat', 'pLSCF', 'SSIcov_MS', 'pLSCF_MS']
PLUMB_FIELDS = ['Fn_poles', 'Xi_poles', 'Phi_poles', 'Lambds', 'Fn_poles_cov', 'Xi_poles_cov', 'Phi_poles_cov']
REQUIRED_MONITORS = list(REQUIRED_MONITORS) + [f"plumbing:{s_}" for s_ in plumbing.SCENARIOS]
REQUIRED_STATES = list(REQUIRED_STATES) + [f"plumbing scenario {s_}" for s_ in plumbing.SCENARIOS]


def cases(tier, seed):
    return _cases(tier, seed) + plumbing.cases(len(plumbing.SCENARIOS) * len(PLUMB_CLASSES) * (1 if tier == "quick" else 6), PLUMB_CLASSES)


def _cases(tier, seed):
    n, ninj, nfn = (30, 12, 40) if tier == "quick" else (300, 120, 800)
    out = []
    for k in range(n):
        out.append({"cls": "adaptive_thresholds", "alg": ALGS[k % len(ALGS)], "k": k})
    # tables with thousands of pole slots (SSI order 66, pLSCF order 33): whatever is done in blocks or batches has to reach the last slot
    out += [{"cls": "adaptive_thresholds", "alg": a_, "k": 900 + j_, "large": True} for j_, a_ in enumerate(["SSIcov", "pLSCF"] if tier == "quick" else ALGS)]
    out += [{"cls": "calc_unc", "k": k} for k in range(4 if tier == "quick" else 40)]
    out += [{"cls": "conj_injection", "alg": ["SSIcov", "pLSCF", "SSIdat", "SSIcov_MS", "pLSCF_MS", "SSIdat_MS"][k % 6], "k": k} for k in range(ninj)]
    out += [{"cls": "hc_conj_function", "k": k} for k in range(nfn)]
    out += [{"cls": "hc_phi_comp_function", "k": k} for k in range(20 if tier == "quick" else 300)]
    return out


# ------------------------------------------------------------------------------- the oracle's own indicators
def own_mpc(phi):
    x = phi.real - phi.real.mean()
    y = phi.imag - phi.imag.mean()
    sxx, syy, sxy = np.dot(x, x), np.dot(y, y), np.dot(x, y)
    den = (sxx + syy) ** 2
    return ((sxx - syy) ** 2 + 4 * sxy**2) / den if den > 0 else np.nan


def own_mpd(phi):
    x, y = phi.real, phi.imag
    M = np.array([[np.dot(x, x), np.dot(x, y)], [np.dot(x, y), np.dot(y, y)]])
    w_, V = np.linalg.eigh(M)
    d = V[:, 1]  # principal direction of the scatter of the components in the complex plane
    mod = np.abs(phi)
    if mod.sum() == 0:
        return np.nan
    nz = mod > 0
    c = np.clip(np.abs(x[nz] * d[0] + y[nz] * d[1]) / mod[nz], 0, 1)
    return float(np.sum(mod[nz] * np.arccos(c)) / mod.sum())


def near(v, t):
    return abs(v - t) <= 1e-9 * max(abs(t), 1e-300)


def classify(unf, hc, has_cov):
    """per-cell verdicts of the unfiltered solution: dict crit -> (pass mask, judged mask)."""
    F, X, P, L = unf["Fn"], unf["Xi"], unf["Phi"], unf["Lambds"]
    fin = np.isfinite(F)
    nr, nc = F.shape
    res = {}
    # conjugate
    cp = np.ones((nr, nc), bool)
    cj = np.ones((nr, nc), bool)
    if hc.get("conj", False) and L is not None:
        allv = set(L[np.isfinite(L.real)].tolist()) if np.iscomplexobj(L) else set()
        for j in range(nc):
            col = set(L[fin[:, j], j].tolist())
            for i in np.where(fin[:, j])[0]:
                c = complex(np.conj(L[i, j]))
                if c in col:
                    cp[i, j] = True
                elif c in allv:
                    cj[i, j] = False
                else:
                    cp[i, j] = False
    res["conj"] = (cp, cj)
    xm = hc["xi_max"]
    with np.errstate(invalid="ignore"):
        xp = (X > 0) & (X < xm)
        xj = ~(np.isclose(X, xm, rtol=1e-9, atol=0) | (np.abs(X) < 1e-300))
    res["xi"] = (xp, xj | ~fin)
    mpc = np.full((nr, nc), np.nan)
    mpd = np.full((nr, nc), np.nan)
    for i, j in np.argwhere(fin):
        if np.all(np.isfinite(P[i, j])):
            mpc[i, j] = own_mpc(P[i, j])
            mpd[i, j] = own_mpd(P[i, j])
    with np.errstate(invalid="ignore"):
        res["mpc"] = (mpc >= hc["mpc_lim"], np.isfinite(mpc) & ~np.isclose(mpc, hc["mpc_lim"], rtol=1e-9, atol=1e-12))
        res["mpd"] = (mpd <= hc["mpd_lim"], np.isfinite(mpd) & ~np.isclose(mpd, hc["mpd_lim"], rtol=1e-9, atol=1e-12))
    if has_cov and unf.get("Fn_cov") is not None:
        C = unf["Fn_cov"]
        with np.errstate(invalid="ignore"):
            res["cov"] = ((C < hc["cov_max"]) & (C != 0), np.isfinite(C) & ~np.isclose(C, hc["cov_max"], rtol=1e-9, atol=0))
    res["_ind"] = dict(mpc=mpc, mpd=mpd)
    return res


def judge_run(ctx, name, unf, result, hc, has_lambds, tagsuffix=""):
    F0 = unf["Fn"]
    fin0 = np.isfinite(F0)
    has_cov = unf.get("Fn_cov") is not None
    F, X, P = np.asarray(result.Fn_poles), np.asarray(result.Xi_poles), np.asarray(result.Phi_poles)
    if not ctx.check(F.shape == F0.shape and X.shape == F0.shape and P.shape == unf["Phi"].shape, "shape", lambda: f"{name}: filtered tables {F.shape} vs unfiltered {F0.shape}"):
        return None
    # one NaN pattern
    ctx.ev(f"one-NaN-pattern@{name}.run")
    pat = np.isnan(F)
    tabs = {"Xi_poles": np.isnan(X), "Phi_poles(any component)": np.isnan(P).any(axis=2), "Phi_poles(all components)": np.isnan(P).all(axis=2)}
    if has_lambds and getattr(result, "Lambds", None) is not None:
        tabs["Lambds"] = np.isnan(np.asarray(result.Lambds))
    if has_cov:
        tabs["Fn_poles_cov"] = np.isnan(np.asarray(result.Fn_poles_cov))
        tabs["Xi_poles_cov"] = np.isnan(np.asarray(result.Xi_poles_cov))
    for tn, tp in tabs.items():
        if not np.array_equal(tp, pat):
            i, j = np.argwhere(tp != pat)[0]
            ctx.fail(f"nan_pattern:{tn.split('(')[0]}", f"{name}: table {tn} and Fn_poles disagree about which poles are blanked, e.g. cell ({i},{j}): Fn {'NaN' if pat[i,j] else 'kept'}, {tn} {'NaN' if tp[i,j] else 'kept'} ({int((tp != pat).sum())} cells)")
    cl = classify(unf, hc, has_cov)
    crits = [c for c in CRIT if c in cl and (c != "conj" or hc.get("conj", False))]
    kept = ~pat
    ctx.ev(f"sound+complete@{name}.run{tagsuffix}", int(fin0.sum()))
    # a kept pole must be an unfiltered pole with unchanged values
    newp = kept & ~fin0
    ctx.check(not newp.any(), "soundness:pole_not_in_unfiltered_solution", lambda: f"{name}: {int(newp.sum())} retained cells are not poles of the unfiltered solution")
    both = kept & fin0
    same_vals = np.array_equal(F[both], F0[both]) and np.array_equal(X[both], unf["Xi"][both]) and np.array_equal(P[both], unf["Phi"][both])
    ctx.check(same_vals, "completeness:values_changed", f"{name}: retained poles do not carry the values of the unfiltered solution")
    if has_lambds and getattr(result, "Lambds", None) is not None and unf.get("Lambds") is not None:
        Lr, L0 = np.asarray(result.Lambds), np.asarray(unf["Lambds"])
        if Lr.shape == L0.shape:
            kl = both & np.isfinite(L0) & ~np.isnan(Lr)
            ctx.check(np.array_equal(Lr[kl], L0[kl]), "completeness:eigenvalues_changed", lambda: f"{name}: the eigenvalue table of the retained poles differs from the unfiltered solution "
                      f"(largest difference {np.max(np.abs(Lr[kl] - L0[kl])):.3g}; dtype {Lr.dtype})")
    npass = np.zeros(F0.shape, int)
    judged_all = np.ones(F0.shape, bool)
    for c in crits:
        p, jd = cl[c]
        judged_all &= jd
        npass += p.astype(int)
        bad = both & ~p & jd
        if bad.any():
            i, j = np.argwhere(bad)[0]
            val = {"xi": unf["Xi"][i, j], "mpc": cl["_ind"]["mpc"][i, j], "mpd": cl["_ind"]["mpd"][i, j], "cov": (unf.get("Fn_cov")[i, j] if has_cov else None), "conj": unf["Lambds"][i, j] if unf["Lambds"] is not None else None}[c]
            ctx.fail(f"soundness:{c}", f"{name}: {int(bad.sum())} retained poles violate the {c} criterion, e.g. cell ({i},{j}) {c}={val!r} with limits {hc}")
    allpass = fin0 & (npass == len(crits)) & judged_all
    missing = allpass & ~kept
    if missing.any():
        i, j = np.argwhere(missing)[0]
        ctx.fail("completeness:pole_rejected_although_all_criteria_hold", f"{name}: {int(missing.sum())} poles satisfying every enabled criterion were blanked, e.g. cell ({i},{j}) "
                 f"xi={unf['Xi'][i,j]:.4g} mpc={cl['_ind']['mpc'][i,j]:.4g} mpd={cl['_ind']['mpd'][i,j]:.4g} limits {hc}")
    ctx.not_judged("pole at a threshold / undefined indicator / partner in another column", int((fin0 & ~judged_all).sum()))
    # abstract states
    j = fin0 & judged_all
    ctx.state("passes all", int((j & (npass == len(crits))).sum()))
    ctx.state("fails several", int((j & (npass < len(crits) - 1)).sum()))
    alone = {}
    for c in crits:
        a = j & (npass == len(crits) - 1) & ~cl[c][0]
        alone[c] = int(a.sum())
        ctx.state(f"fails {c} alone", alone[c])
    ctx.state("criterion set {" + ",".join(crits) + "}")
    return alone, cl


# ------------------------------------------------------------------------------- drivers
def make_data(rng, ms, two=False):
    nch = int(rng.integers(4, 6))
    if two and not ms:
        nch = 2  # two sensors: the real and imaginary parts of every shape are two points, always on a line (MPC = 1 up to rounding, either side)
    fs = 100.0
    data, *_ = gen.sim_response(rng, nch, int(rng.integers(4000, 6000)), fs, m=3, xi_rng=(0.01, 0.04), noise=0.2, complex_modes=True, minsep=0.06)
    if ms:
        h = len(data) // 2
        return fs, None, [[0, 1], [nch - 2, nch - 3]], [data[:h].copy(), data[h:, : nch - 1][:, ::-1].copy()]
    return fs, data, None, None


def _note(ctx):
    if getattr(build, "exotic", False):
        ctx.state("criteria given as numpy scalars / 0-d arrays / integers")
    build.exotic = False


def build(alg, fs, data, ref, datasets, hc, rng, extra=None):
    from pyoma2 import algorithms as A_
    from pyoma2.setup import MultiSetup_PreGER, SingleSetup

    cls = getattr(A_, alg)
    if rng.random() < 0.5:
        hc = {k: hc[k] for k in [str(x) for x in rng.permutation(list(hc))]}  # the criteria are named: any key order means the same
    if rng.random() < 0.4:
        # the criteria come out of a user's dictionary untouched: a flag is on when it is truthy, a limit is its numeric value, whatever the number type
        hc = dict(hc)
        for k_, v_ in list(hc.items()):
            if k_ == "conj":
                hc[k_] = [np.bool_(bool(v_)), int(bool(v_)), np.array(bool(v_))][int(rng.integers(0, 3))]
            elif v_ is not None:
                f32 = np.float32(v_)
                opts = [np.array(float(v_)), np.float64(v_)]
                if float(f32) == float(v_):
                    opts.append(f32)
                if float(v_) == int(float(v_)):
                    opts.append(np.int64(int(float(v_))))
                hc[k_] = opts[int(rng.integers(0, len(opts)))]
        build.exotic = True
    if alg.startswith("pLSCF"):
        h = {k: v for k, v in hc.items() if k != "cov_max"}
        kw = dict(ordmax=int(extra.get("ordmax", 9)), nxseg=256, hc=h, method_SD=extra.get("method_SD", "per"), ordmin=int(extra.get("ordmin", 0)))
    else:
        kw = dict(br=int(extra.get("br", 10)), ordmax=int(extra.get("ordmax", 22)), hc=dict(hc), ordmin=int(extra.get("ordmin", 0)))
        if alg.endswith("_MS"):
            kw["ordmax"] = min(kw["ordmax"], (kw["br"] + 1) * len(ref[0]) - 2)
        elif extra.get("ref_ind"):
            kw["ordmax"] = min(kw["ordmax"], (kw["br"] + 1) * len(extra["ref_ind"]) - 2)
        kw.update({k: v for k, v in extra.items() if k in ("calc_unc", "nb", "ref_ind", "method")})
    a = cls(name="a", **kw)
    if alg.endswith("_MS"):
        s = MultiSetup_PreGER(fs, [list(r) for r in ref], [d.copy() for d in datasets])
    else:
        s = SingleSetup(data.copy(), fs)
    s.add_algorithms(a)
    return s, a


def capture(alg, inject=None):
    """context manager: records the unfiltered tables returned by the pole routine inside run()."""
    import contextlib

    import pyoma2.functions.plscf as P_
    import pyoma2.functions.ssi as S_

    store = {}

    @contextlib.contextmanager
    def cm():
        if alg.startswith("pLSCF"):
            orig = P_.pLSCF_poles

            def spy(*a, **k):
                Fn, Xi, Phi, Lam = orig(*a, **k)
                if inject:
                    Fn, Xi, Phi, Lam, _, _ = inject(Fn, Xi, Phi, Lam, None, None)
                store.update(Fn=np.array(Fn), Xi=np.array(Xi), Phi=np.array(Phi), Lambds=np.array(Lam), Fn_cov=None)
                return Fn, Xi, Phi, Lam

            with probes.patched(P_, "pLSCF_poles", spy):
                yield store
        else:
            orig = S_.SSI_poles

            def spy(*a, **k):
                Fn, Xi, Phi, Lam, Fc, Xc, Pc = orig(*a, **k)
                if inject:
                    Fn, Xi, Phi, Lam, Fc, Xc = inject(Fn, Xi, Phi, Lam, Fc, Xc)
                store.update(Fn=np.array(Fn), Xi=np.array(Xi), Phi=np.array(Phi), Lambds=np.array(Lam), Fn_cov=None if Fc is None else np.array(Fc),
                             Xi_cov=None if Xc is None else np.array(Xc))
                return Fn, Xi, Phi, Lam, Fc, Xc, Pc

            with probes.patched(S_, "SSI_poles", spy):
                yield store

    return cm()


NEUTRALISH = dict(conj=False, xi_max=0.1, mpc_lim=0.7, mpd_lim=0.3, cov_max=0.2)


def run_adaptive(ctx, case, rng, calc_unc=False):
    alg = "SSIcov" if calc_unc else case["alg"]
    two = (not calc_unc) and (not alg.endswith("_MS")) and case["k"] % 7 == 3 and not case.get("large")
    fs, data, ref, datasets = make_data(rng, alg.endswith("_MS"), two)
    if two:
        ctx.state("two-channel records")
    extra = dict(ordmax=(8 if alg.startswith("pLSCF") else (10 if calc_unc else int(rng.integers(16, 26)))))
    # the criteria hold "at every model order": also below ordmin, which only limits the stability labels
    extra["ordmin"] = int(rng.choice([0, 0, 3, 6]))
    if extra["ordmin"]:
        ctx.state("ordmin > 0")
    if case.get("large"):
        extra.update(ordmax=33) if alg.startswith("pLSCF") else extra.update(ordmax=66, br=18)
        ctx.state("pole tables with more than 4096 slots")
    if calc_unc:
        extra.update(calc_unc=True, nb=int(rng.choice([10, 20])), br=6, method="cov_mm")
    if two and not alg.startswith("pLSCF"):
        extra.update(ordmax=14, br=10)
    elif alg in ("SSIcov", "SSIdat") and not calc_unc and rng.random() < 0.5 and not case.get("large"):
        extra["ref_ind"] = [0, 2]
    if alg.startswith("pLSCF"):
        extra["method_SD"] = "per" if rng.random() < 0.6 else "cor"
    # pass 1: default thresholds, observe the indicator distributions of the unfiltered solution
    s, a = build(alg, fs, data, ref, datasets, dict(NEUTRALISH, conj=True), rng, extra)
    _note(ctx)
    with capture(alg) as unf:
        s.run_all()
    if not unf:
        ctx.inconc(f"{alg}: pole routine not reached through the module attribute")
        return
    hc1 = dict(NEUTRALISH, conj=True)
    if alg.startswith("pLSCF"):
        hc1.pop("cov_max")
    suffix = "(calc_unc)" if calc_unc else ""
    r = judge_run(ctx, alg, unf, a.result, hc1, not alg.startswith("pLSCF"), suffix)
    if r is None:
        return
    _, cl = r
    fin = np.isfinite(unf["Fn"])
    X = unf["Xi"][fin]
    q = lambda v, p: float(np.nanquantile(v, p))  # noqa: E731
    qs = rng.choice([0.3, 0.5, 0.7], 4)
    hc2 = dict(conj=bool(rng.random() < 0.5), xi_max=q(X[X > 0], qs[0]) if (X > 0).any() else 0.1, mpc_lim=q(cl["_ind"]["mpc"][fin], 1 - qs[1]),
               mpd_lim=q(cl["_ind"]["mpd"][fin], qs[2]), cov_max=0.2)
    if calc_unc and unf.get("Fn_cov") is not None:
        hc2["cov_max"] = q(unf["Fn_cov"][fin], qs[3])
    if rng.random() < 0.3:
        # a limit placed a relative 1e-6 beside the indicator of an existing pole (on the rejecting side): 1e-6 is far outside the 1e-9
        # band in which the statement leaves the decision open, so that pole must go
        mp, mc = cl["_ind"]["mpd"][fin], cl["_ind"]["mpc"][fin]
        mp, mc = mp[np.isfinite(mp) & (mp > 0)], mc[np.isfinite(mc) & (mc > 0) & (mc < 1)]
        if len(mp) and len(mc):
            hc2["mpd_lim"] = float(np.sort(mp)[int(rng.integers(0, max(1, len(mp) // 2)))] * (1 - 1e-6))
            hc2["mpc_lim"] = float(np.sort(mc)[int(rng.integers(len(mc) // 2, len(mc)))] * (1 + 1e-6))
            ctx.state("limits a relative 1e-6 beside the indicators of existing poles")
    if alg.startswith("pLSCF"):
        hc2.pop("cov_max")
    s2, a2 = build(alg, fs, data, ref, datasets, hc2, rng, extra)
    _note(ctx)
    with capture(alg) as unf2:
        s2.run_all()
    r2 = judge_run(ctx, alg, unf2, a2.result, hc2, not alg.startswith("pLSCF"), suffix)
    if r2 is None:
        return
    alone, _ = r2
    # history: looking at the diagrams (with a frequency window) must leave the result tables what the criteria made them
    if rng.random() < 0.5:
        import matplotlib.pyplot as plt
        fl = (float(0.1 * fs), float(0.3 * fs))
        for meth in ("plot_stab", "plot_cluster"):
            try:
                getattr(a2, meth)(freqlim=fl, hide_poles=bool(rng.integers(0, 2)))
            except Exception:  # noqa: BLE001  the diagrams are C20's business
                pass
        plt.close("all")
        ctx.state("result tables re-examined after plotting with freqlim")
        if judge_run(ctx, alg, unf2, a2.result, hc2, not alg.startswith("pLSCF"), suffix) is None:
            return
    # history: the same instance simply run again (run_all re-runs everything): same criteria, same tables; the dictionary the
    # criteria were given in is still what it was
    if rng.random() < 0.5:
        with capture(alg) as unf2b:
            s2.run_all()
        ctx.state("same instance run twice with the same criteria")
        ctx.check(dict(a2.run_params.hc) == dict(hc2), "history:criteria_dictionary_changed_by_run", lambda: f"{alg}: run_params.hc is {a2.run_params.hc!r} after running, given {hc2!r}")
        if judge_run(ctx, alg, unf2b if unf2b else unf2, a2.result, hc2, not alg.startswith("pLSCF"), suffix) is None:
            return
    # history: the SAME algorithm instance re-run with relaxed criteria must give what a fresh instance gives (completeness on re-run)
    hc3 = dict(hc2, xi_max=min(1.0, 3 * hc2["xi_max"]), mpc_lim=0.5 * hc2["mpc_lim"], mpd_lim=min(1.57, 2 * hc2["mpd_lim"]))
    a2.run_params.hc = dict(hc3)
    with capture(alg) as unf3:
        s2.run_all()
    ctx.state("same instance re-run with relaxed criteria")
    # the unfiltered solution depends on data and identification settings only, both unchanged: if the re-run does not pass the
    # probe again (an implementation may cache the identification) the solution captured by the previous run is the reference
    judge_run(ctx, alg, unf3 if unf3 else unf2, a2.result, hc3, not alg.startswith("pLSCF"), suffix)
    # thresholds at the ends of their ranges / strongly relaxed (each criterion then decides alone over the whole unfiltered solution)
    u = int(rng.integers(0, 4))
    if u == 0:
        hc4 = dict(hc2, conj=False, xi_max=1.0, mpc_lim=0.0, mpd_lim=float(rng.uniform(0.5, 1.2)))
        ctx.state("relaxed mpd_lim in [0.5, 1.2] with mpc_lim = 0")
    elif u == 1:
        hc4 = dict(hc2, conj=False, xi_max=1.0, mpc_lim=0, mpd_lim=(0 if rng.random() < 0.5 else 0.0))
        ctx.state("mpd_lim = 0")
    elif u == 2:
        hc4 = dict(hc2, conj=False, xi_max=1.0, mpc_lim=1.0, mpd_lim=np.pi / 2)
        ctx.state("mpc_lim = 1")
    else:
        hc4 = dict(hc2, conj=True, xi_max=float(rng.choice([1e-6, 1.0])), mpc_lim=0.0, mpd_lim=np.pi / 2)
        ctx.state("only conj / xi_max active")
    s4, a4 = build(alg, fs, data, ref, datasets, hc4, rng, extra)
    _note(ctx)
    with capture(alg) as unf4:
        s4.run_all()
    judge_run(ctx, alg, unf4, a4.result, hc4, not alg.startswith("pLSCF"), suffix)
    need = [c for c in ("xi", "mpc", "mpd") + (("cov",) if calc_unc else ())]
    if all(alone.get(c, 0) > 0 for c in need):
        ctx.nontrivial((alg, calc_unc, tuple(round(v, 5) if isinstance(v, float) else v for v in hc2.values())))
    ctx.sample({"entry": f"{alg}.run through a setup", "thresholds (adaptive)": {k: (round(v, 5) if isinstance(v, float) else v) for k, v in hc2.items()},
                "unfiltered poles": int(fin.sum()), "retained": int(np.isfinite(a2.result.Fn_poles).sum()), "poles failing exactly one criterion": alone})


def run_injection(ctx, case, rng):
    alg = case["alg"]
    fs, data, ref, datasets = make_data(rng, alg.endswith("_MS"))
    extra = dict(ordmax=(8 if alg.startswith("pLSCF") else 18))
    orph = {}

    def inject(Fn, Xi, Phi, Lam, Fc, Xc):
        Fn, Xi, Phi, Lam = np.array(Fn), np.array(Xi), np.array(Phi), np.array(Lam)
        Fc = None if Fc is None else np.array(Fc)
        Xc = None if Xc is None else np.array(Xc)
        r = np.random.default_rng(int(case["k"]) + 17)
        cand = [(i, j) for i, j in np.argwhere(np.isfinite(Fn)) if abs(Lam[i, j].imag) > 0 and 0 < Xi[i, j] < 0.08]
        r.shuffle(cand)
        done = []
        for i, j in cand[:6]:
            col = Lam[:, j]
            p = [ii for ii in range(len(col)) if np.isfinite(Fn[ii, j]) and col[ii] == np.conj(Lam[i, j])]
            if len(p) == 1 and (p[0], j) not in done and (i, j) not in [(a, b) for a, b in done]:
                ii = p[0]
                Fn[ii, j] = np.nan
                Xi[ii, j] = np.nan
                Phi[ii, j, :] = np.nan
                Lam[ii, j] = np.nan
                if Fc is not None:
                    Fc[ii, j] = np.nan
                    Xc[ii, j] = np.nan
                done.append((i, j))
        orph["cells"] = done
        return Fn, Xi, Phi, Lam, Fc, Xc

    loose = dict(xi_max=0.5, mpc_lim=0.0, mpd_lim=2.0, cov_max=1e9)
    for conj in (True, False):
        hc = dict(loose, conj=conj)
        if alg.startswith("pLSCF"):
            hc.pop("cov_max")
        s, a = build(alg, fs, data, ref, datasets, hc, rng, extra)
        _note(ctx)
        with capture(alg, inject) as unf:
            s.run_all()
        ctx.ev("conj-injection@run")
        cells = orph.get("cells", [])
        if not cells:
            ctx.not_judged("no pole pair suitable for orphaning")
            continue
        F = a.result.Fn_poles
        kept = [bool(np.isfinite(F[i, j])) for i, j in cells]
        if conj:
            ctx.check(not any(kept), "soundness:conj:orphan_kept", lambda: f"{alg} conj=True: {sum(kept)} of {len(cells)} poles whose conjugate partner is absent were retained")
            r = judge_run(ctx, alg, unf, a.result, hc, not alg.startswith("pLSCF"))
            if r:
                ctx.state("fails conj alone", r[0].get("conj", 0))
        else:
            ctx.check(all(kept), "completeness:conj_disabled_but_orphan_rejected", lambda: f"{alg} conj=False: {len(cells)-sum(kept)} orphaned poles were rejected although the conjugate criterion is off")
            if all(kept):
                ctx.state("conj=False keeps orphan")
            judge_run(ctx, alg, unf, a.result, hc, not alg.startswith("pLSCF"))
        ctx.nontrivial(("inject", alg, conj, len(cells), case["k"]))


def run_phi_comp_fn(ctx, rng, case):
    """gen.HC_phi_comp on tables of shapes with 2..6 components: the two masks are exactly 'MPD <= limit' and 'MPC >= limit' wherever the
    indicator is not within 1e-9 of its limit - in particular for two-component shapes, whose MPC is 1 up to rounding on either side."""
    from pyoma2.functions import gen as G_

    nch = [2, 2, 3, 5, 6][case["k"] % 5]
    nr, no = int(rng.integers(3, 40)), int(rng.integers(2, 12))
    Phi = rng.standard_normal((nr, no, nch)) + 1j * rng.standard_normal((nr, no, nch)) * float(rng.choice([1.0, 0.2, 1e-3]))
    Phi = Phi * np.exp(1j * rng.uniform(0, 2 * np.pi, (nr, no, 1)))
    Phi[rng.random((nr, no)) < 0.2] = np.nan
    mpc_lim = [0.0, 0.5, 0.9, 1.0][int(rng.integers(0, 4))] if rng.random() < 0.7 else float(rng.uniform(0, 1))
    mpd_lim = [0.3, 1.0, float(np.pi / 2)][int(rng.integers(0, 3))] if rng.random() < 0.7 else float(rng.uniform(0, np.pi / 2))
    keep = Phi.copy()
    m_mpd, m_mpc = G_.HC_phi_comp(Phi, mpc_lim, mpd_lim)
    ctx.ev("HC_phi_comp(function)")
    ctx.check(np.array_equal(Phi, keep, equal_nan=True), "phi_comp_fn:input_modified", "HC_phi_comp modified the shape table it was given")
    if not ctx.check(np.shape(m_mpd) == (nr, no) and np.shape(m_mpc) == (nr, no), "phi_comp_fn:shape", lambda: f"mask shapes {np.shape(m_mpd)} {np.shape(m_mpc)} for a table {(nr, no)}"):
        return
    bad = []
    for i in range(nr):
        for j in range(no):
            if np.isnan(Phi[i, j, 0]):
                continue
            c_, d_ = own_mpc(Phi[i, j]), own_mpd(Phi[i, j])
            if abs(c_ - mpc_lim) > 1e-9 and bool(m_mpc[i, j]) != (c_ >= mpc_lim):
                bad.append(("mpc", i, j, c_))
            if abs(d_ - mpd_lim) > 1e-7 and bool(m_mpd[i, j]) != (d_ <= mpd_lim):
                bad.append(("mpd", i, j, d_))
    if nch == 2:
        ctx.state("two-component shapes (MPC = 1 up to rounding)")
    ctx.check(not bad, f"phi_comp_fn:mask_is_not_the_comparison:{bad[0][0] if bad else ''}",
              lambda: f"HC_phi_comp({nch} components, mpc_lim={mpc_lim}, mpd_lim={mpd_lim:.4f}): {len(bad)} mask entries are not the comparison of the indicator with its limit, e.g. {bad[0]}")
    ctx.nontrivial(("phi_comp_fn", nch, nr, no, mpc_lim, round(mpd_lim, 6)))


def run_conj_fn(ctx, rng):
    from pyoma2.functions import gen as G_

    nr, nc = int(rng.integers(2, 10)), int(rng.integers(1, 8))
    L = np.full((nr, nc), np.nan, complex)
    exp = np.zeros((nr, nc), bool)
    jd = np.ones((nr, nc), bool)
    for j in range(nc):
        rows = list(rng.permutation(nr))
        while len(rows) >= 2 and rng.random() < 0.7:
            a, b = rows.pop(), rows.pop()
            z = complex(rng.standard_normal(), abs(rng.standard_normal()) + 0.1)
            kind = rng.random()
            if kind < 0.6:
                L[a, j], L[b, j] = z, np.conj(z)
                exp[a, j] = exp[b, j] = True
            elif kind < 0.8:
                L[a, j] = z  # orphan
            else:
                L[a, j] = complex(rng.standard_normal(), 0.0)  # real pole: its own conjugate
                exp[a, j] = True
    # partner in another column only -> not judged
    if nc >= 2 and rng.random() < 0.3:
        z = complex(1.234, 5.678)
        free0 = np.where(np.isnan(L[:, 0]))[0]
        free1 = np.where(np.isnan(L[:, 1]))[0]
        if len(free0) and len(free1):
            L[free0[0], 0], L[free1[0], 1] = z, np.conj(z)
            jd[free0[0], 0] = jd[free1[0], 1] = False
    Lc = L.copy()
    filt, mask = G_.HC_conj(L)
    ctx.ev("HC_conj(function)")
    fin = np.isfinite(L.real)
    ctx.check(np.array_equal(L, Lc, equal_nan=True), "hc_conj:input_modified", "HC_conj modified its input")
    mask = np.asarray(mask).astype(bool)
    bad = fin & jd & (mask != exp)
    if bad.any():
        i, j = np.argwhere(bad)[0]
        ctx.fail("hc_conj:" + ("orphan_accepted" if mask[i, j] else "paired_rejected"), f"HC_conj: cell ({i},{j}) value {L[i,j]} mask {mask[i,j]} expected {exp[i,j]}")
    ok_f = np.array_equal(np.isnan(filt), ~mask | ~fin) or np.array_equal(np.isnan(filt), ~(mask & fin))
    ctx.check(ok_f and np.array_equal(filt[mask & fin], L[mask & fin]), "hc_conj:filtered_table", "HC_conj: filtered table is not the input where the mask holds and NaN elsewhere")
    if fin.sum() >= 3 and exp.any() and (~exp & fin).any():
        ctx.nontrivial(("conjfn", nr, nc, int(exp.sum())))


def run_case(ctx, case):
    if case["cls"] == "plumbing":
        return plumbing.run_case(ctx, case, gen.rng_of(case), PLUMB_FIELDS)
    rng = gen.rng_of(case)
    if case["cls"] == "adaptive_thresholds":
        run_adaptive(ctx, case, rng)
    elif case["cls"] == "calc_unc":
        run_adaptive(ctx, case, rng, calc_unc=True)
    elif case["cls"] == "conj_injection":
        run_injection(ctx, case, rng)
    elif case["cls"] == "hc_phi_comp_function":
        run_phi_comp_fn(ctx, rng, case)
    else:
        run_conj_fn(ctx, rng)
