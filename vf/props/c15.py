"""C15 - Runs are gated, deterministic, isolated, persistent; PoSER validates inputs  [H + I]."""
from __future__ import annotations

import copy
import itertools
import os
import pickle
import tempfile

import numpy as np

from vf import gen, plumbing, probes

PID = "C15"
ANCHORS = ["pyoma2.algorithms.base:BaseAlgorithm._pre_run", "pyoma2.algorithms.base:BaseAlgorithm._set_data", "pyoma2.algorithms.base:BaseAlgorithm._set_result",
           "pyoma2.setup.base:BaseSetup.add_algorithms", "pyoma2.setup.base:BaseSetup.run_by_name", "pyoma2.setup.base:BaseSetup.run_all", "pyoma2.setup.base:BaseSetup.mpe",
           "pyoma2.setup.multi:MultiSetup_PoSER._init_setups", "pyoma2.functions.gen:save_to_file", "pyoma2.functions.gen:load_from_file"]
REQUIRED_MONITORS = ["step@history(pre-processing between two additions)", "pickle-round-trip(several files)", "step@history(algorithm replaced under its name)", "step@history(enumerated)", "step@history(sampled, six classes)", "step@history(PreGER)", "pickle-round-trip", "PoSER-constructor-outcome"]
ALL_STATES = ["run without parameters rejected", "mpe before run rejected", "run of an algorithm never added rejected", "re-run after mpe clears extraction", "run repeated",
              "run_all with a parameterless algorithm", "algorithm re-added", "PoSER accepted", "PoSER rejected: <2 setups", "PoSER rejected: empty setup",
              "PoSER rejected: types differ", "PoSER rejected: order differs", "PoSER rejected: subclass instead of class", "PoSER rejected: names length",
              "PoSER rejected: not run", "PoSER rejected: run but no mpe"]
REQUIRED_STATES = ["PoSER: ragged lists whose concatenation repeats the first list", "algorithm keeps the records bound when it was added", "another algorithm object added under an existing name", "several setups saved under similar file names"] + [s for s in ALL_STATES]
RULE = ("histories over {add(a), run_by_name(a), mpe(a), run_all} for pools of three algorithm instances (two pools covering FDD, EFDD, FSDD, SSIcov, SSIdat, "
        "pLSCF; one pool member may lack run parameters): ALL sequences up to length 3 (quick) / 4 (thorough), sampled length-5 histories over all six "
        "classes and over the PreGER variants; after every call the outcome (exception or not), the digest of every algorithm's result, and checksums of "
        "the shared data are compared with a model whose expected digests come from the same algorithm run alone once on a fresh setup; PoSER "
        "constructor: every assignment of type lists from 7 templates to 0..3 setups (sampled for 4), name lists of length 0..3, one algorithm at a "
        "time in state not-run / run-without-mpe; non-trivial = history in which some algorithm ran; distinct = distinct history / configuration")
ASSUMPTIONS = ["results are bitwise reproducible in one process (measured); differing digests are re-compared at 1e-9 before being reported",
               "which exception type signals a gated call is not prescribed (ValueError, AttributeError, KeyError all observed)"]


def EXHAUSTIVE(tier):
    return False


POOLS = [["FDD", "SSIcov", "pLSCF"], ["EFDD", "SSIdat", "FSDD"], ["SSIcov", "noparams:SSIdat", "FDD"],
         # same segment length, different spectral settings: equal-shaped but different intermediate arrays
         ["FDD", "FDD@cor", "EFDD@256"]]


PLUMB_CLASSES = ['FDD', 'EFDD', 'FSDD', 'SSIcov', 'SSIdat', 'pLSCF', 'FDD_MS', 'SSIcov_MS']
PLUMB_FIELDS = None
REQUIRED_MONITORS = list(REQUIRED_MONITORS) + [f"plumbing:{s_}" for s_ in plumbing.SCENARIOS]
REQUIRED_STATES = list(REQUIRED_STATES) + [f"plumbing scenario {s_}" for s_ in plumbing.SCENARIOS]


def cases(tier, seed):
    return _cases(tier, seed) + plumbing.cases(len(plumbing.SCENARIOS) * len(PLUMB_CLASSES) * (1 if tier == "quick" else 6), PLUMB_CLASSES)


def _cases(tier, seed):
    L = 3 if tier == "quick" else 4
    out = []
    for pi, pool in enumerate(POOLS):
        syms = [("add", i) for i in range(3)] + [("run", i) for i in range(3)] + [("mpe", i) for i in range(3)] + [("run_all", -1)]
        seqs = [list(s) for n in range(1, L + 1) for s in itertools.product(range(len(syms)), repeat=n)]
        if pi == 2:  # the pool with a parameterless member: shorter enumeration is enough for the gating clauses
            seqs = [s for s in seqs if len(s) <= 3]
        if pi == 3:  # isolation pool: only sequences made of add / run / run_all matter (mpe variants are covered by pools 0, 1)
            seqs = [s for s in seqs if len(s) <= 3] if tier == "quick" else seqs
        if pi in (0, 1):
            # targeted longer histories (in both tiers): run, extract, run again (by name / through run_all), extract again
            seqs += [h for i in range(3) for h in ([i, 3 + i, 6 + i, 3 + i], [i, 3 + i, 6 + i, 9], [i, 3 + i, 6 + i, 3 + i, 6 + i], [i, 3 + i, 6 + i, 9, 6 + i])]
        for c0 in range(0, len(seqs), 60):
            out.append({"cls": "enumerated", "pool": pi, "seqs": seqs[c0:c0 + 60], "k": c0})
    ns, nm = (60, 16) if tier == "quick" else (1200, 200)
    out += [{"cls": "sampled_six", "k": k} for k in range(ns)]
    out += [{"cls": "sampled_preger", "k": k} for k in range(nm)]
    out += [{"cls": "poser", "part": p, "k": p} for p in range(16)]
    out += [{"cls": "replaced", "ms": bool(m_), "k": 7000 + 2 * k_ + m_} for k_ in range(6 if tier == "quick" else 40) for m_ in (0, 1)]
    out += [{"cls": "file_names", "k": 7500 + k_} for k_ in range(2 if tier == "quick" else 10)]
    out += [{"cls": "bound_when_added", "ms": bool(k_ % 2), "k": 7600 + k_} for k_ in range(12 if tier == "quick" else 72)]
    return out


# ---------------------------------------------------------------------------------------- workload pieces
_CACHE = {}


def base_data():
    if "data" not in _CACHE:
        rng = np.random.default_rng(777)
        data, fn, xi, _ = gen.sim_response(rng, 4, 3000, 100.0, m=2, fmax=0.38, minsep=0.12)
        # keep both modes above 12 Hz so that the short EFDD records hold enough correlation extrema
        while fn[0] < 12:
            data, fn, xi, _ = gen.sim_response(rng, 4, 3000, 100.0, m=2, fmax=0.38, minsep=0.12)
        _CACHE["data"] = (data, [float(f) for f in fn])
    return _CACHE["data"]


def make_alg(kind, name):
    from pyoma2 import algorithms as A_
    noparams = kind.startswith("noparams:")
    kind = kind.split(":")[-1]
    if "@" in kind:
        base, var = kind.split("@")
        if var == "alt":  # the same class with other parameters (what re-executing a notebook cell with new settings creates)
            kwv = {"FDD": dict(nxseg=512), "EFDD": dict(nxseg=256), "FSDD": dict(nxseg=256), "SSIcov": dict(br=8, ordmax=8), "SSIdat": dict(br=8, ordmax=8),
                   "pLSCF": dict(ordmax=5, nxseg=256), "FDD_MS": dict(nxseg=512), "EFDD_MS": dict(nxseg=256), "SSIcov_MS": dict(br=8, ordmax=8),
                   "SSIdat_MS": dict(br=8, ordmax=8), "pLSCF_MS": dict(ordmax=5, nxseg=256)}[base]
        else:
            kwv = {"cor": dict(nxseg=256, method_SD="cor"), "256": dict(nxseg=256, pov=0.25), "cor512": dict(nxseg=512, method_SD="cor")}[var]
        return getattr(A_, base)(name=name, **kwv)
    cls = getattr(A_, kind)
    if noparams:
        return cls(name=name)
    kw = {"FDD": dict(nxseg=256), "EFDD": dict(nxseg=512), "FSDD": dict(nxseg=512), "SSIcov": dict(br=6, ordmax=8), "SSIdat": dict(br=6, ordmax=8),
          "pLSCF": dict(ordmax=4, nxseg=256), "FDD_MS": dict(nxseg=256), "EFDD_MS": dict(nxseg=512), "SSIcov_MS": dict(br=6, ordmax=8),
          "SSIdat_MS": dict(br=6, ordmax=8), "pLSCF_MS": dict(ordmax=4, nxseg=256)}[kind]
    return cls(name=name, **kw)


def mpe_kwargs(kind, fn):
    kind = kind.split(":")[-1].replace("_MS", "").split("@")[0]
    if kind == "FDD":
        return dict(sel_freq=list(fn), DF=2.0)
    if kind in ("EFDD", "FSDD"):
        return dict(sel_freq=list(fn), DF1=2.0, DF2=6.0)
    if kind.startswith("SSI"):
        return dict(sel_freq=list(fn), order=6, rtol=0.1)
    return dict(sel_freq=list(fn), order=3, rtol=0.1)


def make_setup(ms):
    from pyoma2.setup import MultiSetup_PreGER, SingleSetup
    data, fn = base_data()
    if ms:
        return MultiSetup_PreGER(100.0, [[0, 1], [1, 0]], [data[:1500].copy(), data[1500:, :3].copy()]), fn
    return SingleSetup(data.copy(), 100.0), fn


def reference(kind, ms):
    """digests of the algorithm run alone once on a fresh setup: (after run, after run+mpe, results themselves)."""
    key = (kind, ms)
    if key not in _CACHE:
        s, fn = make_setup(ms)
        a = make_alg(kind, "ref")
        s.add_algorithms(a)
        s.run_by_name("ref")
        d_run = probes.digest(a.result)
        r_run = copy.deepcopy(a.result)
        s.mpe("ref", **mpe_kwargs(kind, fn))
        _CACHE[key] = (d_run, probes.digest(a.result), r_run, copy.deepcopy(a.result))
    return _CACHE[key]


def tolerant_equal(a, b, tol=1e-9):
    da, db = a.model_dump(), b.model_dump()

    def walk(x, y):
        if isinstance(x, dict):
            return isinstance(y, dict) and x.keys() == y.keys() and all(walk(x[k], y[k]) for k in x)
        if isinstance(x, (list, tuple)):
            return isinstance(y, (list, tuple)) and len(x) == len(y) and all(walk(p, q) for p, q in zip(x, y))
        if isinstance(x, np.ndarray):
            return isinstance(y, np.ndarray) and x.shape == y.shape and np.allclose(x, y, rtol=tol, atol=tol * (np.nanmax(np.abs(y)) if y.size and np.isfinite(y).any() else 1), equal_nan=True)
        if x is None or y is None:
            return x is None and y is None
        try:
            return bool(np.isclose(x, y, rtol=tol))
        except TypeError:
            return x == y

    return walk(da, db)


class History:
    def __init__(self, ctx, pool, ms, tag):
        self.ctx, self.pool, self.ms, self.tag = ctx, list(pool), ms, tag
        self.setup, self.fn = make_setup(ms)
        self.algs = [make_alg(k, f"a{i}") for i, k in enumerate(pool)]
        self.state = [dict(added=False, ran=False, mpe=False) for _ in pool]
        self.data_sha = self.sha_data(self.setup.data)
        self.hist = []
        self.any_run = False

    @staticmethod
    def sha_data(d):
        if isinstance(d, list):
            return tuple(probes.sha(x["ref"]) + probes.sha(x["mov"]) for x in d)
        return probes.sha(d)

    def fail(self, sig, msg):
        self.ctx.fail(sig, f"{self.tag} pool={self.pool} history={self.hist}: {msg}")

    def has_params(self, i):
        return not self.pool[i].startswith("noparams:")

    def step(self, op, i):
        ctx = self.ctx
        self.hist.append(f"{op}({self.pool[i] if i >= 0 else ''})")
        ctx.ev(self.tag)
        st = self.state
        exc = None
        if op == "replace":
            # another algorithm object (same class, other parameters) added under the name of one that is already there: the setup runs what
            # was added last; the object added now is the one whose parameters decide the result, and it has not run yet
            self.pool[i] = self.pool[i].split("@")[0] + "@alt"
            self.algs[i] = make_alg(self.pool[i], f"a{i}")
            self.hist[-1] = f"add(new {self.pool[i]} under the same name)"
            ctx.state("another algorithm object added under an existing name")
        rp_before = probes.digest(self.algs[i].run_params) if op == "mpe" and getattr(self.algs[i], "run_params", None) is not None else None
        try:
            if op in ("add", "replace"):
                self.setup.add_algorithms(self.algs[i])
            elif op == "run":
                self.setup.run_by_name(f"a{i}")
            elif op == "mpe":
                self.setup.mpe(f"a{i}", **mpe_kwargs(self.pool[i], self.fn))
            else:
                self.setup.run_all()
        except Exception as e:  # noqa: BLE001
            exc = e
        # ------------- model
        expect_exc = False
        if op == "replace":
            st[i].update(added=True, ran=False, mpe=False)
        elif op == "add":
            if st[i]["added"]:
                ctx.state("algorithm re-added")
            st[i]["added"] = True
        elif op == "run":
            if not st[i]["added"]:
                expect_exc = True
                ctx.state("run of an algorithm never added rejected")
            elif not self.has_params(i):
                expect_exc = True
                ctx.state("run without parameters rejected")
            else:
                if st[i]["ran"]:
                    ctx.state("run repeated")
                if st[i]["mpe"]:
                    ctx.state("re-run after mpe clears extraction")
                st[i].update(ran=True, mpe=False)
                self.any_run = True
        elif op == "mpe":
            if not st[i]["added"]:
                expect_exc = True
            elif not st[i]["ran"]:
                expect_exc = True
                ctx.state("mpe before run rejected")
            else:
                st[i]["mpe"] = True
        else:
            order = [j for j in self.order_added()]
            for j in order:
                if not self.has_params(j):
                    expect_exc = True
                    ctx.state("run_all with a parameterless algorithm")
                    break
                st[j].update(ran=True, mpe=False)
                self.any_run = True
        if expect_exc and exc is not None and rp_before is not None and st[i]["added"] and probes.digest(self.algs[i].run_params) != rp_before:
            # "an exception is raised and nothing is stored": neither a result nor the arguments of the extraction that did not take place
            self.fail("gating:rejected_extraction_stored_its_arguments", f"mpe was rejected ({type(exc).__name__}) but run_params changed: {self.algs[i].run_params}")
        if expect_exc and exc is None:
            self.fail(f"gating:{op}_accepted", f"{op} should have raised (algorithm state {st[i] if i >= 0 else st})")
        if not expect_exc and exc is not None:
            self.fail(f"unexpected_exception:{op}:{type(exc).__name__}", f"{type(exc).__name__}: {exc}")
            return False
        self.observe()
        return True

    def order_added(self):
        names = list(getattr(self.setup, "algorithms", {}).keys())
        return [int(n[1:]) for n in names]

    def observe(self):
        for i, (a, st) in enumerate(zip(self.algs, self.state)):
            kind = self.pool[i]
            if not st["ran"]:
                if a.result is not None:
                    self.fail("gating:result_stored_without_run", f"{kind} has a result although it never ran successfully")
                continue
            d_run, d_mpe, r_run, r_mpe = reference(kind, self.ms)
            want_d, want_r = (d_mpe, r_mpe) if st["mpe"] else (d_run, r_run)
            if a.result is None:
                self.fail("result_missing", f"{kind} ran but has no result")
                continue
            if probes.digest(a.result) != want_d and not tolerant_equal(a.result, want_r):
                other = d_run if st["mpe"] else d_mpe
                which = "stale extraction state" if probes.digest(a.result) == other else "values differ"
                self.fail(f"isolation:result_differs_from_solo_run:{which.split()[0]}", f"{kind}: result after this history differs from the same algorithm run alone on a fresh setup ({which})")
        if self.sha_data(self.setup.data) != self.data_sha:
            self.fail("isolation:shared_data_modified", "setup.data changed")
        for i, a in enumerate(self.algs):
            if self.state[i]["added"] and self.sha_data(a.data) != self.data_sha:
                self.fail("isolation:bound_data_modified", f"data bound to {self.pool[i]} changed")

    def round_trip(self):
        from pyoma2.functions import gen as G_
        ctx = self.ctx
        ctx.ev("pickle-round-trip")
        with tempfile.TemporaryDirectory() as td:
            path = os.path.join(td, "s.pkl")
            G_.save_to_file(self.setup, path)
            s2 = G_.load_from_file(path)
        for name, a in getattr(self.setup, "algorithms", {}).items():
            b = s2.algorithms.get(name) if hasattr(s2, "algorithms") else None
            if b is None:
                self.fail("persistence:algorithm_lost", f"{name} missing after save/load")
                continue
            ok = probes.digest(a.result) == probes.digest(b.result) and probes.digest(a.run_params) == probes.digest(b.run_params)
            ok = ok and self.sha_data(b.data) == self.sha_data(a.data) and type(a) is type(b)
            if not ok:
                self.fail("persistence:loaded_setup_differs", f"{name}: parameters / result / data differ after save_to_file -> load_from_file")
        if self.sha_data(s2.data) != self.data_sha or s2.fs != self.setup.fs:
            self.fail("persistence:loaded_data_differs", "data or fs differ after the round trip")


def run_enumerated(ctx, case):
    pool = POOLS[case["pool"]]
    syms = [("add", i) for i in range(3)] + [("run", i) for i in range(3)] + [("mpe", i) for i in range(3)] + [("run_all", -1)]
    for n, seq in enumerate(case["seqs"]):
        h = History(ctx, pool, False, "step@history(enumerated)")
        for s in seq:
            if not h.step(*syms[s]):
                break
        if h.any_run:
            ctx.nontrivial((case["pool"], tuple(seq)))
        if n % 15 == 0:
            h.round_trip()
    ctx.add_extra("histories_enumerated", len(case["seqs"]))
    if case["k"] == 60:
        ctx.sample({"entry": "SingleSetup histories (enumerated)", "pool": pool, "examples": [[f"{syms[s][0]}({pool[syms[s][1]] if syms[s][1] >= 0 else ''})" for s in q] for q in case["seqs"][:4]]})


def run_sampled(ctx, case, ms):
    rng = gen.rng_of(case)
    if ms:
        pool = [str(x) for x in rng.permutation(["FDD_MS", "EFDD_MS", "SSIcov_MS", "SSIdat_MS", "pLSCF_MS"])[:3]]
        tag = "step@history(PreGER)"
    else:
        pool = [str(x) for x in rng.permutation(["FDD", "EFDD", "FSDD", "SSIcov", "SSIdat", "pLSCF", "FDD@cor", "EFDD@256", "FSDD@cor512"])][:6]
        if rng.random() < 0.3:
            pool[int(rng.integers(0, len(pool)))] = "noparams:SSIcov"
        tag = "step@history(sampled, six classes)"
    h = History(ctx, pool, ms, tag)
    # bias towards meaningful histories: add most algorithms first
    for i in rng.permutation(len(pool))[: int(rng.integers(2, len(pool) + 1))]:
        h.step("add", int(i))
    for _ in range(5):
        u = rng.random()
        i = int(rng.integers(0, len(pool)))
        ok = h.step("run_all", -1) if u < 0.2 else h.step("run" if u < 0.6 else ("mpe" if u < 0.9 else "add"), i)
        if not ok:
            break
    h.round_trip()
    if h.any_run:
        ctx.nontrivial((ms, str(h.hist)))
    if case["k"] < 3:
        ctx.sample({"entry": tag, "pool": pool, "history": h.hist})


def run_replaced(ctx, case):
    rng = gen.rng_of(case)
    ms = case["ms"]
    names = ["FDD_MS", "EFDD_MS", "SSIcov_MS", "SSIdat_MS", "pLSCF_MS"] if ms else ["FDD", "EFDD", "FSDD", "SSIcov", "SSIdat", "pLSCF"]
    pool = [str(x) for x in rng.permutation(names)[:2]]
    h = History(ctx, pool, ms, "step@history(algorithm replaced under its name)")
    plan = [("add", 0), ("add", 1), ("run", 0)] + ([("mpe", 0)] if rng.random() < 0.5 else []) + [("replace", 0)]
    plan += [[("mpe", 0), ("run", 0), ("mpe", 0)], [("run", 0), ("mpe", 0)], [("run_all", -1), ("mpe", 0)], [("run", 1), ("mpe", 0), ("run_all", -1)]][case["k"] // 2 % 4]
    for op, i in plan:
        if not h.step(op, i):
            break
    h.round_trip()
    ctx.nontrivial(("replaced", ms, str(h.hist)))
    if case["k"] < 7002:
        ctx.sample({"entry": h.tag, "pool": pool, "history": h.hist})


def run_bound_when_added(ctx, case):
    """add A - pre-process the setup - (add B) - run A: A's result depends on its parameters and on the data bound when IT was added, whatever
    is added to the setup later."""
    rng = gen.rng_of(case)
    ms = case["ms"]
    names = ["FDD_MS", "SSIcov_MS", "pLSCF_MS"] if ms else ["FDD", "EFDD", "SSIcov", "SSIdat", "pLSCF"]
    pool = [str(x) for x in rng.permutation(names)[:2]]
    h = History(ctx, pool, ms, "step@history(pre-processing between two additions)")
    h.step("add", 0)
    op = ["decimate", "filter", "detrend"][case["k"] // 2 % 3]
    if op == "decimate":
        h.setup.decimate_data(q=2)
    elif op == "filter":
        h.setup.filter_data(Wn=20.0, order=4, btype="lowpass")
    else:
        h.setup.detrend_data(type="linear")
    h.hist.append(f"{op}_data")
    # from here on the setup holds other records than the ones bound to the first algorithm: the history's model of 'shared data unchanged'
    # refers to the records bound at addition, which the algorithm object still holds
    h.data_sha = h.sha_data(h.algs[0].data)
    later = case["k"] // 6 % 2 == 0
    if later:
        try:
            h.setup.add_algorithms(h.algs[1])
            h.hist.append(f"add({pool[1]})")
        except Exception as e:  # noqa: BLE001
            h.fail(f"unexpected_exception:add:{type(e).__name__}", f"{type(e).__name__}: {e}")
            return
    ctx.ev(h.tag)
    try:
        h.setup.run_by_name("a0")
    except Exception as e:  # noqa: BLE001
        h.fail(f"unexpected_exception:run:{type(e).__name__}", f"{type(e).__name__}: {e}")
        return
    h.hist.append(f"run({pool[0]})")
    d_run, _, r_run, _ = reference(pool[0], ms)
    a = h.algs[0]
    ok = a.result is not None and (probes.digest(a.result) == d_run or tolerant_equal(a.result, r_run))
    ctx.check(ok, "isolation:result_not_that_of_the_data_bound_at_addition",
              lambda: f"{h.tag} pool={pool} history={h.hist}: the result of {pool[0]} is not the one it gives on the records it was added with "
                      f"(algorithm holds fs={getattr(a, 'fs', None)}, {np.shape(a.data) if not isinstance(a.data, list) else len(a.data)} records)")
    ctx.state("algorithm keeps the records bound when it was added")
    # ... and a setup saved in this state comes back in this state: the algorithm with ITS records and sampling rate, the setup with the processed ones
    h.data_sha = h.sha_data(h.setup.data)
    fs_before = (a.fs, a.dt)
    h.round_trip()
    import tempfile as _tf
    from pyoma2.functions import gen as G_
    with _tf.TemporaryDirectory() as td:
        G_.save_to_file(h.setup, os.path.join(td, "s.pkl"))
        s2 = G_.load_from_file(os.path.join(td, "s.pkl"))
    b = s2.algorithms.get("a0")
    ctx.check(b is not None and (b.fs, b.dt) == fs_before, "persistence:loaded_algorithm_has_another_sampling_rate",
              lambda: f"{h.tag} history={h.hist}: after save/load the algorithm holds fs, dt = {(getattr(b, 'fs', None), getattr(b, 'dt', None))}, before {fs_before}")
    ctx.nontrivial(("bound", ms, op, later, tuple(pool)))


def run_file_names(ctx, case):
    """several setups saved side by side: every file name is its own file (names a user gives: setup_k / setup_l, run_p / run_k, deck.1 / deck.2)."""
    from pyoma2.functions import gen as G_
    rng = gen.rng_of(case)
    stems = [["setup_k", "setup_l", "setup_p", "setup_"], ["ssk", "ssl", "ss"], ["run_p.pkl", "run_k.pkl", "run_l.pkl", "run_.pkl"], ["deck.pkl", "deckl.pkl", "deckp.pkl"],
             ["a.pkl", "b.pkl"], ["span1.pkl", "span2.pkl", "span1..pkl"]][case["k"] % 6]
    kinds = ["FDD", "SSIcov", "FDD@cor", "pLSCF"]
    saved = []
    with tempfile.TemporaryDirectory() as td:
        for j, stem in enumerate(stems):
            h = History(ctx, [kinds[j % len(kinds)]], False, "step@history(saved side by side)")
            h.step("add", 0)
            h.step("run", 0)
            if j % 2:
                h.step("mpe", 0)
            path = os.path.join(td, stem)
            G_.save_to_file(h.setup, path)
            saved.append((stem, path, h))
        for stem, path, h in saved:
            ctx.ev("pickle-round-trip(several files)")
            s2 = G_.load_from_file(path)
            a, b = h.algs[0], (s2.algorithms.get("a0") if hasattr(s2, "algorithms") else None)
            ok = b is not None and type(a) is type(b) and probes.digest(a.result) == probes.digest(b.result) and probes.digest(a.run_params) == probes.digest(b.run_params)
            ctx.check(ok, "persistence:file_holds_another_setup", lambda: f"setups saved as {stems}: load_from_file({stem!r}) does not return the setup saved under that name")
    ctx.state("several setups saved under similar file names")
    ctx.nontrivial(("file_names", tuple(stems)))


# ---------------------------------------------------------------------------------------- PoSER constructor
TEMPLATES = [[], ["A"], ["B"], ["A", "B"], ["B", "A"], ["A", "A"], ["A", "B", "C"]]
KINDS = {"A": "EFDD", "B": "FSDD", "C": "SSIcov"}  # FSDD is a subclass of EFDD: exact types are required


def poser_templates():
    if "tpl" not in _CACHE:
        tpl = {}
        for letter, kind in KINDS.items():
            s, fn = make_setup(False)
            a = make_alg(kind, "t")
            tpl[(letter, "notrun")] = pickle.dumps(a)
            s.add_algorithms(a)
            s.run_all()
            tpl[(letter, "run")] = pickle.dumps(a)
            s.mpe("t", **mpe_kwargs(kind, fn))
            if a.result.Fn is None:
                raise RuntimeError("template extraction failed")
            tpl[(letter, "mpe")] = pickle.dumps(a)
        _CACHE["tpl"] = tpl
    return _CACHE["tpl"]


def build_poser(lists, states, names):
    from pyoma2.setup import MultiSetup_PoSER, SingleSetup
    tpl = poser_templates()
    data, _ = base_data()
    setups = []
    for si, (lst, sts) in enumerate(zip(lists, states)):
        ss = SingleSetup(data[:50, :2].copy(), 100.0)
        algs = []
        for ai, (letter, st) in enumerate(zip(lst, sts)):
            a = pickle.loads(tpl[(letter, st)])
            a.name = f"{letter}{ai}"  # same names in every setup, as when class names are used
            algs.append(a)
        if algs:
            ss.add_algorithms(*algs)
        setups.append(ss)
    return MultiSetup_PoSER(ref_ind=[[0] for _ in setups], single_setups=setups, names=list(names))


def poser_model(lists, states, names):
    if len(lists) < 2:
        return "PoSER rejected: <2 setups"
    if any(len(x) == 0 for x in lists):
        return "PoSER rejected: empty setup"
    first = lists[0]
    for x in lists[1:]:
        if x != first:
            if sorted(x) == sorted(first):
                return "PoSER rejected: order differs"
            if len(x) == len(first) and all({p, q} <= {"A", "B"} for p, q in zip(x, first)):
                return "PoSER rejected: subclass instead of class"
            return "PoSER rejected: types differ"
    if len(names) != len(first):
        return "PoSER rejected: names length"
    for sts in states:
        for st in sts:
            if st == "notrun":
                return "PoSER rejected: not run"
            if st == "run":
                return "PoSER rejected: run but no mpe"
    return "PoSER accepted"


def run_poser(ctx, case):
    rng = np.random.default_rng(99 + case["part"])
    configs = []
    for n in range(0, 4):
        for lists in itertools.product(range(len(TEMPLATES)), repeat=n):
            configs.append([TEMPLATES[i] for i in lists])
    four = list(itertools.product(range(len(TEMPLATES)), repeat=4))
    pick = rng.permutation(len(four))[: (60 if ctx.tier == "quick" else 600)]
    configs += [[TEMPLATES[i] for i in four[j]] for j in pick]
    configs = configs[case["part"]::16]
    if case["part"] == 0:
        # setups with DIFFERENT numbers of algorithms whose lists, written one after the other, read like the first list repeated once per
        # setup: the comparison is per setup, not over the concatenation
        configs += [[["A", "A"], ["A"], ["A", "A", "A"]], [["A", "B"], ["A"], ["B", "A", "B"]], [["A", "B"], ["A", "B", "A"], ["B"], ["A", "B"]],
                    [["A", "A"], ["A", "A", "A"], ["A"]], [["A", "B", "C"], ["A", "B"], ["C", "A", "B", "C"]], [["A"], ["A", "A"], ["A"], []][:3] + [["A"]]]
        ctx.state("PoSER: ragged lists whose concatenation repeats the first list")
    nconf = 0
    for lists in configs:
        nalg = len(lists[0]) if lists else 0
        variants = []
        full = [["mpe"] * len(x) for x in lists]
        for ln in range(0, 4):
            variants.append((full, [f"n{i}" for i in range(ln)]))
        for si, x in enumerate(lists):
            for ai in range(len(x)):
                for st in ("notrun", "run"):
                    sts = [list(s) for s in full]
                    sts[si][ai] = st
                    variants.append((sts, [f"n{i}" for i in range(nalg)]))
        for states, names in variants:
            nconf += 1
            ctx.ev("PoSER-constructor-outcome")
            exp = poser_model(lists, states, names)
            try:
                build_poser(lists, states, names)
                got = "accepted"
            except ValueError:
                got = "ValueError"
            except Exception as e:  # noqa: BLE001
                got = f"{type(e).__name__}: {e}"
            ctx.state(exp)
            if exp == "PoSER accepted":
                ctx.check(got == "accepted", "poser:valid_configuration_rejected", lambda: f"type lists {lists} states {states} names {names}: {got}")
            else:
                if got == "accepted":
                    ctx.fail("poser:invalid_configuration_accepted:" + exp.split(": ")[1].replace(" ", "_"), f"type lists {lists} states {states} names {names} accepted; model: {exp}")
                elif got != "ValueError":
                    ctx.fail("poser:wrong_exception_type", f"type lists {lists} states {states} names {names}: {got} instead of ValueError ({exp})")
            ctx.nontrivial(("poser", str(lists), str(states), len(names)))
    ctx.add_extra("poser_configurations", nconf)
    if case["part"] == 0:
        ctx.sample({"entry": "MultiSetup_PoSER constructor", "templates": TEMPLATES, "classes": KINDS, "example": {"type lists": [["A", "B"], ["A", "B"]], "names": ["n0", "n1"], "expected": "accepted"}})


def run_case(ctx, case):
    if case["cls"] == "plumbing":
        return plumbing.run_case(ctx, case, gen.rng_of(case), PLUMB_FIELDS)
    c = case["cls"]
    if c == "enumerated":
        run_enumerated(ctx, case)
    elif c == "sampled_six":
        run_sampled(ctx, case, False)
    elif c == "sampled_preger":
        run_sampled(ctx, case, True)
    elif c == "replaced":
        run_replaced(ctx, case)
    elif c == "file_names":
        run_file_names(ctx, case)
    elif c == "bound_when_added":
        run_bound_when_added(ctx, case)
    else:
        run_poser(ctx, case)
