"""C07 - EFDD/FSDD recover frequency and damping of an exact SDOF spectral bell  [T + M]."""
from __future__ import annotations

import numpy as np

from vf import gen, plumbing, probes

PID = "C07"
ANCHORS = ["pyoma2.functions.fdd:EFDD_mpe", "pyoma2.functions.fdd:SDOF_bellandMS", "pyoma2.functions.fdd:FDD_mpe", "pyoma2.algorithms.fdd:EFDD.mpe"]
REQUIRED_MONITORS = ["truth@EFDD_mpe(EFDD)", "truth@EFDD_mpe(FSDD)", "scale-invariance(EFDD)", "scale-invariance(FSDD)", "truth@EFDD.mpe(class)", "truth@FSDD.mpe(class)"]
ALL_STATES = [f"nxseg={n}" for n in (1024, 2048, 4096, 8192)] + ["xi<3%", "xi>4%", "fn<0.08fs", "fn>0.2fs", "bandwidth<6 lines", "same array object analysed twice with different content"]
REQUIRED_STATES = ["selection 2-5 % beside the peak", "edge sweep: damping 2 % / 5 %, band of exactly four bandwidths", "as many requests as channels", "analysis band wider than the natural frequency (reaches below 0 Hz)", "fs below 0.3 Hz (slow monitoring record)", "fs above 3 kHz", "EFDD_mpe called with method / DF1 / DF2 by position", "nxseg=1024", "nxseg=2048", "nxseg=4096", "xi<3%", "xi>4%", "same array object analysed twice with different content", "Fortran-ordered spectral matrix", "pick given as an integer", "class created with the default estimator"]
RULE = ("exactly the quantifier's class: analytic SDOF spectral density |H(f)|^2 phi phi^T + 1e-9 full-rank floor on the grid k fs/nxseg, fn in "
        "[0.04,0.25] fs, xi in [2,5] %, half-power bandwidth >= 4 lines, >= 30 periods in the half record, 2..6 channels, real shapes, "
        "DF2 in [4,10] bandwidths, default sppk/npmax/MAClim; oracle = the statement's numbers (MAC >= 0.999, 2.5 % frequency, 15 % damping) "
        "and 1e-8 invariance under Sy -> c Sy, c in 10^U(-6,6); every admitted draw is non-trivial; distinct by rounded (fn/fs, xi, nxseg, channels)")
ASSUMPTIONS = ["multi-mode spectra and correlogram spectra are outside the property (DESIGN 6)",
               "class-level runs replace fdd.SD_est by the analytic matrix so that only the extraction code is exercised"]


PLUMB_CLASSES = ['EFDD', 'FSDD', 'EFDD_MS']
PLUMB_FIELDS = ['Fn', 'Xi', 'Phi']
REQUIRED_MONITORS = list(REQUIRED_MONITORS) + [f"plumbing:{s_}" for s_ in plumbing.SCENARIOS]
REQUIRED_STATES = list(REQUIRED_STATES) + [f"plumbing scenario {s_}" for s_ in plumbing.SCENARIOS]


def cases(tier, seed):
    return _cases(tier, seed) + plumbing.cases(len(plumbing.SCENARIOS) * len(PLUMB_CLASSES) * (1 if tier == "quick" else 6), PLUMB_CLASSES)


def _cases(tier, seed):
    n1, n2, n3 = (400, 24, 12) if tier == "quick" else (3000, 200, 120)
    ne = 2400 if tier == "quick" else 8000
    return ([{"cls": "function", "k": k} for k in range(n1)] + [{"cls": "classes", "k": k} for k in range(n2)]
            + [{"cls": "reused_buffer", "k": k} for k in range(n3)] + [{"cls": "edge_sweep", "k": 20000 + k, "edge": [k, ne // 4]} for k in range(ne)])


def draw(rng, nxs=(1024, 2048, 4096, 8192), edge=None):
    for _ in range(1000):
        nxseg = int(rng.choice(nxs))
        fs = float(10 ** rng.uniform(0, 3))
        if rng.random() < 0.3:
            fs = float(10 ** rng.uniform(-3, 5))  # "any fs": slow monitoring records (one sample per minute or hour) and kHz-MHz sampling alike
        nch = int(rng.integers(2, 7))
        fn = float(rng.uniform(0.04, 0.25) * fs)
        if fs >= 30 and rng.random() < 0.25:
            fn = float(max(1, round(fn)))  # a whole number of Hz (a user then types the pick as an integer)
        xi = float(rng.uniform(0.02, 0.05))
        if edge is not None:
            # the corners of the stated range, swept finely along the frequency axis: damping at its lower / upper end, the band at exactly four
            # bandwidths, fn/fs on a grid of 1/edge[1] steps between 0.04 and 0.25 (where the extrema of the correlation function fall on the
            # lag grid changes with fn/fs in steps of less than a percent)
            fs = float(rng.choice([100.0, 51.2, 1000.0]))
            nxseg = int(rng.choice([1024, 2048]))
            xi = [0.02, 0.05, 0.0235, 0.03][edge[0] % 4]
            fn = float((0.04 + 0.21 * (edge[0] // 4 + rng.uniform(0, 1)) / edge[1]) * fs)
        df = fs / nxseg
        bw = 2 * xi * fn
        if bw < 4 * df or fn * nxseg / 2 / fs < 30:
            if edge is not None:
                nxseg, df = 4096, fs / 4096
                if bw < 4 * df or fn * nxseg / 2 / fs < 30:
                    return None
            else:
                continue
        freq = np.arange(nxseg // 2 + 1) * df
        bell = 1 / ((fn**2 - freq**2) ** 2 + (2 * xi * fn * freq) ** 2)
        phi = rng.standard_normal(nch)
        if np.max(np.abs(phi)) < 0.3:
            continue
        S = phi[:, None, None] * phi[None, :, None] * bell[None, None, :]
        W = rng.standard_normal((nch, nch))
        S = S + (W @ W.T)[:, :, None] * 1e-9 * np.max(S)
        DF2 = float(rng.uniform(4, 10) * bw)
        draw.wide = False
        if edge is not None:
            DF2 = float([4.0, 4.0, 4.7, 5.0][edge[0] % 4] * bw)
        elif rng.random() < 0.2:
            # "at least four bandwidths" has no upper end: a generous band (the documented default is 1 Hz, whatever the mode) reaches below
            # 0 Hz and beyond Nyquist, where the axis simply ends
            DF2 = float(rng.uniform(1.0, 4.0) * fn)
            draw.wide = True
        DF1 = float(max(2 * df, 0.1 * bw))
        return nxseg, fs, nch, fn, xi, df, bw, freq, phi, S.astype(complex), DF1, DF2
    raise RuntimeError("generator")


def judge(ctx, tag, sig, Fn, Xi, Phi, fn, xi, phi, info):
    ctx.ev(tag)
    Fn = np.ravel(Fn)
    Xi = np.ravel(Xi)
    if not ctx.check(Fn.shape == (1,) and Xi.shape == (1,) and np.shape(Phi) == (len(phi), 1), f"{sig}:shape", lambda: f"{tag}: shapes {np.shape(Fn)} {np.shape(Xi)} {np.shape(Phi)}"):
        return
    ef = abs(Fn[0] - fn) / fn
    ex = abs(Xi[0] - xi) / xi
    m = gen.mac(Phi[:, 0], phi)
    ctx.maxi(f"{tag}: worst frequency error", ef)
    ctx.maxi(f"{tag}: worst damping error", ex)
    ctx.check(m >= 0.999, f"{sig}:mode_shape", lambda: f"{tag}: MAC {m:.6f} {info}")
    ctx.check(ef <= 0.025, f"{sig}:frequency", lambda: f"{tag}: frequency {Fn[0]:.6g} vs {fn:.6g} ({100*ef:.2f} %) {info}")
    ctx.check(ex <= 0.15, f"{sig}:damping", lambda: f"{tag}: damping {Xi[0]:.5f} vs {xi:.5f} ({100*ex:+.1f} %) {info}")


def states(ctx, nxseg, fs, fn, xi, df, bw):
    ctx.state(f"nxseg={nxseg}")
    if xi < 0.03:
        ctx.state("xi<3%")
    if xi > 0.04:
        ctx.state("xi>4%")
    if fn < 0.08 * fs:
        ctx.state("fn<0.08fs")
    if fn > 0.2 * fs:
        ctx.state("fn>0.2fs")
    if bw < 6 * df:
        ctx.state("bandwidth<6 lines")
    if getattr(draw, "wide", False):
        ctx.state("analysis band wider than the natural frequency (reaches below 0 Hz)")
    if fs < 0.3:
        ctx.state("fs below 0.3 Hz (slow monitoring record)")
    if fs > 3e3:
        ctx.state("fs above 3 kHz")


def run_function(ctx, rng):
    from pyoma2.functions import fdd

    nxseg, fs, nch, fn, xi, df, bw, freq, phi, S, DF1, DF2 = draw(rng)
    info = f"[nxseg={nxseg} fs={fs:.4g} fn/fs={fn/fs:.3f} xi={xi:.4f} bw/df={bw/df:.1f} periods={fn*nxseg/2/fs:.0f} DF2/bw={DF2/bw:.1f} nch={nch}]"
    c = float(10 ** rng.uniform(-6, 6))
    if rng.random() < 0.3:
        S = np.asfortranarray(S)  # a legal memory layout (e.g. data loaded from a .mat file)
        ctx.state("Fortran-ordered spectral matrix")
    for method in ("EFDD", "FSDD"):
        Sc = S.copy()
        pick = [int(fn)] if (float(fn).is_integer() and rng.random() < 0.7) else [fn]
        if isinstance(pick[0], int):
            ctx.state("pick given as an integer")
        DF1_ = DF1
        if not isinstance(pick[0], int) and rng.random() < 0.3 and not getattr(draw, "wide", False):
            # a selection two to five percent beside the peak (read off a diagram by eye): the first stage finds the peak inside
            # its band, the fit is that of the mode - not of the selected frequency
            off_ = float(rng.choice([-1, 1]) * rng.uniform(0.02, 0.05))
            if abs(off_) * fn < 0.45 * DF2:
                pick = [fn * (1 + off_)]
                DF1_ = abs(off_) * fn + 2 * df
                ctx.state("selection 2-5 % beside the peak")
        Fn, Xi, Phi, _ = fdd.EFDD_mpe(S, freq, 1 / fs, pick, "per", method=method, DF1=DF1_, DF2=DF2)
        ctx.check(np.array_equal(S, Sc), "inputs_modified", "EFDD_mpe modified the spectral matrix")
        if rng.random() < 0.25:
            # the documented positional order (Sy, freq, dt, sel_freq, method_SD, method, DF1, DF2) means what the keywords mean
            Fp, Xp, Pp, _ = fdd.EFDD_mpe(S, freq, 1 / fs, pick, "per", method, DF1_, DF2)
            ctx.state("EFDD_mpe called with method / DF1 / DF2 by position")
            ctx.check(np.array_equal(Fp, Fn) and np.array_equal(Xp, Xi), f"{method}:positional_call_differs",
                      lambda: f"EFDD_mpe(Sy, freq, dt, sel, 'per', {method!r}, DF1, DF2) gives fn={np.ravel(Fp)}, xi={np.ravel(Xp)}; with keywords fn={np.ravel(Fn)}, xi={np.ravel(Xi)} {info}")
        judge(ctx, f"truth@EFDD_mpe({method})", f"{method}", Fn, Xi, Phi, fn, xi, phi, info)
        if rng.random() < 0.3:
            # as many requests as channels (here: the bell's own lines next to the peak, each of which leads to the same mode): one column of the
            # shape table per request, whatever the two counts are
            picks = [float(fn + 0.4 * df * (j - (nch - 1) / 2)) for j in range(nch)]
            Fm, Xm, Pm, _ = fdd.EFDD_mpe(S, freq, 1 / fs, picks, "per", method=method, DF1=DF1, DF2=DF2)
            ctx.state("as many requests as channels")
            Fm, Xm = np.ravel(Fm), np.ravel(Xm)
            if ctx.check(np.shape(Fm) == (nch,) and np.shape(Xm) == (nch,) and np.shape(Pm) == (nch, nch), f"{method}:multi_request_shape",
                         lambda: f"{method}: {nch} requests on {nch} channels: shapes {np.shape(Fm)} {np.shape(Xm)} {np.shape(Pm)}"):
                for j in range(nch):
                    judge(ctx, f"truth@EFDD_mpe({method})", f"{method}_request_{'first' if j == 0 else 'later'}", Fm[j:j + 1], Xm[j:j + 1], Pm[:, j:j + 1], fn, xi, phi, info + f" [request {j} of {nch}]")
        Fn2, Xi2, Phi2, _ = fdd.EFDD_mpe(S * c, freq, 1 / fs, [float(pick[0])], "per", method=method, DF1=DF1_, DF2=DF2)
        ctx.ev(f"scale-invariance({method})")
        d = max(abs(np.ravel(Fn2)[0] - np.ravel(Fn)[0]) / fn, abs(np.ravel(Xi2)[0] - np.ravel(Xi)[0]) / xi)
        ctx.maxi(f"scale-invariance({method}): worst change", d)
        ctx.check(d <= 1e-8, f"{method}:not_scale_invariant", lambda: f"{method}: estimates change by {d:.2e} when Sy is multiplied by {c:.3g} {info}")
    states(ctx, nxseg, fs, fn, xi, df, bw)
    ctx.nontrivial((round(fn / fs, 3), round(xi, 3), nxseg, nch))
    ctx.sample({"entry": "fdd.EFDD_mpe (EFDD and FSDD)", "nxseg": nxseg, "fs": fs, "fn": fn, "xi": xi, "channels": nch, "bandwidth_lines": bw / df, "DF2": DF2, "scale c": c})


def run_reused_buffer(ctx, rng):
    """two different spectra of one shape analysed one after the other in the SAME array object (a sweep refilling a work array)."""
    from pyoma2.functions import fdd

    first = draw(rng, nxs=(1024, 2048))
    nxseg, fs, nch = first[0], first[1], first[2]
    buf = np.empty_like(first[9])
    for rep in range(2):
        while True:
            cur = draw(rng, nxs=(nxseg,))
            if cur[2] == nch:
                break
        _, _, _, fn, xi, df, bw, _, phi, S, DF1, DF2 = cur
        fs_c = cur[1]
        freq = cur[7]
        buf[...] = S
        info = f"[work array refilled in place, analysis #{rep + 1}; nxseg={nxseg} fn/fs={fn/fs_c:.3f} xi={xi:.4f} nch={nch}]"
        for method in ("EFDD", "FSDD"):
            Fn, Xi, Phi, _ = fdd.EFDD_mpe(buf, freq, 1 / fs_c, [fn], "per", method=method, DF1=DF1, DF2=DF2)
            judge(ctx, f"truth@EFDD_mpe({method})", f"{method}_reused_array", Fn, Xi, Phi, fn, xi, phi, info)
    ctx.state("same array object analysed twice with different content")
    ctx.nontrivial(("reused", nxseg, nch, round(fn / fs_c, 3)))


def run_classes(ctx, rng):
    import pyoma2.functions.fdd as F_
    from pyoma2.algorithms import EFDD, FSDD
    from pyoma2.setup import SingleSetup

    nxseg, fs, nch, fn, xi, df, bw, freq, phi, S, DF1, DF2 = draw(rng, nxs=(1024, 2048))
    info = f"[class run nxseg={nxseg} fs={fs:.4g} fn/fs={fn/fs:.3f} xi={xi:.4f} bw/df={bw/df:.1f} DF2/bw={DF2/bw:.1f} nch={nch}]"

    def fake_sd_est(Yall, Yref, dt, nxseg_=1024, method="cor", pov=0.5):
        assert nxseg_ == nxseg and abs(dt - 1 / fs) < 1e-12 * dt
        return freq.copy(), S.copy()

    data = rng.standard_normal((nxseg * 2, nch))
    with probes.patched(F_, "SD_est", fake_sd_est):
        ss = SingleSetup(data, fs)
        kw_sd = {} if rng.random() < 0.5 else dict(method_SD="per")  # the estimator spelled out, or left at the documented default (the same)
        if not kw_sd:
            ctx.state("class created with the default estimator")
        e = EFDD(name="efdd", nxseg=nxseg, **kw_sd)
        f = FSDD(name="fsdd", nxseg=nxseg, **kw_sd)
        ss.add_algorithms(e, f)
        ss.run_all()
    for alg, method in ((e, "EFDD"), (f, "FSDD")):
        ss.mpe(alg.name, sel_freq=([int(fn)] if float(fn).is_integer() else [fn]), DF1=DF1, DF2=DF2)
        r = alg.result
        judge(ctx, f"truth@{method}.mpe(class)", f"{method}_cls", r.Fn, r.Xi, r.Phi, fn, xi, phi, info)
    states(ctx, nxseg, fs, fn, xi, df, bw)
    ctx.nontrivial(("cls", round(fn / fs, 3), round(xi, 3), nxseg, nch))


def run_edge(ctx, rng, case):
    from pyoma2.functions import fdd

    d = draw(rng, edge=case["edge"])
    if d is None:
        ctx.not_judged("edge sweep: this corner is outside the range at every segment length tried")
        return
    nxseg, fs, nch, fn, xi, df, bw, freq, phi, S, DF1, DF2 = d
    info = f"[edge sweep nxseg={nxseg} fs={fs:.4g} fn/fs={fn/fs:.4f} xi={xi:.4f} bw/df={bw/df:.1f} DF2/bw={DF2/bw:.1f} nch={nch}]"
    for method in ("EFDD", "FSDD"):
        Fn, Xi, Phi, _ = fdd.EFDD_mpe(S, freq, 1 / fs, [fn], "per", method=method, DF1=DF1, DF2=DF2)
        judge(ctx, f"truth@EFDD_mpe({method})", f"{method}_edge", Fn, Xi, Phi, fn, xi, phi, info)
    ctx.state("edge sweep: damping 2 % / 5 %, band of exactly four bandwidths")
    ctx.nontrivial(("edge", case["edge"][0]))


def run_case(ctx, case):
    if case["cls"] == "plumbing":
        return plumbing.run_case(ctx, case, gen.rng_of(case), PLUMB_FIELDS)
    rng = gen.rng_of(case)
    if case["cls"] == "edge_sweep":
        return run_edge(ctx, rng, case)
    {"function": run_function, "classes": run_classes, "reused_buffer": run_reused_buffer}[case["cls"]](ctx, rng)
