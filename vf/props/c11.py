"""C11 - Modal parameter extraction returns the requested pole, whole and only if close  [P]."""
from __future__ import annotations

import numpy as np

from vf import gen, plumbing, probes

PID = "C11"
ANCHORS = ["pyoma2.functions.ssi:SSI_mpe", "pyoma2.functions.plscf:pLSCF_mpe", "pyoma2.algorithms.ssi:SSIdat.mpe", "pyoma2.algorithms.plscf:pLSCF.mpe"]
REQUIRED_MONITORS = ["explicit-order@SSI_mpe", "explicit-order@pLSCF_mpe", "find_min@SSI_mpe", "find_min@pLSCF_mpe", "explicit-order@SSIcov.mpe(real run)",
                     "explicit-order@pLSCF.mpe(real run)", "find_min@SSIcov.mpe(real run)"]
ALL_STATES = ["order:int", "order:list", "mode missing at the order", "nearest pole belongs to another requested mode", "all found", "none found",
              "with covariances", "find_min: qualifying order exists", "find_min: two stable poles in one band at a lower order",
              "find_min: f>1Hz pole between absolute and relative band", "f<1Hz requests"]
REQUIRED_STATES = ["find_min: two requests with touching bands", "order 0 requested as a single integer, column 0 holds the pole", "whole-number requests of integer type", "class configured with ordmin > 0", "class-level extraction: empty pole slot above the selected poles", "find_min: unstable pole nearer to the request than the stable one",
                   "nearest pole in an rtol^2 sliver at a band edge", "two retained poles in the band, the farther one in an earlier row", "successive mpe calls with different rtol", "order:int", "order:list", "mode missing at the order", "nearest pole belongs to another requested mode", "with covariances",
                   "find_min: qualifying order exists", "find_min: two stable poles in one band at a lower order",
                   "find_min: f>1Hz pole between absolute and relative band"]
RULE = ("structured pole tables (modes x orders, modes missing at some orders, spurious poles, NaN rows, per-column row shuffles) in which every "
        "cell carries unique tags in xi, phi and the covariances, so that a returned mode identifies the cell(s) it was assembled from; "
        "ascending requests with disjoint bands; order int / list / 'find_min'; rtol 1e-3..0.1; oracle: whole cell, nearest finite pole of "
        "the requested order, returned iff within rtol*f_req, find_min = lowest column where every request has exactly one stable pole in "
        "band; plus the same value-based oracle on mpe() after real SSIcov / pLSCF runs; non-trivial = at least one request is NOT "
        "served by its own mode at that order or order is find_min; distinct by table digest")
ASSUMPTIONS = ["distances within 1e-9 relative (+1e-8 absolute, numpy isclose's atol) of the band edge are not judged",
               "find_min cases are generated with stable poles either inside half the tighter band or outside twice the wider band",
               "what must be returned when no order qualifies is not stated by the property: not judged"]


PLUMB_CLASSES = ['SSIcov', 'SSIdat', 'pLSCF', 'SSIcov_MS', 'SSIcov+unc']
PLUMB_FIELDS = ['Fn', 'Xi', 'Phi', 'order_out', 'Fn_cov', 'Xi_cov', 'Phi_cov']
REQUIRED_MONITORS = list(REQUIRED_MONITORS) + [f"plumbing:{s_}" for s_ in plumbing.SCENARIOS]
REQUIRED_STATES = list(REQUIRED_STATES) + [f"plumbing scenario {s_}" for s_ in plumbing.SCENARIOS]


def cases(tier, seed):
    return _cases(tier, seed) + plumbing.cases(len(plumbing.SCENARIOS) * len(PLUMB_CLASSES) * (1 if tier == "quick" else 6), PLUMB_CLASSES)


def _cases(tier, seed):
    n1, n2, n3 = (400, 300, 12) if tier == "quick" else (8000, 6000, 150)
    return ([{"cls": "explicit_tables", "k": k} for k in range(n1)] + [{"cls": "find_min_tables", "k": k} for k in range(n2)]
            + [{"cls": "real_runs", "k": k} for k in range(n3)])


# ------------------------------------------------------------------------------------------ table generator
def make_table(rng, low_freq=False):
    m = int(rng.integers(2, 6))
    no = int(rng.integers(4, 16))
    nr = int(rng.integers(m + 2, m + 8))
    nch = 3
    if low_freq:
        modes = np.sort(rng.uniform(0.05, 0.9, m))
    else:
        modes = np.sort(rng.uniform(1.5, 60, m))
    # keep modes separated by > 25 %
    for k in range(1, m):
        modes[k] = max(modes[k], modes[k - 1] * 1.3)
    Fn = np.full((nr, no), np.nan)
    Xi = np.full((nr, no), np.nan)
    Phi = np.full((nr, no, nch), np.nan, complex)
    Lab = np.zeros((nr, no), int)
    owner = np.full((nr, no), -1)
    cid = 0
    present = np.ones((m, no), bool)
    for o in range(no):
        rows = rng.permutation(nr)
        for k, f in enumerate(modes):
            if o < 1 + k // 2 or rng.random() < 0.2:
                present[k, o] = False
                continue
            r = rows[k]
            Fn[r, o] = f * (1 + 2e-4 * rng.standard_normal())
            owner[r, o] = k
        # spurious poles
        for s in range(int(rng.integers(0, 3))):
            r = rows[m + s]
            Fn[r, o] = rng.uniform(0.5 * modes[0], 1.2 * modes[-1])
            owner[r, o] = -2
        for r in range(nr):
            if np.isfinite(Fn[r, o]):
                cid += 1
                Xi[r, o] = cid * 1e-6
                Phi[r, o] = [cid, o, r + 1j * cid]
    Fn_cov = np.where(np.isfinite(Fn), Xi * 1e3, np.nan)
    Xi_cov = np.where(np.isfinite(Fn), Xi * 1e2, np.nan)
    Phi_cov = np.where(np.isfinite(Fn)[:, :, None], np.abs(Phi) + 0.5, np.nan)
    return modes, Fn, Xi, Phi, Lab, owner, present, (Fn_cov, Xi_cov, Phi_cov)


def whole_cell(Fn_pol, Xi_pol, Phi_pol, covs, o, f, x, p, cv):
    """rows of column o that equal the returned mode in every parameter."""
    rows = []
    for i in np.where(np.isfinite(Fn_pol[:, o]))[0]:
        ok = Fn_pol[i, o] == f and Xi_pol[i, o] == x and np.array_equal(Phi_pol[i, o], p)
        if ok and covs is not None and cv is not None:
            ok = (np.array_equal(covs[0][i, o], cv[0], equal_nan=True) and np.array_equal(covs[1][i, o], cv[1], equal_nan=True)
                  and np.array_equal(covs[2][i, o], cv[2], equal_nan=True))
        if ok:
            rows.append(int(i))
    return rows


def judge_explicit(ctx, tag, sigp, req, orders, order_arg, rtol, tables, covs, ret):
    """ret = (Fn, Xi, Phi, order_out, Fn_cov, Xi_cov, Phi_cov) as returned; orders = list of one order per request."""
    Fn_pol, Xi_pol, Phi_pol = tables
    Fn, Xi, Phi, order_out = ret[0], ret[1], ret[2], ret[3]
    exp = []
    for f, o in zip(req, orders):
        col = Fn_pol[:, o]
        d = np.where(np.isfinite(col), np.abs(col - f), np.inf)
        dmin = float(d.min())
        edge = abs(dmin - rtol * f)
        if edge <= 1e-9 * f + 2e-8:
            ctx.not_judged("nearest pole within 1e-9 of the band edge")
            return None
        exp.append((f, o, dmin, dmin <= rtol * f))
    ctx.ev(tag)
    want = [e for e in exp if e[3]]
    Fn = np.atleast_1d(np.asarray(Fn, float))
    nret = len(Fn)
    if nret != len(want):
        # mechanism: a pole outside the band of its own request but inside the band of another request
        extra = ""
        for f, o, dmin, close in exp:
            if not close:
                col = Fn_pol[:, o]
                near = col[np.nanargmin(np.abs(col - f))]
                if any(abs(near - g) <= rtol * g for g in req if g != f):
                    extra = ":nearest_pole_is_close_to_another_request"
        ctx.fail(f"{sigp}:wrong_number_returned{extra}",
                 f"{tag}: {nret} modes returned, {len(want)} requests have a pole of the requested order within rtol={rtol}: requests {np.round(req, 4).tolist()} "
                 f"orders {orders} nearest distances {[round(e[2], 5) for e in exp]} returned Fn {np.round(Fn, 4).tolist()}")
        return False
    ok = True
    Xi = np.atleast_1d(np.asarray(Xi))
    Phi = np.asarray(Phi)
    if nret and not ctx.check(Xi.shape == (nret,) and Phi.ndim == 2 and Phi.shape[1] == nret, f"{sigp}:shapes", lambda: f"{tag}: shapes Fn{Fn.shape} Xi{Xi.shape} Phi{Phi.shape}"):
        return False
    for k, (f, o, dmin, _) in enumerate(want):
        cv = None
        if covs is not None and ret[4] is not None:
            cv = (np.atleast_1d(ret[4])[k], np.atleast_1d(ret[5])[k], np.asarray(ret[6])[:, k])
        rows = whole_cell(Fn_pol, Xi_pol, Phi_pol, covs, o, Fn[k], Xi[k], Phi[:, k], cv)
        if not rows:
            ctx.fail(f"{sigp}:not_one_whole_pole", f"{tag}: mode {k} (request {f:.5g} at order {o}) = (Fn {Fn[k]!r}, Xi {Xi[k]!r}, Phi {Phi[:, k]}) is not one whole retained pole of that order "
                     f"(frequency/damping/shape/covariances come from different cells or another order)")
            ok = False
            continue
        if not (abs(abs(Fn[k] - f) - dmin) <= 1e-12 * max(f, 1)):
            ctx.fail(f"{sigp}:not_nearest", f"{tag}: mode {k}: returned pole at distance {abs(Fn[k]-f):.5g} from the request {f:.5g}, nearest retained pole of order {o} is at {dmin:.5g}")
            ok = False
    if covs is not None:
        ctx.check(ret[4] is not None, f"{sigp}:covariances_dropped", f"{tag}: covariance tables given but no covariances returned")
    # order_out
    if isinstance(order_arg, int):
        ctx.check(np.ndim(order_out) == 0 and int(order_out) == orders[0], f"{sigp}:order_out", lambda: f"{tag}: order_out={order_out!r} for order {orders[0]}")
    else:
        ctx.check(np.array_equal(np.asarray(order_out, float), np.asarray(orders, float)), f"{sigp}:order_out", lambda: f"{tag}: order_out={order_out!r} for order list {orders}")
    return ok


def run_explicit(ctx, rng):
    from pyoma2.functions import plscf, ssi

    low = rng.random() < 0.2
    modes, Fn, Xi, Phi, Lab, owner, present, covs = make_table(rng, low)
    m, no = present.shape
    rtol = float(rng.choice([1e-3, 5e-3, 0.01, 0.05, 0.1]))
    nreq = int(rng.integers(1, m + 1))
    pick = np.sort(rng.permutation(m)[:nreq])
    req = [float(modes[k] * (1 + 0.3 * rtol * rng.uniform(-1, 1))) for k in pick]
    req_arg = None
    if not low and rng.random() < 0.2 and all(abs(round(modes[k]) - modes[k]) <= 0.25 * rtol * modes[k] and round(modes[k]) >= 1 for k in pick):
        req = [float(round(modes[k])) for k in pick]
        req_arg = [int(v) for v in req]  # what a user types: sel_freq=[2, 5, 9]
        ctx.state("whole-number requests of integer type")
    valid = [o for o in range(no) if np.isfinite(Fn[:, o]).any()]
    if not valid:
        ctx.not_judged("table without retained poles")
        return
    as_list = rng.random() < 0.5
    if as_list:
        orders = [int(rng.choice(valid)) for _ in req]
        order_arg = list(orders)
    else:
        o = int(rng.choice(valid))
        if rng.random() < 0.2:
            # the first column is an order like any other (pLSCF: polynomial order 1): order=0 asks for that column
            o = 0
            r0 = int(rng.integers(0, Fn.shape[0]))
            Fn[r0, 0] = req[0] * (1 + 0.2 * rtol * rng.uniform(-1, 1))
            Xi[r0, 0] = 0.0123
            Phi[r0, 0] = rng.standard_normal(Phi.shape[2]) + 1j * rng.standard_normal(Phi.shape[2])
            for cv in covs:
                cv[r0, 0] = 1e-3
            owner[r0, 0] = pick[0]
            present[pick[0], 0] = True
            ctx.state("order 0 requested as a single integer, column 0 holds the pole")
        orders = [o] * len(req)
        order_arg = o
    with_cov = rng.random() < 0.5
    placed = rng.random()
    if placed < 0.4:
        # poles placed relative to the band of ONE request: in the thin slivers next to the band edges (the band is relative to the requested
        # frequency, not to the pole: [f(1-rtol), f(1+rtol)] differs from [f/(1+rtol), f/(1-rtol)] by ~rtol^2), or two retained poles inside
        # the band with the farther one stored in an earlier row
        q = int(rng.integers(0, len(req)))
        f, o = req[q], orders[q]
        col = Fn[:, o]
        if np.isfinite(col).any():
            j = int(np.nanargmin(np.abs(col - f)))
            if placed < 0.2:
                u = float(rng.uniform(0.1, 0.9))
                Fn[j, o] = f * (1 + rtol + u * rtol**2) if rng.random() < 0.5 else f * (1 - rtol + u * rtol**2)
                ctx.state("nearest pole in an rtol^2 sliver at a band edge")
            elif Fn.shape[0] >= 2:
                i = int(rng.choice([r for r in range(Fn.shape[0]) if r != j]))
                Fn[j, o] = f * (1 + 0.3 * rtol * rng.uniform(-1, 1))
                Fn[i, o] = f * (1 + rng.choice([-1, 1]) * rtol * rng.uniform(0.5, 0.95))
                Xi[i, o] = Xi[j, o] * 1.3 if np.isfinite(Xi[j, o]) else 0.01
                Phi[i, o] = rng.standard_normal(Phi.shape[2]) + 1j * rng.standard_normal(Phi.shape[2])
                for cv in covs:
                    cv[i, o] = np.abs(cv[j, o]) * 1.7 if np.all(np.isfinite(cv[j, o])) else 1e-3
                if i > j:
                    for T in (Fn, Xi, Phi, Lab, owner) + tuple(covs):
                        T[[i, j], o] = T[[j, i], o]
                ctx.state("two retained poles in the band, the farther one in an earlier row")
    tabs = (Fn.copy(), Xi.copy(), Phi.copy())
    missing = any(not present[k, o] for k, o in zip(pick, orders))
    other = False
    for f, k, o in zip(req, pick, orders):
        col = Fn[:, o]
        j = np.nanargmin(np.abs(col - f))
        if owner[j, o] >= 0 and owner[j, o] != k and owner[j, o] in pick:
            other = True
    # SSI
    kw = dict(Fn_cov=covs[0].copy(), Xi_cov=covs[1].copy(), Phi_cov=covs[2].copy()) if with_cov else {}
    lab_arg = None if rng.random() < 0.5 else Lab.copy()  # an explicit order does not consult the labels, given or not
    ret = ssi.SSI_mpe(list(req_arg if req_arg is not None else req), Fn, Xi, Phi, order_arg, Lab=lab_arg, rtol=rtol, **kw)
    r1 = judge_explicit(ctx, "explicit-order@SSI_mpe", "ssi_explicit", req, orders, order_arg, rtol, tabs, covs if with_cov else None, ret)
    if rng.random() < 0.4:
        t3, c3, ret3 = through_class(ctx, rng, "explicit-order@SSIcov.mpe(synthetic tables)", "ssi_cls_synth", req, orders, order_arg, rtol, Fn, Xi, Phi, Lab, covs)
        judge_explicit(ctx, "explicit-order@SSIcov.mpe(synthetic tables)", "ssi_cls_synth_explicit", req, orders, order_arg, rtol, t3, c3, ret3)
    # pLSCF
    ret2 = plscf.pLSCF_mpe(list(req_arg if req_arg is not None else req), Fn, Xi, Phi, order_arg, Lab=lab_arg, rtol=rtol)
    r2 = judge_explicit(ctx, "explicit-order@pLSCF_mpe", "plscf_explicit", req, orders, order_arg, rtol, tabs, None, tuple(ret2) + (None, None, None))
    ctx.check(all(np.array_equal(a, b, equal_nan=True) for a, b in zip((Fn, Xi, Phi), tabs)), "tables_modified", "extraction modified the pole tables")
    if r1 is None and r2 is None:
        return
    ctx.state("order:list" if as_list else "order:int")
    if missing:
        ctx.state("mode missing at the order")
    if other:
        ctx.state("nearest pole belongs to another requested mode")
    if with_cov:
        ctx.state("with covariances")
    if low:
        ctx.state("f<1Hz requests")
    n_found = sum(1 for f, o in zip(req, orders) if np.nanmin(np.abs(Fn[:, o] - f)) <= rtol * f)
    ctx.state("all found" if n_found == len(req) else ("none found" if n_found == 0 else "some found"))
    if missing or other:
        ctx.nontrivial(("explicit", probes.sha(np.nan_to_num(Fn))[:10], tuple(orders), rtol))
    ctx.sample({"entry": "ssi.SSI_mpe / plscf.pLSCF_mpe explicit order", "modes": np.round(modes, 3).tolist(), "requests": np.round(req, 4).tolist(),
                "order": order_arg, "rtol": rtol, "modes present per order": present.astype(int).tolist()[:3], "covariances": with_cov})


def through_class(ctx, rng, tag, sigp, req, orders, order_arg, rtol, Fn, Xi, Phi, Lab, covs, allow_pad=True):
    """the same request through SSIcov.mpe on a result object holding the tables (with covariance tables); a whole-NaN row is put on top
    of every table half of the time (pole slots that no order fills are legal)."""
    from pyoma2.algorithms import SSIcov
    from pyoma2.algorithms.data.result import SSIResult

    if allow_pad and rng.random() < 0.5:
        pad = lambda T: np.concatenate([np.full((1,) + T.shape[1:], np.nan if T.dtype.kind in "fc" else 0, dtype=T.dtype), T], axis=0)  # noqa: E731
        Fn, Xi, Phi, Lab = pad(Fn), pad(Xi), pad(Phi), pad(Lab)
        covs = tuple(pad(c) for c in covs)
        ctx.state("class-level extraction: empty pole slot above the selected poles")
    a = SSIcov(name="synthetic", br=3, ordmax=Fn.shape[1] - 1)
    a.fs, a.dt = 100.0, 0.01
    a.data = np.zeros((10, Phi.shape[2]))
    a.result = SSIResult(Fn_poles=Fn.copy(), Xi_poles=Xi.copy(), Phi_poles=Phi.copy(), Lab=Lab.copy(), Lambds=Fn.astype(complex),
                         Fn_poles_cov=covs[0].copy(), Xi_poles_cov=covs[1].copy(), Phi_poles_cov=covs[2].copy())
    a.mpe(sel_freq=list(req), order=order_arg, rtol=rtol)
    r = a.result
    ret = (r.Fn, r.Xi, r.Phi, r.order_out, r.Fn_cov, r.Xi_cov, r.Phi_cov)
    ctx.ev(tag)
    return (Fn, Xi, Phi), covs, ret


def run_find_min(ctx, rng):
    for name in ("ssi", "plscf"):
        find_min_one(ctx, rng, name)


def find_min_one(ctx, rng, name):
    from pyoma2.functions import plscf, ssi

    low = rng.random() < 0.15
    modes, Fn, Xi, Phi, Lab, owner, present, covs = make_table(rng, low)
    m, no = present.shape
    rtol = float(rng.choice([4e-3, 0.01, 0.05]))
    deltaf = 0.05
    nreq = int(rng.integers(1, m + 1))
    adjacent = name == "ssi" and getattr(run_find_min, "adjacent", False) and m >= 2
    if adjacent:
        nreq = max(nreq, 2)
    pick = np.sort(rng.permutation(m)[:nreq])
    if adjacent:
        # two requested frequencies whose bands touch without overlapping (ratio between (1+rtol)/(1-rtol) and 1/(1-2 rtol)): each band is relative
        # to ITS request, so the upper band reaches below the midpoint of the two requests
        j_ = int(rng.integers(0, nreq - 1))
        lo_, hi_ = (1 + rtol) / (1 - rtol), 1 / (1 - 2 * rtol)
        modes = modes.copy()
        modes[pick[j_ + 1]] = modes[pick[j_]] * (lo_ + (hi_ - lo_) * float(rng.uniform(0.05, 0.9)))
        for k_ in range(pick[j_ + 1] + 1, len(modes)):
            modes[k_] = max(modes[k_], modes[k_ - 1] * 1.3)
        ctx.state("find_min: two requests with touching bands")
    req = [float(modes[k]) for k in pick]
    two_in_band = False

    def bands(f):
        # tight: inside every reading of the tolerance that the statement allows for this routine; wide: outside every reading
        if name == "ssi":
            return rtol * f, rtol * f  # the statement's tolerance is relative
        return min(rtol * f, deltaf), max(rtol * f, deltaf)

    for k in pick:
        f = modes[k]
        tight, wide = bands(f)
        for o in range(no):
            rr = np.where(owner[:, o] == k)[0]
            if len(rr) == 0:
                continue
            r = rr[0]
            if rng.random() < 0.7:
                Fn[r, o] = f + tight * rng.uniform(0.05, 0.5) * rng.choice([-1, 1]) * (1.0 if name == "plscf" else rng.choice([0.1, 1.0, 1.9]))
            else:
                Fn[r, o] = f + rng.choice([-1, 1]) * wide * rng.uniform(2.0, 2.5)
                owner[r, o] = -3
    if adjacent:
        # the pole of the upper request sits, at some orders, in the sliver between the lower edge of its band and the midpoint of the two requests
        f1_, f2_, k2_ = modes[pick[j_]], modes[pick[j_ + 1]], pick[j_ + 1]
        for o in range(no):
            rr = np.where(owner[:, o] == k2_)[0]
            if len(rr) and rng.random() < 0.6:
                a_, b_ = f2_ * (1 - rtol) * (1 + 1e-6), 0.5 * (f1_ + f2_) * (1 - 1e-6)
                if a_ < b_:
                    Fn[rr[0], o] = float(rng.uniform(a_, b_))
    for o in range(1, no):
        for r in range(Fn.shape[0]):
            if np.isfinite(Fn[r, o]):
                Lab[r, o] = int(rng.random() < (0.75 if owner[r, o] >= 0 else 0.15))
    if rng.random() < 0.4:
        k = int(rng.choice(pick))
        f = modes[k]
        tight, _ = bands(f)
        for o in range(1, no):
            free = np.where(~np.isfinite(Fn[:, o]))[0]
            has = np.where((owner[:, o] == k) & (Lab[:, o] == 1))[0]
            if len(free) and len(has):
                r = free[0]
                Fn[r, o] = f + tight * 0.45 * rng.uniform(-1, 1)
                while Fn[r, o] in Fn[has, o]:
                    Fn[r, o] += 1e-7
                Xi[r, o] = 0.9 + o * 1e-3
                Phi[r, o] = [-1, o, r]
                Lab[r, o] = 1
                owner[r, o] = -4
                two_in_band = True
                break

    if rng.random() < 0.4:
        # an UNSTABLE pole closer to the request than the stable in-band one: the stable pole is still the one to return, whole
        k = int(rng.choice(pick))
        f = modes[k]
        for o in range(1, no):
            free = np.where(~np.isfinite(Fn[:, o]))[0]
            has = np.where((owner[:, o] == k) & (Lab[:, o] == 1) & np.isfinite(Fn[:, o]))[0]
            if len(free) and len(has) and Fn[has[0], o] != f:
                r = free[-1]
                Fn[r, o] = f + 0.4 * (Fn[has[0], o] - f)
                Xi[r, o] = 0.7 + o * 1e-3
                Phi[r, o] = [-2, o, r]
                Lab[r, o] = 0
                owner[r, o] = -5
                ctx.state("find_min: unstable pole nearer to the request than the stable one")

    def expected(band):
        for o in range(no):
            rows = []
            good = True
            for f in req:
                w = band(f)
                inb = [r for r in range(Fn.shape[0]) if np.isfinite(Fn[r, o]) and Lab[r, o] == 1 and abs(Fn[r, o] - f) <= w]
                if len(inb) != 1:
                    good = False
                    break
                rows.append(inb[0])
            if good:
                return o, rows
        return None, None

    tabs = (Fn.copy(), Xi.copy(), Phi.copy())
    o_abs = None
    if name == "ssi":
        o_exp, rows = expected(lambda f: rtol * f)
        o_abs, _ = expected(lambda f: rtol)
        with_cov = rng.random() < 0.5
        kw = dict(Fn_cov=covs[0], Xi_cov=covs[1], Phi_cov=covs[2]) if with_cov else {}
        ret = ssi.SSI_mpe(list(req), Fn, Xi, Phi, "find_min", Lab=Lab, rtol=rtol, **kw)
        tag, sigp = "find_min@SSI_mpe", "ssi_find_min"
        if rng.random() < 0.3:
            # the same search through the class (result object holding the tables and their covariances)
            _, _, ret = through_class(ctx, rng, "find_min@SSIcov.mpe(synthetic tables)", "ssi_cls_synth", req, None, "find_min", rtol, Fn, Xi, Phi, Lab, covs, allow_pad=False)
            with_cov = True
            tag, sigp = "find_min@SSIcov.mpe(synthetic tables)", "ssi_cls_synth_find_min"
    else:
        o_exp, rows = expected(lambda f: min(rtol * f, deltaf))
        ret = tuple(plscf.pLSCF_mpe(list(req), Fn, Xi, Phi, "find_min", Lab=Lab, rtol=rtol)) + (None, None, None)
        with_cov = False
        tag, sigp = "find_min@pLSCF_mpe", "plscf_find_min"
    ctx.check(all(np.array_equal(a, b, equal_nan=True) for a, b in zip((Fn, Xi, Phi), tabs)), "tables_modified", "extraction modified the pole tables")
    if o_exp is None:
        ctx.not_judged("find_min: no order qualifies (behaviour not stated)")
        return
    ctx.ev(tag)
    ctx.state("find_min: qualifying order exists")
    Fn_r = np.atleast_1d(np.asarray(ret[0], float))
    o_out = ret[3]
    good = (o_out is not None and np.ndim(o_out) == 0 and int(o_out) == o_exp and len(Fn_r) == len(req))
    if good:
        for k, r in enumerate(rows):
            cv = (np.atleast_1d(ret[4])[k], np.atleast_1d(ret[5])[k], np.asarray(ret[6])[:, k]) if (with_cov and ret[4] is not None) else None
            if r not in whole_cell(tabs[0], tabs[1], tabs[2], covs if with_cov else None, o_exp, Fn_r[k], np.atleast_1d(ret[1])[k], np.asarray(ret[2])[:, k], cv):
                good = False
    if not good:
        mech = "wrong_order_or_pole"
        if name == "plscf" and len(Fn_r) == 0 and not (Lab == 7).any() and keys_on_label_7():
            # nothing can ever be found with labels 0/1 because the routine selects label 7 (calibration probe below)
            mech = "stable_label_is_7_not_1"
        elif name == "ssi" and o_abs != o_exp and ((o_out is None and o_abs is None) or (o_out is not None and np.ndim(o_out) == 0 and o_abs is not None and int(o_out) == o_abs)):
            mech = "absolute_band_instead_of_relative"
        ctx.fail(f"{sigp}:{mech}", f"{tag}: requests {np.round(req, 4).tolist()} rtol={rtol}: order_out={o_out!r}, lowest order with exactly one stable pole per band is {o_exp} "
                                   f"(absolute-band reading: {o_abs if name == 'ssi' else '-'}); returned Fn {np.round(Fn_r, 5).tolist()}")
    if name == "ssi" and o_abs != o_exp:
        ctx.state("find_min: f>1Hz pole between absolute and relative band")
    if two_in_band:
        ctx.state("find_min: two stable poles in one band at a lower order")
    ctx.nontrivial(("find_min", name, probes.sha(np.nan_to_num(Fn))[:10], rtol))
    if name == "ssi":
        ctx.sample({"entry": "ssi.SSI_mpe find_min", "requests": np.round(req, 4).tolist(), "rtol": rtol, "expected order": o_exp, "order under absolute band": o_abs,
                    "stable poles per order": (Lab == 1).sum(axis=0).tolist()})


_PROBE = {}


def keys_on_label_7():
    """calibration probe, once per process: on a canonical 2-mode table pLSCF_mpe('find_min') finds the modes iff stable poles carry label 7."""
    if "v" not in _PROBE:
        from pyoma2.functions import plscf
        Fn = np.full((3, 4), np.nan)
        Fn[0, 1:] = 10.0
        Fn[1, 1:] = 20.0
        Xi = np.where(np.isfinite(Fn), 0.01, np.nan)
        Phi = np.where(np.isfinite(Fn)[:, :, None], 1.0 + 0j, np.nan)
        Lab = np.where(np.isfinite(Fn), 1, 0)
        Lab[:, 1] = 0

        def found(L):
            try:
                out = plscf.pLSCF_mpe([10.0, 20.0], Fn, Xi, Phi, "find_min", Lab=L, rtol=0.01)
                return len(np.atleast_1d(out[0])) == 2
            except Exception:  # noqa: BLE001
                return False

        _PROBE["v"] = (not found(Lab)) and found(np.where(Lab == 1, 7, Lab))
    return _PROBE["v"]


def run_real(ctx, rng):
    import pyoma2.functions.plscf as P_
    import pyoma2.functions.ssi as S_
    from pyoma2.algorithms import SSIcov, pLSCF
    from pyoma2.setup import SingleSetup

    data, fn, xi, _ = gen.sim_response(rng, 4, 5000, 100.0, m=3)
    ss = SingleSetup(data, 100.0)
    ordmin_a = int(rng.choice([0, 0, 4, 8]))  # a class configured with ordmin > 0 reports table orders all the same
    if ordmin_a:
        ctx.state("class configured with ordmin > 0")
    a = SSIcov(name="ssi", br=8, ordmax=16, ordmin=ordmin_a, calc_unc=bool(rng.random() < 0.3), nb=20, hc=dict(conj=True, xi_max=0.1, mpc_lim=0.5, mpd_lim=0.5, cov_max=1e9))
    p = pLSCF(name="plscf", ordmax=8, nxseg=512)
    ss.add_algorithms(a, p)
    ss.run_all()
    rec = {}

    def spy(orig, key):
        def f(*args, **kw):
            out = orig(*args, **kw)
            rec[key] = (args, kw, out)
            return out
        return f

    with probes.patched(S_, "SSI_mpe", spy(S_.SSI_mpe, "ssi")), probes.patched(P_, "pLSCF_mpe", spy(P_.pLSCF_mpe, "plscf")):
        for alg, key, nord in ((a, "ssi", 17), (p, "plscf", 8)):
            r = alg.result
            valid = [o for o in range(r.Fn_poles.shape[1]) if np.isfinite(r.Fn_poles[:, o]).any()]
            if not valid:
                ctx.not_judged("run without retained poles")
                continue
            rtol = float(rng.choice([0.01, 0.05]))
            req = sorted(float(f * (1 + 0.2 * rtol * rng.uniform(-1, 1))) for f in fn)
            if rng.random() < 0.5:
                orders = [int(rng.choice(valid)) for _ in req]
                arg = list(orders)
            else:
                orders = [int(rng.choice(valid))] * len(req)
                arg = orders[0]
            ss.mpe(alg.name, sel_freq=list(req), order=arg, rtol=rtol)
            res = alg.result
            covs = None
            if key == "ssi" and res.Fn_poles_cov is not None:
                covs = (res.Fn_poles_cov, res.Xi_poles_cov, res.Phi_poles_cov)
            ret = (res.Fn, res.Xi, res.Phi, res.order_out, getattr(res, "Fn_cov", None), getattr(res, "Xi_cov", None), getattr(res, "Phi_cov", None))
            tag = "explicit-order@SSIcov.mpe(real run)" if key == "ssi" else "explicit-order@pLSCF.mpe(real run)"
            judge_explicit(ctx, tag, f"{key}_cls_explicit", req, orders, arg, rtol, (res.Fn_poles, res.Xi_poles, res.Phi_poles), covs, ret)
            ctx.check(key in rec, f"{key}_cls:function_not_used", f"{alg.name}.mpe did not go through the extraction routine")
            ctx.nontrivial(("real", key, tuple(orders), rtol))
        # history: successive extractions with different tolerances on the same object; each call must honour ITS rtol
        for alg, key in ((a, "ssi"), (p, "plscf")):
            res = alg.result
            valid = [o for o in range(res.Fn_poles.shape[1]) if np.isfinite(res.Fn_poles[:, o]).any()]
            if not valid:
                continue
            o = int(valid[-1])
            col = res.Fn_poles[:, o]
            f0 = float(col[np.isfinite(col)][0])
            req = [f0 * 1.03]  # 3 % away from a pole: rejected at rtol 0.01, accepted at 0.05 (unless another pole is nearer)
            for rt in (0.05, 0.01, 0.05, 0.01):
                ss.mpe(alg.name, sel_freq=list(req), order=o, rtol=rt)
                r2 = alg.result
                ret = (r2.Fn, r2.Xi, r2.Phi, r2.order_out, getattr(r2, "Fn_cov", None), getattr(r2, "Xi_cov", None), getattr(r2, "Phi_cov", None))
                covs = (r2.Fn_poles_cov, r2.Xi_poles_cov, r2.Phi_poles_cov) if (key == "ssi" and r2.Fn_poles_cov is not None) else None
                tag = "explicit-order@SSIcov.mpe(real run)" if key == "ssi" else "explicit-order@pLSCF.mpe(real run)"
                judge_explicit(ctx, tag, f"{key}_cls_rtol_history", req, [o], o, rt, (r2.Fn_poles, r2.Xi_poles, r2.Phi_poles), covs, ret)
            ctx.state("successive mpe calls with different rtol")
        # find_min through the SSI class
        r = a.result
        rtol = 0.02
        req = sorted(float(f) for f in fn)
        ss.mpe("ssi", sel_freq=list(req), order="find_min", rtol=rtol)
        res = a.result
        ctx.ev("find_min@SSIcov.mpe(real run)")
        exp = None
        for o in range(res.Fn_poles.shape[1]):
            rows = []
            for f in req:
                inb = [i for i in range(res.Fn_poles.shape[0]) if np.isfinite(res.Fn_poles[i, o]) and res.Lab[i, o] == 1 and abs(res.Fn_poles[i, o] - f) <= rtol * f]
                nearedge = [i for i in range(res.Fn_poles.shape[0]) if np.isfinite(res.Fn_poles[i, o]) and res.Lab[i, o] == 1
                            and (abs(abs(res.Fn_poles[i, o] - f) - rtol * f) <= 1e-6 or (rtol < abs(res.Fn_poles[i, o] - f) <= rtol * f and False))]
                if nearedge:
                    exp = "skip"
                rows.append(inb)
            if exp == "skip":
                break
            # conjugate pairs share one frequency: 'exactly one stable pole' is read per distinct frequency value
            if all(len({res.Fn_poles[i, o] for i in x}) == 1 for x in rows):
                exp = (o, rows)
                break
        if exp == "skip":
            ctx.not_judged("find_min real run: stable pole at a band edge")
        elif exp is None:
            ctx.not_judged("find_min real run: no order qualifies")
        else:
            o, rows = exp
            ok = res.order_out is not None and np.ndim(res.order_out) == 0 and int(res.order_out) == o and np.shape(res.Fn) == (len(req),)
            if ok:
                for k, x in enumerate(rows):
                    ok = ok and any(res.Fn[k] == res.Fn_poles[i, o] and res.Xi[k] == res.Xi_poles[i, o] and np.array_equal(res.Phi[:, k], res.Phi_poles[i, o]) for i in x)
            mech = "wrong_order_or_pole"
            if not ok:
                # absolute band reading?
                for o2 in range(res.Fn_poles.shape[1]):
                    if all(len({res.Fn_poles[i, o2] for i in range(res.Fn_poles.shape[0]) if np.isfinite(res.Fn_poles[i, o2]) and res.Lab[i, o2] == 1
                                and abs(res.Fn_poles[i, o2] - f) <= rtol}) == 1 for f in req):
                        break
                else:
                    o2 = None
                if (res.order_out is None and o2 is None) or (o2 is not None and res.order_out is not None and np.ndim(res.order_out) == 0 and int(res.order_out) == o2 and o2 != o):
                    mech = "absolute_band_instead_of_relative"
            ctx.check(ok, f"ssi_cls_find_min:{mech}", lambda: f"SSIcov.mpe(order='find_min', rtol={rtol}): order_out={res.order_out!r}, lowest qualifying order {o}; Fn={res.Fn}")


def run_case(ctx, case):
    if case["cls"] == "plumbing":
        return plumbing.run_case(ctx, case, gen.rng_of(case), PLUMB_FIELDS)
    rng = gen.rng_of(case)
    run_find_min.adjacent = case["cls"] == "find_min_tables" and case["k"] % 4 == 2
    {"explicit_tables": run_explicit, "find_min_tables": run_find_min, "real_runs": run_real}[case["cls"]](ctx, rng)
