"""Shard worker: runs a list of cases of one property inside one process and writes a JSON result."""
from __future__ import annotations

import collections
import importlib
import json
import logging
import os
import sys
import time
import traceback
import warnings

VERIF = os.path.dirname(os.path.dirname(os.path.abspath(__file__)))
sys.path.append(os.path.join(VERIF, ".deps"))  # icontract (after site-packages on purpose)

warnings.filterwarnings("ignore")
logging.disable(logging.CRITICAL)
os.environ.setdefault("MPLBACKEND", "Agg")

import numpy as np  # noqa: E402

np.seterr(all="ignore")

import tqdm  # noqa: E402
from functools import partialmethod  # noqa: E402

tqdm.tqdm.__init__ = partialmethod(tqdm.tqdm.__init__, disable=True)

REPO_SRC = os.path.join(os.environ.get("VERIF_REPO", "/repo"), "src")


class HarnessError(Exception):
    pass


class Ctx:
    """What a property module talks to while a case runs."""

    def __init__(self, pid, tier):
        self.pid = pid
        self.tier = tier
        self.monitors = collections.Counter()
        self.classes = collections.Counter()
        self.not_judged_c = collections.Counter()
        self.states = collections.Counter()
        self.nontrivial_s = set()
        self.samples = []
        self.violations = []
        self.inconclusive = []
        self.extra = {}
        self.case = None
        self.class_wall = collections.Counter()
        self.maxima = {}

    # --- counters
    def maxi(self, key, val):
        val = float(val)
        if val == val and val > self.maxima.get(key, -1e300):
            self.maxima[key] = val

    def ev(self, monitor, n=1):
        self.monitors[monitor] += int(n)

    def state(self, name, n=1):
        self.states[name] += int(n)

    def nontrivial(self, key):
        self.nontrivial_s.add(str(key))

    def not_judged(self, reason, n=1):
        self.not_judged_c[reason] += int(n)

    def sample(self, obj):
        if len(self.samples) < 3:
            self.samples.append(obj)

    def add_extra(self, key, val):
        if isinstance(val, (int, float)):
            self.extra[key] = self.extra.get(key, 0) + val
        elif isinstance(val, dict):
            d = self.extra.setdefault(key, {})
            for k, v in val.items():
                d[k] = d.get(k, 0) + v
        else:
            self.extra.setdefault(key, []).append(val)

    # --- verdicts
    def fail(self, sig, msg, detail=None):
        """Record a violation.  `sig` is a mechanism signature (matched against known_findings.json)."""
        self.violations.append({"sig": sig, "msg": str(msg)[:2000], "detail": detail, "case": self.case})

    def check(self, cond, sig, msg, detail=None):
        if not cond:
            self.fail(sig, msg() if callable(msg) else msg, detail)
        return bool(cond)

    def inconc(self, reason):
        self.inconclusive.append(f"{reason} case={json.dumps(self.case, default=str)[:300]}")


def lib_frame(tb):
    """innermost frame of the traceback that lies inside the repository under test."""
    hit = None
    for fs in traceback.extract_tb(tb):
        if fs.filename.startswith(REPO_SRC):
            hit = fs
    return hit


def setup_coverage(anchors):
    mon = sys.monitoring
    tool = mon.COVERAGE_ID
    try:
        mon.use_tool_id(tool, "verif")
    except ValueError:
        return None, {}, {}
    hits = collections.defaultdict(set)
    code2name = {}
    totals = {}
    for a in anchors:
        modname, qual = a.split(":")
        try:
            obj = importlib.import_module(modname)
            for part in qual.split("."):
                obj = getattr(obj, part)
            obj = getattr(obj, "__wrapped__", obj)
            code = obj.__code__
        except Exception:
            continue
        code2name[code] = a
        lines = {ln for _, _, ln in code.co_lines() if ln is not None and ln > code.co_firstlineno}
        totals[a] = len(lines)
        mon.set_local_events(tool, code, mon.events.LINE)

    def on_line(code, line):
        n = code2name.get(code)
        if n is not None and line > code.co_firstlineno:
            hits[n].add(line)
        return mon.DISABLE

    mon.register_callback(tool, mon.events.LINE, on_line)
    return tool, hits, totals


def main(inp, out):
    with open(inp) as f:
        job = json.load(f)
    pid, tier, cases = job["pid"], job["tier"], job["cases"]
    os.environ["VERIF_TIER"] = tier
    mod = importlib.import_module(f"vf.props.{pid.lower()}")
    # resolve anchors BEFORE any wrapping so that coverage is attached to the real code objects
    tool, hits, totals = setup_coverage(getattr(mod, "ANCHORS", []))
    ctx = Ctx(pid, tier)
    if hasattr(mod, "install"):
        mod.install(ctx)
    legit = getattr(mod, "LEGIT_EXC", ())
    for case in cases:
        ctx.case = case
        ctx.classes[case.get("cls", "?")] += 1
        t0 = time.time()
        try:
            mod.run_case(ctx, case)
        except legit as e:
            ctx.not_judged(f"legitimate {type(e).__name__} for this input class")
        except HarnessError as e:
            ctx.inconc(f"harness: {e}")
        except Exception as e:  # noqa: BLE001
            tb = e.__traceback__
            fr = lib_frame(tb)
            txt = "".join(traceback.format_exception(type(e), e, tb))[-1800:]
            if fr is not None:
                ctx.fail(f"exception:{type(e).__name__}@{os.path.basename(fr.filename)}:{fr.name}",
                         f"{type(e).__name__}: {e}", txt)
            else:
                ctx.inconc(f"harness exception {type(e).__name__}: {e} :: {txt[-700:]}")
        ctx.class_wall[case.get("cls", "?")] += time.time() - t0
    if hasattr(mod, "finish"):
        mod.finish(ctx)
    res = {
        "monitors": dict(ctx.monitors), "classes": dict(ctx.classes), "not_judged": dict(ctx.not_judged_c),
        "states": dict(ctx.states), "nontrivial": sorted(ctx.nontrivial_s), "samples": ctx.samples,
        "violations": ctx.violations, "inconclusive": ctx.inconclusive,
        "cover": {k: sorted(v) for k, v in hits.items()}, "cover_total": totals,
        "cases": len(cases), "class_wall": dict(ctx.class_wall), "extra": ctx.extra, "maxima": ctx.maxima,
    }
    with open(out, "w") as f:
        json.dump(res, f, default=lambda o: o.tolist() if hasattr(o, "tolist") else str(o))


if __name__ == "__main__":
    main(sys.argv[1], sys.argv[2])
