"""History / hand-over scenarios shared by the property modules ("plumbing" between the user and the numerics).

One oracle for all of them - *fresh equivalence*: whatever was done before (earlier runs with other parameters, parameters
changed in place / through set_run_params / by replacing the parameter object, diagrams looked at, the algorithm object used
in another setup at another sampling rate, a sibling algorithm whose name or parameters coincide), the result an algorithm holds
after `run` (+ `mpe`) must be the result a freshly created algorithm with the *current* parameters holds after the same calls on
a freshly created setup with the *current* data.  Both sides are computed by the library, so a fault of the numerics is not seen
here (the property's own oracles see it); a fault of the hand-over is.

A property module calls `run_case(ctx, case, rng, classes, fields)`; `fields` restricts the comparison to the result fields the
property is about (None = every field)."""
from __future__ import annotations

import copy

import numpy as np

from vf import gen

SCENARIOS = ["rerun_after_parameter_change", "diagrams_then_read", "same_instance_in_another_setup", "readded_after_decimation",
             "name_equals_another_class_name", "twin_algorithms", "requested_parameters_used", "extracted_twice"]

PERMISSIVE = dict(conj=True, xi_max=0.2, mpc_lim=0.3, mpd_lim=1.0, cov_max=1e9)


def _hc(cls):
    h = dict(PERMISSIVE)
    if cls.startswith("pLSCF"):
        h.pop("cov_max")
    return h


def spec(cls):
    """two parameter sets per class (every entry of the second differs from the first)"""
    if cls.endswith("+unc"):
        P1, P2 = spec(cls[:-4])
        P1.update(br=5, ordmax=6, calc_unc=True, nb=8, method="cov_mm")
        P2.update(br=6, ordmax=8, calc_unc=True, nb=12, method="cov_mm")
        return P1, P2
    if cls.startswith("SSI"):
        m1 = "dat" if cls.startswith("SSIdat") else "cov_mm"
        m2 = "dat" if cls.startswith("SSIdat") else "cov_R"
        P1 = dict(br=8, ordmax=12, ordmin=0, method=m1, hc=_hc(cls), sc=dict(err_fn=0.01, err_xi=0.05, err_phi=0.03))
        P2 = dict(br=10, ordmax=14, ordmin=4, method=m2, hc=dict(_hc(cls), xi_max=0.04, mpc_lim=0.6), sc=dict(err_fn=0.003, err_xi=0.2, err_phi=0.1))
        if not cls.endswith("_MS"):
            P2["ref_ind"] = [0, 2]
        return P1, P2
    if cls.startswith("pLSCF"):
        return (dict(ordmax=6, ordmin=0, nxseg=256, method_SD="per", pov=0.5, hc=_hc(cls), sc=dict(err_fn=0.01, err_xi=0.05, err_phi=0.03)),
                dict(ordmax=8, ordmin=2, nxseg=128, method_SD="cor", pov=0.25, hc=dict(_hc(cls), xi_max=0.04), sc=dict(err_fn=0.003, err_xi=0.2, err_phi=0.1)))
    if cls.startswith("FDD"):
        return dict(nxseg=256, method_SD="per", pov=0.5), dict(nxseg=128, method_SD="cor", pov=0.0)
    return dict(nxseg=1024, method_SD="per", pov=0.5), dict(nxseg=512, method_SD="cor", pov=0.0)  # EFDD / FSDD: long enough correlation functions


def mpe_args(cls, P, fn, alt=False):
    cls = cls.split("+")[0]
    sel = [float(f) for f in (fn[:1] if alt else fn)]
    if cls.startswith("SSI") or cls.startswith("pLSCF"):
        sel = [f * 1.03 for f in sel]  # 3 % beside the modes: found with rtol 0.05, not with 0.02 - the tolerance of THIS call matters
    if cls.startswith("SSI"):
        return dict(sel_freq=sel, order=int(P["ordmax"]) - (3 if alt else 1), rtol=0.02 if alt else 0.05)
    if cls.startswith("pLSCF"):
        return dict(sel_freq=sel, order=int(P["ordmax"]) - (3 if alt else 2), rtol=0.02 if alt else 0.05)
    if cls.startswith("FDD"):
        return dict(sel_freq=sel, DF=0.8 if alt else 0.4)
    return dict(sel_freq=sel, DF1=0.8 if alt else 0.4, DF2=3.0 if alt else 2.0, sppk=2, npmax=5 if alt else 6)


def make_data(rng, multi, fs=100.0, N=4000, seed_shift=0):
    nch = 4
    data, fn, *_ = gen.sim_response(rng, nch, N, fs, m=3, xi_rng=(0.01, 0.03), noise=0.05, fmax=0.35, minsep=0.08)
    if not multi:
        return dict(kind="single", data=data, fs=fs, fn=fn)
    d1 = data[: N // 2, :].copy()
    d2 = data[N // 2:, [1, 0, 3]].copy()
    return dict(kind="multi", datasets=[d1, d2], ref_ind=[[0, 1], [1, 0]], fs=fs, fn=fn)


def new_setup(D):
    """(copies keep the memory layout of the records: the ill-conditioned steps downstream - pLSCF's normal equations - turn the different
    summation order of another layout into visible differences, which is not what these scenarios are about)"""
    from pyoma2.setup import MultiSetup_PreGER, SingleSetup
    if D.get("share"):
        if D["kind"] == "single":
            return SingleSetup(D["data"], D["fs"])
        return MultiSetup_PreGER(D["fs"], [list(r) for r in D["ref_ind"]], list(D["datasets"]))
    if D["kind"] == "single":
        return SingleSetup(np.array(D["data"], copy=True, order="K"), D["fs"])
    return MultiSetup_PreGER(D["fs"], [list(r) for r in D["ref_ind"]], [np.array(d, copy=True, order="K") for d in D["datasets"]])


def algcls(name):
    import pyoma2.algorithms as A
    return getattr(A, name.split("+")[0])


def make_alg(cls, P, name=None):
    kw = copy.deepcopy(P)
    return algcls(cls)(name=name, **kw) if name else algcls(cls)(**kw)


def do_mpe(s, name, m):
    """extraction through the setup; a library exception is an outcome like any other (it must be the same on both sides)"""
    alg = s[name]
    try:
        s.mpe(name, **copy.deepcopy(m))
        alg._vf_mpe_outcome = "ok"
    except (ValueError, IndexError, np.linalg.LinAlgError) as e:
        alg._vf_mpe_outcome = type(e).__name__
    return alg._vf_mpe_outcome


def fresh(cls, P, D, mpe=None):
    s = new_setup(D)
    a = make_alg(cls, P, name="fresh_reference")
    s.add_algorithms(a)
    s.run_by_name("fresh_reference")
    if mpe is not None:
        do_mpe(s, "fresh_reference", mpe)
    return a


def _dump(r):
    return r.model_dump() if hasattr(r, "model_dump") else dict(r)


def _same(a, b):
    if a is None or b is None:
        return a is None and b is None
    if isinstance(a, dict) and isinstance(b, dict):
        return set(a) == set(b) and all(_same(a[k], b[k]) for k in a)
    if isinstance(a, (list, tuple)) and isinstance(b, (list, tuple)) and (len(a) == 0 or not np.isscalar(a[0])):
        return len(a) == len(b) and all(_same(x, y) for x, y in zip(a, b))
    try:
        x, y = np.asarray(a), np.asarray(b)
    except Exception:  # noqa: BLE001
        return a == b
    if x.shape != y.shape:
        return False
    if x.dtype.kind in "OUS" or y.dtype.kind in "OUS":
        return bool(np.all(x == y))
    sc = max(float(np.nanmax(np.abs(y))) if y.size and np.isfinite(y).any() else 0.0, 1e-300)
    return bool(np.allclose(x, y, rtol=1e-7, atol=1e-9 * sc, equal_nan=True))


def differing(r1, r2, fields=None):
    if r1 is None or r2 is None:
        return [] if (r1 is None and r2 is None) else ["<no result stored>"]
    d1, d2 = _dump(r1), _dump(r2)
    return _differing(d1, d2, fields)


def _differing(d1, d2, fields):
    keys = [k for k in d1 if (fields is None or k in fields)]
    return [k for k in keys if not _same(d1.get(k), d2.get(k))]


def _apply_change(rng, alg, cls, P2, how):
    """brings the algorithm's parameters to P2; returns a label"""
    RP = type(alg.run_params)
    if how == "attribute":
        for k, v in P2.items():
            setattr(alg.run_params, k, copy.deepcopy(v))
    elif how == "in_place_dict":
        for k, v in P2.items():
            if isinstance(v, dict) and isinstance(getattr(alg.run_params, k, None), dict):
                d = getattr(alg.run_params, k)
                for kk in list(d):
                    if kk not in v:
                        del d[kk]
                d.update(copy.deepcopy(v))  # the SAME dictionary object, edited in place
            else:
                setattr(alg.run_params, k, copy.deepcopy(v))
    elif how == "set_run_params":
        alg.set_run_params(RP(**copy.deepcopy(P2)))
    else:
        alg.run_params = RP(**copy.deepcopy(P2))
    return how


def _check(ctx, ok_fields, scen, cls, msg):
    return ctx.check(not ok_fields, f"plumbing:{scen}:{cls}", lambda: f"{cls}: {msg}; differing result fields: {ok_fields}")


def _cmp(ctx, alg, ref, fields, scen, cls, msg):
    """algorithm under test against the fresh reference: same extraction outcome, then the same result fields"""
    o1, o2 = getattr(alg, "_vf_mpe_outcome", "ok"), getattr(ref, "_vf_mpe_outcome", "ok")
    if not ctx.check(o1 == o2, f"plumbing:{scen}:{cls}:extraction_outcome", lambda: f"{cls}: {msg}; extraction outcome {o1} here, {o2} for a new algorithm"):
        return False
    if o1 != "ok":
        ctx.not_judged("plumbing: the extraction raises for this request on both sides")
        return True
    return _check(ctx, differing(alg.result, ref.result, fields), scen, cls, msg)


def _close_all():
    import matplotlib.pyplot as plt
    plt.close("all")


# --------------------------------------------------------------------------------------------------------------- scenarios
def rerun_after_parameter_change(ctx, rng, cls, fields, tag):
    multi = cls.split("+")[0].endswith("_MS")
    D = make_data(rng, multi)
    P1, P2 = spec(cls)
    s = new_setup(D)
    a = make_alg(cls, P1, name="a")
    s.add_algorithms(a)
    s.run_all()
    if rng.random() < 0.5:
        do_mpe(s, "a", mpe_args(cls, P1, D["fn"]))
    hows = ["attribute", "in_place_dict", "set_run_params", "replace_object"]
    if any(isinstance(v, dict) for v in P2.values()):
        hows.append("only_the_dictionaries_in_place")
    how = str(rng.choice(hows))
    if how == "only_the_dictionaries_in_place":
        # nothing but entries of the criteria / tolerance dictionaries change, inside the dictionary objects the algorithm already holds
        P2 = {k: (copy.deepcopy(P2[k]) if isinstance(P2[k], dict) else copy.deepcopy(v)) for k, v in P1.items()}
        for k, v in P2.items():
            if isinstance(v, dict):
                d = getattr(a.run_params, k)
                for kk in list(d):
                    if kk not in v:
                        del d[kk]
                d.update(copy.deepcopy(v))
    else:
        _apply_change(rng, a, cls, P2, how)
    via = str(rng.choice(["run_all", "run_by_name"]))
    getattr(s, via)(*([] if via == "run_all" else ["a"]))
    m2 = mpe_args(cls, P2, D["fn"])
    do_mpe(s, "a", m2)
    ref = fresh(cls, P2, D, m2)
    ctx.ev(tag)
    _cmp(ctx, a, ref, fields, "rerun_after_parameter_change", cls,
           f"run, parameters changed ({how}), {via}, mpe: the result is not that of a new algorithm with the current parameters")
    # and the dictionary-valued parameters still are what was asked for
    for k, v in P2.items():
        if isinstance(v, dict):
            ctx.check(dict(getattr(a.run_params, k)) == v, f"plumbing:parameter_dictionary_changed_by_run:{cls}", lambda: f"{cls}: run_params.{k} = {getattr(a.run_params, k)!r} after running, set to {v!r}")


def diagrams_then_read(ctx, rng, cls, fields, tag):
    multi = cls.split("+")[0].endswith("_MS")
    D = make_data(rng, multi)
    P1, _ = spec(cls)
    s = new_setup(D)
    a = make_alg(cls, P1, name="a")
    s.add_algorithms(a)
    s.run_all()
    before_run = copy.deepcopy(a.result)
    fl = (float(0.12 * D["fs"]), float(0.3 * D["fs"]))
    called = []
    for meth, kws in (("plot_stab", [dict(freqlim=fl, hide_poles=True), dict(freqlim=fl, hide_poles=False)]), ("plot_cluster", [dict(freqlim=fl, hide_poles=False)]),
                      ("plot_CMIF", [dict(freqlim=fl)]), ("plot_svalH", [dict()])):
        if hasattr(a, meth):
            for kw in kws:
                try:
                    getattr(a, meth)(**kw)
                    called.append(meth)
                except Exception:  # noqa: BLE001  (what a diagram shows is another property's business)
                    pass
    _close_all()
    ctx.ev(tag)
    _check(ctx, differing(a.result, before_run, fields), "diagrams_then_read", cls, f"looking at {sorted(set(called))} with a frequency window changed the stored result")
    m = mpe_args(cls, P1, D["fn"])
    do_mpe(s, "a", m)
    ref = fresh(cls, P1, D, m)
    _cmp(ctx, a, ref, fields, "diagrams_then_read", cls, "extraction after looking at the diagrams differs from extraction right after the run")
    after_mpe = copy.deepcopy(a.result)
    for meth, kw in (("plot_EFDDfit", dict(freqlim=fl)), ("plot_stab", dict(freqlim=fl)), ("plot_CMIF", dict(freqlim=fl))):
        if hasattr(a, meth):
            for _ in range(2):
                try:
                    getattr(a, meth)(**kw)
                except Exception:  # noqa: BLE001
                    pass
    _close_all()
    _check(ctx, differing(a.result, after_mpe, fields), "diagrams_then_read", cls, "looking at the diagrams after the extraction changed the extracted parameters")


def same_instance_in_another_setup(ctx, rng, cls, fields, tag):
    multi = cls.split("+")[0].endswith("_MS")
    D1 = make_data(rng, multi, fs=100.0)
    D2 = make_data(rng, multi, fs=float(rng.choice([80.0, 50.0, 200.0])), N=3600)
    P1, _ = spec(cls)
    s1, s2 = new_setup(D1), new_setup(D2)
    a = make_alg(cls, P1, name="a")
    s1.add_algorithms(a)
    s1.run_all()
    do_mpe(s1, "a", mpe_args(cls, P1, D1["fn"]))
    s2.add_algorithms(a)  # the same object goes on to the next recording
    s2.run_all()
    m = mpe_args(cls, P1, D2["fn"])
    do_mpe(s2, "a", m)
    ref = fresh(cls, P1, D2, m)
    ctx.ev(tag)
    _cmp(ctx, a, ref, fields, "same_instance_in_another_setup", cls,
           f"the algorithm object used before on a recording at {D1['fs']} Hz, then added to a setup at {D2['fs']} Hz: result differs from a new algorithm's on that setup")
    ctx.check(abs(a.dt * a.fs - 1) < 1e-12 and a.fs == D2["fs"], f"plumbing:dt_fs_inconsistent:{cls}", lambda: f"{cls}: algorithm holds fs={a.fs}, dt={a.dt} after being added to a setup at {D2['fs']} Hz")


def readded_after_decimation(ctx, rng, cls, fields, tag):
    multi = cls.split("+")[0].endswith("_MS")
    D = make_data(rng, multi, N=6000 if spec(cls)[0].get("nxseg", 256) <= 256 else 24000)  # enough segments left after the decimation
    P1, _ = spec(cls)
    s = new_setup(D)
    a = make_alg(cls, P1, name="a")
    s.add_algorithms(a)
    early = rng.random() < 0.5
    if early:
        s.run_all()
    q = int(rng.choice([2, 3]))
    s.decimate_data(q=q)
    Ddec = dict(D, fs=D["fs"] / q, share=True)  # the reference setup reads the very arrays the decimation produced (same values, same layout)
    if multi:
        Ddec["datasets"] = list(s.datasets)
    else:
        Ddec["data"] = s.data
    fn_ok = [f for f in D["fn"] if f < 0.4 * Ddec["fs"]] or list(D["fn"][:1])
    m = mpe_args(cls, P1, np.array(fn_ok))
    # (1) an algorithm attached BEFORE the step keeps a consistent (data, fs) pair: the result is that of the old pair or of the new pair
    s.run_all()
    do_mpe(s, "a", m)
    ctx.ev(tag)
    r_old = fresh(cls, P1, D, m)
    r_new = fresh(cls, P1, Ddec, m)
    d_old, d_new = differing(a.result, r_old.result, fields), differing(a.result, r_new.result, fields)
    outs = {getattr(x, "_vf_mpe_outcome", "ok") for x in (a, r_old, r_new)}
    if outs != {"ok"}:
        ctx.not_judged("plumbing: the extraction raises for this request on one of the compared sides")
        d_old = []
    ctx.check(not d_old or not d_new, f"plumbing:attached_before_decimation:{cls}",
              lambda: f"{cls} attached before decimate_data(q={q}) and run afterwards: result is neither that of the original (data, fs) nor of the decimated pair "
                      f"(fields differing from either: {d_old} / {d_new}); algorithm holds fs={a.fs}, dt={a.dt}, setup fs={s.fs}")
    # (2) handed to the setup again after the step (same object, same name): now it must see the processed records and their rate
    s.add_algorithms(a)
    s.run_all()
    do_mpe(s, "a", m)
    _cmp(ctx, a, r_new, fields, "readded_after_decimation", cls,
           f"added again after decimate_data(q={q}) (ran before: {early}): result differs from a new algorithm's on the decimated records; algorithm holds fs={a.fs}, dt={a.dt}")


def name_equals_another_class_name(ctx, rng, cls, fields, tag):
    multi = cls.split("+")[0].endswith("_MS")
    D = make_data(rng, multi)
    P1, P2 = spec(cls)
    s = new_setup(D)
    first = make_alg(cls, P1, name=f"{cls.split('+')[0]}_first")
    second = make_alg(cls, P2)  # no name given: it is called like its class
    s.add_algorithms(first, second)
    s.run_all()
    m1, m2 = mpe_args(cls, P1, D["fn"]), mpe_args(cls, P2, D["fn"], alt=True)
    do_mpe(s, second.name, m2)
    do_mpe(s, first.name, m1)
    ctx.ev(tag)
    ctx.check(s[second.name] is second and s[first.name] is first, f"plumbing:lookup_by_name_returns_another_algorithm:{cls}",
              lambda: f"setup['{second.name}'] is the algorithm named {s[second.name].name!r}")
    _cmp(ctx, first, fresh(cls, P1, D, m1), fields, "name_equals_another_class_name", cls,
           f"two {cls} in one setup, the second one named like the class: the first one's result differs from a lone algorithm's")
    _cmp(ctx, second, fresh(cls, P2, D, m2), fields, "name_equals_another_class_name", cls,
           f"two {cls} in one setup, the second one named like the class: the second one's result differs from a lone algorithm's")


def twin_algorithms(ctx, rng, cls, fields, tag):
    multi = cls.split("+")[0].endswith("_MS")
    D = make_data(rng, multi)
    P1, _ = spec(cls)
    s = new_setup(D)
    base = cls.split("+")[0]
    variant = getattr(twin_algorithms, "variant", "equal")
    if base in ("SSIcov", "SSIdat", "SSIcov_MS", "SSIdat_MS") and "+" not in cls and variant == "cross":
        # a data-driven and a covariance-driven analysis configured by ONE parameter object that leaves the method to each class
        other = base.replace("cov", "dat") if "cov" in base else base.replace("dat", "cov")
        Pn = {k: copy.deepcopy(v) for k, v in P1.items() if k != "method"}
        rp = algcls(base).RunParamCls(**copy.deepcopy(Pn))
        order = [base, other] if rng.random() < 0.5 else [other, base]
        algs = [algcls(c)(run_params=rp, name=f"x_{c}") for c in order]
        s.add_algorithms(*algs)
        s.run_all()
        m = mpe_args(base, Pn, D["fn"])
        for a_ in algs:
            do_mpe(s, a_.name, m)
        ctx.ev(tag)
        for c, a_ in zip(order, algs):
            _cmp(ctx, a_, fresh(c, Pn, D, m), fields, "twin_algorithms", cls,
                 f"{order[0]} and {order[1]} sharing one run-parameter object (method left to the class): {c}'s result differs from a lone {c}'s")
        return
    if variant == "sibling":
        # two algorithms of one class in one setup that differ in a single parameter (anything a shared intermediate could be keyed without)
        _, P2_ = spec(cls)
        k_ = str(rng.choice([k for k in P1 if P1[k] != P2_.get(k, P1[k]) and k not in ("ordmax", "br")] or [list(P1)[0]]))
        Pb = dict(copy.deepcopy(P1), **{k_: copy.deepcopy(P2_.get(k_, P1[k_]))})
        if "ordmin" in Pb and Pb["ordmin"] >= Pb.get("ordmax", 99):
            Pb["ordmin"] = 0
        order_ = [("s1", P1), ("s2", Pb)] if rng.random() < 0.5 else [("s2", Pb), ("s1", P1)]
        algs_ = [make_alg(cls, P_, name=n_) for n_, P_ in order_]
        s.add_algorithms(*algs_)
        s.run_all()
        s.run_all()
        m_ = mpe_args(cls, P1, D["fn"])
        for a_ in algs_:
            do_mpe(s, a_.name, m_)
        ctx.ev(tag)
        for (n_, P_), a_ in zip(order_, algs_):
            _cmp(ctx, a_, fresh(cls, P_, D, m_), fields, "twin_algorithms", cls, f"two {cls} in one setup differing only in {k_!r}: the result of {n_!r} differs from a lone algorithm's")
        return
    if rng.random() < 0.5:
        t1, t2 = make_alg(cls, P1, name="t1"), make_alg(cls, P1, name="t2")
        shared = False
    else:
        rp = algcls(cls).RunParamCls(**copy.deepcopy(P1)) if hasattr(algcls(cls), "RunParamCls") else None
        if rp is None:
            t1, t2 = make_alg(cls, P1, name="t1"), make_alg(cls, P1, name="t2")
            shared = False
        else:
            t1, t2 = algcls(cls)(run_params=rp, name="t1"), algcls(cls)(run_params=rp, name="t2")  # one parameter object for both
            shared = True
    s.add_algorithms(t1, t2)
    s.run_all()
    m1, m2 = mpe_args(cls, P1, D["fn"]), mpe_args(cls, P1, D["fn"][::-1], alt=True)
    do_mpe(s, "t1", m1)
    do_mpe(s, "t2", m2)
    ctx.ev(tag)
    _cmp(ctx, t1, fresh(cls, P1, D, m1), fields, "twin_algorithms", cls,
           f"two {cls} with equal parameters (shared parameter object: {shared}) in one setup, extraction on the second changed the first")
    _cmp(ctx, t2, fresh(cls, P1, D, m2), fields, "twin_algorithms", cls,
           f"two {cls} with equal parameters (shared parameter object: {shared}) in one setup: the second one's result differs from a lone algorithm's")


def requested_parameters_used(ctx, rng, cls, fields, tag):
    """every keyword given at construction is what run_params reports, and leaving one out means the documented default of the class"""
    _, P2 = spec(cls)
    a = make_alg(cls, P2, name="a")
    ctx.ev(tag)
    for k, v in P2.items():
        got = getattr(a.run_params, k, "<missing>")
        ok = (dict(got) == v) if isinstance(v, dict) and isinstance(got, dict) else (got == v)
        ctx.check(bool(ok), f"plumbing:constructor_keyword_not_recorded:{cls}:{k}", lambda: f"{cls}({k}={v!r}): run_params.{k} = {got!r}")
    # mpe arguments are recorded too, and the second of two different calls is answered with ITS arguments
    multi = cls.split("+")[0].endswith("_MS")
    D = make_data(rng, multi)
    P1, _ = spec(cls)
    s = new_setup(D)
    b = make_alg(cls, P1, name="b")
    s.add_algorithms(b)
    s.run_all()
    mA, mB = mpe_args(cls, P1, D["fn"], alt=True), mpe_args(cls, P1, D["fn"])
    do_mpe(s, "b", mA)
    do_mpe(s, "b", mB)
    _cmp(ctx, b, fresh(cls, P1, D, mB), fields, "requested_parameters_used", cls,
           f"two extractions with different arguments ({mA} then {mB}): the second is not answered like a first extraction with its arguments")
    do_mpe(s, "b", mA)
    _cmp(ctx, b, fresh(cls, P1, D, mA), fields, "requested_parameters_used", cls,
           f"extractions A, B, A with different arguments: the third is not answered like a first extraction with arguments A")


def extracted_twice(ctx, rng, cls, fields, tag):
    """an extraction reads what the run stored: it leaves those tables as they are, the same request gives the same answer again, and
    another request afterwards gives what it gives on a fresh run"""
    multi = cls.split("+")[0].endswith("_MS")
    D = make_data(rng, multi)
    P1, _ = spec(cls)
    s = new_setup(D)
    a = make_alg(cls, P1, name="a")
    s.add_algorithms(a)
    s.run_all()
    after_run = copy.deepcopy(a.result)
    stored = {k for k, v in _dump(after_run).items() if v is not None}
    m = mpe_args(cls, P1, D["fn"])
    o1 = do_mpe(s, "a", m)
    ctx.ev(tag)
    changed = [k for k in differing(a.result, after_run, fields) if k in stored]
    _check(ctx, changed, "extracted_twice", cls, f"the extraction ({o1}) changed what the run had stored")
    first = copy.deepcopy(a.result)
    o2 = do_mpe(s, "a", m)
    ctx.check(o1 == o2, f"plumbing:extracted_twice:{cls}:extraction_outcome", lambda: f"{cls}: the same extraction twice on one run: first {o1}, then {o2}")
    _check(ctx, differing(a.result, first, fields), "extracted_twice", cls, "the same extraction a second time on the same run gives another result")
    m2 = mpe_args(cls, P1, D["fn"], alt=True)
    do_mpe(s, "a", m2)
    ref = fresh(cls, P1, D, m2)
    _cmp(ctx, a, ref, fields, "extracted_twice", cls, "another request after two extractions differs from that request on a fresh run")


FUNCS = {f.__name__: f for f in (rerun_after_parameter_change, diagrams_then_read, same_instance_in_another_setup, readded_after_decimation,
                                 name_equals_another_class_name, twin_algorithms, requested_parameters_used, extracted_twice)}


def cases(n, classes):
    """n scenario cases, cycling scenarios x classes deterministically"""
    out = []
    for k in range(n):
        out.append({"cls": "plumbing", "scenario": SCENARIOS[k % len(SCENARIOS)], "alg": classes[(k // len(SCENARIOS)) % len(classes)], "k": 100000 + k,
                    "round": k // (len(SCENARIOS) * len(classes))})
    return out


def run_case(ctx, case, rng, fields=None, pid=""):
    cls = case["alg"]
    scen = case["scenario"]
    tag = f"plumbing:{scen}"
    f = fields.get(cls) if isinstance(fields, dict) else fields
    try:
        if scen == "twin_algorithms":
            # every kind of twin in every case (equal parameters / one parameter apart / for SSI a data- and a covariance-driven analysis
            # configured by one parameter object): which one a case exercises is not left to chance
            for v_ in ("equal", "sibling") + (("cross",) if cls.split("+")[0] in ("SSIcov", "SSIdat", "SSIcov_MS", "SSIdat_MS") and "+" not in cls else ()):
                twin_algorithms.variant = v_
                FUNCS[scen](ctx, rng, cls, f, tag)
                _close_all()
        else:
            FUNCS[scen](ctx, rng, cls, f, tag)
    except np.linalg.LinAlgError:
        ctx.not_judged("plumbing: workload gives a singular matrix in the library")
        return
    finally:
        _close_all()
    ctx.state(f"plumbing scenario {scen}")
    ctx.nontrivial(("plumbing", scen, cls, case["k"]))
