from common import *
exec(open("c08.py").read().split("nch=4; N=20000")[0])
rng=np.random.default_rng(5)
data,fn=sim(rng,3,4000,100.)
for step in (1,2):
    ss=SingleSetup(data,100.); a=SSIcov(name="a",br=8,ordmax=12,step=step); ss.add_algorithms(a)
    try: ss.run_all(); print("step",step,"ok",a.result.Fn_poles.shape)
    except Exception as e: print("step",step,"EXC",type(e).__name__,e)
