from common import *
from pyoma2.functions import fdd
rng = np.random.default_rng(int(sys.argv[1]) if len(sys.argv)>1 else 0)
bad=0; tot=0
for trial in range(300):
    nch=int(rng.integers(2,9)); nf=int(rng.integers(20,300)); fs=10**rng.uniform(0,3)
    freq=np.arange(nf)*fs/(2*(nf-1)); df=freq[1]
    # hermitian PSD: sum of rank-1 bells + floor
    S=np.zeros((nch,nch,nf),complex)
    for k in range(int(rng.integers(1,4))):
        a=rng.standard_normal(nch)+1j*rng.standard_normal(nch)
        f0=rng.uniform(0.05,0.95)*freq[-1]; w=rng.uniform(1,10)*df
        bell=1/((freq-f0)**2+w**2)
        S+=np.conj(a)[:,None,None]*a[None,:,None]*bell[None,None,:]
    W=rng.standard_normal((nch,nch))+1j*rng.standard_normal((nch,nch)); S+= (W@W.conj().T)[:,:,None]*1e-3*np.max(abs(S))
    Sval,Svec=fdd.SD_svalsvec(S)
    # decomposition check
    for k in rng.integers(0,nf,3):
        U=Svec[:,:,k].conj().T  # columns = left sing vectors
        s=np.diag(Sval[:,:,k])**2
        assert np.all(np.diff(s)<=1e-12*s[0]) and np.all(s>=0)
        assert np.allclose(U.conj().T@U,np.eye(nch),atol=1e-10)
        rec=U@np.diag(s)@U.conj().T
        assert np.allclose(rec,S[:,:,k],rtol=1e-8,atol=1e-10*abs(S[:,:,k]).max()), "recon"
    nsel=int(rng.integers(1,4))
    sel=list(rng.uniform(freq[1],freq[-2],nsel)); DF=rng.uniform(1,15)*df
    Fn,Phi=fdd.FDD_mpe(Sval,Svec,freq,sel,DF=DF)
    for j,f in enumerate(sel):
        tot+=1
        i=np.argmin(abs(freq-Fn[j])); 
        on_grid = abs(freq[i]-Fn[j])<1e-12*fs
        lo,hi=f-DF,f+DF
        inside = (Fn[j]>=lo-df/2-1e-9) and (Fn[j]<=hi+df/2+1e-9)
        ratio=np.linalg.svd(S[:,:,i],compute_uv=False); r=ratio[0]/ratio[1]
        # strict interior lines
        inner=[k for k in range(nf) if freq[k]>=lo+df/2 and freq[k]<=hi-df/2]
        rmax=max((lambda s:(s[0]/s[1]))(np.linalg.svd(S[:,:,k],compute_uv=False)) for k in inner) if inner else 0
        U=np.linalg.svd(S[:,:,i])[0][:,0]
        m=mac(Phi[:,j],np.conj(U))
        okk = on_grid and inside and r>=rmax*(1-1e-9) and m>1-1e-9 and abs(np.max(abs(Phi[:,j]))-1)<1e-12
        if not okk:
            i0=np.argmin(abs(freq-lo)); i1=np.argmin(abs(freq-hi)); rr=np.array([(lambda s:(s[0]/s[1]))(np.linalg.svd(S[:,:,k],compute_uv=False)) for k in range(i0,i1+1)]); print(i0,i1,i,inner[0],inner[-1],np.round(rr,4), np.round(Sval[0,0,i0:i1+1]/Sval[1,1,i0:i1+1],4))
            bad+=1; print("BAD",trial,on_grid,inside,r,rmax,m, f, DF/df, Fn[j], lo, hi)
print(bad,tot)
