from common import *
import itertools, hashlib, collections, copy, traceback
from scipy import signal
from pyoma2.setup import SingleSetup, MultiSetup_PreGER
from pyoma2.algorithms import FDD
rng=np.random.default_rng(0)
OPS=[("decimate",dict(q=2)),("decimate",dict(q=3,ftype="fir")),("decimate",dict(q=2,n=4,zero_phase=False)),("detrend",dict()),("detrend",dict(type="constant")),("filter",dict(Wn=3.0,order=4,btype="lowpass")),("filter",dict(Wn=(1.0,4.0),order=2,btype="bandpass")),("rollback",dict())]
def model_apply(arrs,fs,op,kw):
    if op=="decimate":
        k=dict(kw); q=k.pop("q"); return [signal.decimate(a,q,axis=0,**k) for a in arrs], fs/q
    if op=="detrend": return [signal.detrend(a,axis=0,**kw) for a in arrs], fs
    if op=="filter":
        sos=signal.butter(kw["order"],kw["Wn"],btype=kw["btype"],output="sos",fs=fs); return [signal.sosfiltfilt(sos,a,axis=0) for a in arrs], fs
def split(arrs,refs):
    out=[]
    for a,r in zip(arrs,refs):
        mov=[c for c in range(a.shape[1]) if c not in r]
        out.append((a[:,r].T,a[:,mov].T))
    return out
def run(kind,seq,fs0=20.):
    sigs=collections.Counter()
    if kind=="single":
        d0=[rng.standard_normal((700,3))]; refs=None
        user=[d0[0].copy()]; obj=SingleSetup(user[0],fs0)
    else:
        d0=[rng.standard_normal((700,4)),rng.standard_normal((650,3))]; refs=[[2,0],[1,0]]
        user=[a.copy() for a in d0]; obj=MultiSetup_PreGER(fs0,[list(r) for r in refs],user)
    cur=[a.copy() for a in d0]; fs=fs0
    for step,(op,kw) in enumerate(seq):
        try:
            if op=="rollback": obj.rollback(); cur=[a.copy() for a in d0]; fs=fs0
            else:
                getattr(obj,{"decimate":"decimate_data","detrend":"detrend_data","filter":"filter_data"}[op])(**kw)
                cur,fs=model_apply(cur,fs,op,kw)
        except Exception as e:
            sigs[f"{kind}:{op}:EXC:{type(e).__name__}:{str(e)[:60]}"]+=1; return sigs
        # compare
        def chk(name,a,b,tol=1e-9):
            ok = (np.shape(a)==np.shape(b)) and np.allclose(a,b,rtol=tol,atol=tol*max(1.0,np.max(np.abs(b)) if np.size(b) else 1))
            if not ok: sigs[f"{kind}:after {op}:{name}"]+=1
        if kind=="single":
            chk("data",obj.data,cur[0]); chk("fs",obj.fs,fs); chk("dt",obj.dt,1/fs); chk("Ndat",obj.Ndat,cur[0].shape[0]); chk("T",obj.T,cur[0].shape[0]/fs)
            alg=FDD(name="p"); obj.add_algorithms(alg); chk("alg.data",alg.data,cur[0]); chk("alg.fs",alg.fs,fs); chk("alg.dt",alg.dt,1/fs)
        else:
            sp=split(cur,refs)
            for k in range(len(cur)):
                chk("data.ref",obj.data[k]["ref"],sp[k][0]); chk("data.mov",obj.data[k]["mov"],sp[k][1]); chk("datasets",obj.datasets[k],cur[k])
            chk("fs",obj.fs,fs); chk("dt",obj.dt,1/fs); chk("Ndats",obj.Ndats,[a.shape[0] for a in cur]); chk("Ts",obj.Ts,[a.shape[0]/fs for a in cur])
            alg=FDD(name="p"); obj.add_algorithms(alg); chk("alg.fs",alg.fs,fs); chk("alg.dt",alg.dt,1/fs)
            for k in range(len(cur)): chk("alg.data.ref",alg.data[k]["ref"],sp[k][0])
        for u,d in zip(user,d0):
            if not np.array_equal(u,d): sigs[f"{kind}:user array modified after {op}"]+=1
        init = [obj._initial_data] if kind=="single" else obj._initial_datasets
        for u,d in zip(init,d0):
            if not np.array_equal(u,d): sigs[f"{kind}:initial copy modified after {op}"]+=1
    return sigs
import sys
L=int(sys.argv[1]) if len(sys.argv)>1 else 2
for kind in ("single","preger"):
    tot=collections.Counter(); n=0
    for l in range(1,L+1):
        for seq in itertools.product(OPS,repeat=l):
            n+=1; tot.update(run(kind,seq))
    print(kind,"sequences",n)
    for k,v in sorted(tot.items()): print("   ",v,k)
