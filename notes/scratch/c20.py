from common import *
import matplotlib; matplotlib.use("Agg")
import matplotlib.pyplot as plt
from pyoma2.functions import plot
exec(open("c08.py").read().split("nch=4; N=20000")[0])
rng=np.random.default_rng(5)
data,fn=sim(rng,3,8000,100.)
ss=SingleSetup(data,100.)
a=SSIcov(name="a",br=8,ordmax=14,method="cov_mm",calc_unc=True,nb=20); p=pLSCF(name="p",ordmax=8,nxseg=512); f=FDD(name="f",nxseg=512)
ss.add_algorithms(a,p,f); ss.run_all()
for alg in (a,p):
    for hide in (True,False):
        fig,ax=alg.plot_stab(hide_poles=hide)
        r=alg.result
        lines=[l for l in ax.get_lines() if l.get_marker()=="o"]
        print(type(alg).__name__,hide,"lines with o:",len(lines),"collections:",[type(c).__name__ for c in ax.collections][:6])
        xs,ys=lines[0].get_data(); fin=np.isfinite(np.asarray(xs,float))
        got=sorted(zip(np.asarray(xs)[fin],np.asarray(ys)[fin]))
        exp=sorted((r.Fn_poles[i,j],j) for i in range(r.Fn_poles.shape[0]) for j in range(r.Fn_poles.shape[1]) if r.Lab[i,j]==1 and np.isfinite(r.Fn_poles[i,j]))
        print("  stable markers match:",np.allclose(got,exp) if len(got)==len(exp) else (len(got),len(exp)))
        if not hide:
            from matplotlib.collections import PathCollection
            pc=[c for c in ax.collections if isinstance(c,PathCollection)]
            off=np.ma.filled(pc[0].get_offsets(),np.nan); off=off[np.isfinite(off[:,0])]
            expu=sorted((r.Fn_poles[i,j],j) for i in range(r.Fn_poles.shape[0]) for j in range(r.Fn_poles.shape[1]) if r.Lab[i,j]==0 and np.isfinite(r.Fn_poles[i,j]))
            print("  unstable match:",np.allclose(sorted(map(tuple,off)),expu) if len(off)==len(expu) else (len(off),len(expu)))
        plt.close("all")
    try:
        fig,ax=alg.plot_cluster(hide_poles=False); print(type(alg).__name__,"cluster ok")
    except Exception as e: print(type(alg).__name__,"cluster EXC",type(e).__name__,e)
fig,ax=f.plot_CMIF(nSv=2); 
print("CMIF lines",len(ax.get_lines()), [np.allclose(l.get_ydata(),10*np.log10(f.result.S_val[k,k]/f.result.S_val[0,0].max())) for k,l in enumerate(ax.get_lines())], [np.array_equal(l.get_xdata(),f.result.freq) for l in ax.get_lines()])
