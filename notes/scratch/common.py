import numpy as np, os, sys, logging
os.environ.setdefault("MPLBACKEND","Agg")
logging.disable(logging.CRITICAL)
import tqdm
# silence tqdm
from functools import partialmethod
tqdm.tqdm.__init__ = partialmethod(tqdm.tqdm.__init__, disable=True)

def make_system(rng, m, nch, fs, complex_shapes=False, xi_rng=(0.002,0.08), fmax=0.45, minsep=0.02):
    # distinct freqs in (0, fmax*fs)
    while True:
        fn = np.sort(rng.uniform(0.02*fs, fmax*fs, m))
        if m==1 or np.min(np.diff(fn))>minsep*fs: break
    xi = rng.uniform(*xi_rng, m)
    Phi = rng.standard_normal((nch,m))
    if complex_shapes:
        Phi = Phi + 1j*0.5*rng.standard_normal((nch,m))
    lam = 2*np.pi*fn*(-xi+1j*np.sqrt(1-xi**2))
    return fn, xi, Phi, lam

def free_decay(rng, fn, xi, Phi, lam, fs, N):
    m = len(fn)
    t = np.arange(N)/fs
    q0 = (rng.uniform(0.5,2,m))*np.exp(1j*rng.uniform(0,2*np.pi,m))
    Y = np.real((Phi*q0[None,:]) @ np.exp(lam[:,None]*t[None,:]))  # nch x N
    return Y

def mac(a,b):
    return abs(np.vdot(a,b))**2/(np.vdot(a,a).real*np.vdot(b,b).real)
