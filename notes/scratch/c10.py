from common import *
from pyoma2.functions import gen
rng=np.random.default_rng(int(sys.argv[1]) if len(sys.argv)>1 else 0)
def model(Fn,Xi,Phi,ordmin,ordmax,efn,exi,ephi, first_col=0):
    Lab=np.zeros(Fn.shape,int); und=np.zeros(Fn.shape,bool)
    for o in range(Fn.shape[1]):
        if o<ordmin or o>ordmax or o==first_col: continue
        prev=Fn[:,o-1]
        if np.all(np.isnan(prev)): continue
        for i in range(Fn.shape[0]):
            if np.isnan(Fn[i,o]): continue
            d=np.abs(prev-Fn[i,o]); j=np.nanargmin(d)
            # ties
            c1=abs(Fn[i,o]-prev[j])/Fn[i,o]; c2=abs(Xi[i,o]-Xi[j,o-1])/Xi[i,o]
            a=Phi[i,o]; b=Phi[j,o-1]
            c3=1-abs(np.vdot(a,b))**2/(np.vdot(a,a).real*np.vdot(b,b).real)
            near=any(abs(c-t)<=1e-9*max(1,abs(t)) for c,t in ((c1,efn),(c2,exi),(c3,ephi)))
            ties=np.sum(np.isclose(d,d[j],rtol=1e-12,atol=0))>1
            if near or ties: und[i,o]=True
            Lab[i,o]=int(c1<efn and c2<exi and c3<ephi)
    return Lab,und
tot=0;bad=0;stab=0
for t in range(300):
    nr=int(rng.integers(2,12)); no=int(rng.integers(2,40)); nch=int(rng.integers(2,6))
    base=np.sort(rng.uniform(1,50,nr))
    Fn=base[:,None]*(1+rng.choice([1e-4,5e-3,0.02],size=(nr,no))*rng.standard_normal((nr,no)))
    Xi=0.02*(1+rng.choice([1e-3,0.03,0.2],size=(nr,no))*rng.standard_normal((nr,no)))
    P0=rng.standard_normal((nr,nch))+1j*rng.standard_normal((nr,nch))
    Phi=P0[:,None,:]+rng.choice([1e-3,0.1,0.5],size=(nr,no,1))*(rng.standard_normal((nr,no,nch))+1j*rng.standard_normal((nr,no,nch)))
    mask=rng.random((nr,no))<rng.choice([0,0.2,0.6])
    if rng.random()<0.3: mask[:,rng.integers(0,no)]=True
    # shuffle rows per column
    for o in range(no):
        p=rng.permutation(nr); Fn[:,o]=Fn[p,o]; Xi[:,o]=Xi[p,o]; Phi[:,o]=Phi[p,o]; mask[:,o]=mask[p,o]
    Fn[mask]=np.nan; Xi[mask]=np.nan; Phi[mask]=np.nan
    ordmax=no-1; ordmin=int(rng.integers(0,ordmax+1))
    efn,exi,ephi=rng.choice([0.001,0.01,0.05]),rng.choice([0.01,0.05,0.3]),rng.choice([0.001,0.03,0.2])
    L=gen.SC_apply(Fn,Xi,Phi,ordmin,ordmax,1,efn,exi,ephi)
    M,und=model(Fn,Xi,Phi,ordmin,ordmax,efn,exi,ephi)
    diff=(L!=M)&~und
    tot+=L.size; stab+=M.sum()
    if diff.any():
        bad+=1; i,o=np.argwhere(diff)[0]; print("DIFF",t,"cell",i,o,"code",L[i,o],"model",M[i,o],"ordmin",ordmin,"ordmax",ordmax,"prev all nan",np.all(np.isnan(Fn[:,o-1])))
print(bad,tot,stab)
