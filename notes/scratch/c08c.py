from common import *
exec(open("c08.py").read().split("nch=4; N=20000")[0])
from scipy.stats import ortho_group
rng=np.random.default_rng(3)
nch=4; data,fn=sim(rng,nch,12000,100.)
def run(data,ref=None):
    ss=SingleSetup(data,100.)
    algs=[FDD(name="FDD",nxseg=512),EFDD(name="EFDD",nxseg=1024),SSIcov(name="SSIcov",br=10,ordmax=12,ref_ind=ref,hc=dict(conj=True,xi_max=0.1,mpc_lim=-1.0,mpd_lim=10.0,cov_max=0.2)),SSIdat(name="SSIdat",br=10,ordmax=12,ref_ind=ref,hc=dict(conj=True,xi_max=0.1,mpc_lim=-1.0,mpd_lim=10.0,cov_max=0.2)),pLSCF(name="pLSCF",ordmax=6,nxseg=512)]
    ss.add_algorithms(*algs); ss.run_all()
    ss.mpe("FDD",sel_freq=list(fn),DF=2.); ss.mpe("EFDD",sel_freq=list(fn),DF1=2.,DF2=5.)
    return {a.name:a.result for a in algs}
def cmp_tables(r0,r1,Q):
    # compare columns as multisets by (fn,xi); phi via MAC with Q
    F0,X0,P0=r0.Fn_poles,r0.Xi_poles,r0.Phi_poles; F1,X1,P1=r1.Fn_poles,r1.Xi_poles,r1.Phi_poles
    worst=[0,0,0]
    for c in range(F0.shape[1]):
        i0=[i for i in range(F0.shape[0]) if np.isfinite(F0[i,c])]; i1=[i for i in range(F1.shape[0]) if np.isfinite(F1[i,c])]
        if len(i0)!=len(i1): return ("count",c,len(i0),len(i1))
        used=set()
        for i in i0:
            best=None
            for j in i1:
                if j in used: continue
                d=abs(F0[i,c]-F1[j,c])/F0[i,c]+abs(X0[i,c]-X1[j,c])
                m=mac(Q@P0[i,c],P1[j,c])
                sc=d+(1-m)
                if best is None or sc<best[0]: best=(sc,j,abs(F0[i,c]-F1[j,c])/F0[i,c],abs(X0[i,c]-X1[j,c]),1-m)
            used.add(best[1]); worst=[max(worst[0],best[2]),max(worst[1],best[3]),max(worst[2],best[4])]
    return worst
base=run(data)
perm=rng.permutation(nch); Pm=np.eye(nch)[perm]   # new = data[:,perm] -> phi_new = phi[perm] = Pm@phi
rp=run(data[:,perm])
Q=ortho_group.rvs(nch,random_state=1); rq=run(data@Q.T)   # y' = Q y
for nm in ("SSIcov","SSIdat","pLSCF"):
    print(nm,"perm",cmp_tables(base[nm],rp[nm],Pm),"orth",cmp_tables(base[nm],rq[nm],Q))
for nm in ("FDD","EFDD"):
    print(nm,"perm Fn",np.max(abs(base[nm].Fn-rp[nm].Fn)),"mac",[1-mac(Pm@base[nm].Phi[:,k],rp[nm].Phi[:,k]) for k in range(3)],"orth Fn",np.max(abs(base[nm].Fn-rq[nm].Fn)),[1-mac(Q@base[nm].Phi[:,k],rq[nm].Phi[:,k]) for k in range(3)], "Xi" if nm=="EFDD" else "", (np.max(abs(base[nm].Xi-rq[nm].Xi)) if nm=="EFDD" else ""))
# with ref subset and permutation mapping
ref=[0,2]; newref=[int(np.where(perm==r)[0][0]) for r in ref]
b2=run(data,ref); p2=run(data[:,perm],newref)
for nm in ("SSIcov","SSIdat"): print(nm,"perm with refs",cmp_tables(b2[nm],p2[nm],Pm))
