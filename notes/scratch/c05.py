from common import *
from pyoma2.functions import plscf
import scipy.linalg as sl
rng = np.random.default_rng(int(sys.argv[1]) if len(sys.argv)>1 else 0)
def polyeig_roots(alpha):
    # alpha: (n+1, Nch, Nch), sum alpha_j x^j ; generalized eig of pencil
    n = alpha.shape[0]-1; N = alpha.shape[1]
    # linearization: [0 I; -a0 -a1 ...] v = x [I 0; 0 an] v
    A = np.zeros((n*N,n*N)); B = np.eye(n*N)
    A[:-N, N:] = np.eye((n-1)*N)
    for j in range(n): A[-N:, j*N:(j+1)*N] = -alpha[j]
    B[-N:, -N:] = alpha[n]
    return sl.eigvals(A,B)
for trial in range(30):
    n = int(rng.integers(1,9)); Nch=int(rng.integers(2,6)); Nref=int(rng.integers(1,6))
    dt = 10**rng.uniform(-3,0); sgn = int(rng.choice([-1,1]))
    Nf = int(4*(n+1)*rng.integers(1,6) + rng.integers(0,7))
    # well-conditioned A: build from block roots? simple: random coefficients with dominant A0/An
    alpha = rng.standard_normal((n+1,Nch,Nch))*0.5
    alpha[0] += 2*np.eye(Nch); alpha[n] += 2*np.eye(Nch)
    beta = rng.standard_normal((n+1,Nref,Nch))
    fs=1/dt; freq=np.linspace(0,fs/2,Nf); Om=np.exp(sgn*1j*2*np.pi*freq*dt)
    Sy = np.zeros((Nref,Nch,Nf),complex)
    for k,x in enumerate(Om):
        Ax = sum(alpha[j]*x**j for j in range(n+1)); Bx = sum(beta[j]*x**j for j in range(n+1))
        Sy[:,:,k] = Bx@np.linalg.inv(Ax)
    ordmax = n + int(rng.integers(0,3))
    Ad,Bn = plscf.pLSCF(Sy, dt, ordmax, sgn_basf=sgn)
    A_est = Ad[n-1]
    norm = alpha[0] if sgn==-1 else alpha[n]
    A_true = np.array([a@np.linalg.inv(norm) for a in alpha])
    errA = np.max(abs(A_est-A_true))/np.max(abs(A_true))
    Fn,Xi,Phi,Lam = plscf.pLSCF_poles(Ad,Bn,dt,"per",1024)
    roots = polyeig_roots(alpha); lam = np.log(roots)/dt
    keep = lam[lam.real<=0]
    col = Lam[:,n-1]; got = col[~np.isnan(col)]
    # match multisets
    ok = len(got)==len(keep)
    d = max((np.min(abs(keep-g))/abs(g) for g in got), default=0) if len(keep) else None
    d2 = max((np.min(abs(got-g))/abs(g) for g in keep), default=0) if len(got) else None
    fnok = np.nanmax(abs(Fn[:,n-1]-abs(col)/(2*np.pi)))
    print(f"n={n} Nch={Nch} Nref={Nref} Nf={Nf} sgn={sgn} dt={dt:.3g} errA={errA:.1e} npoles={len(got)}/{len(keep)} of {n*Nch} d={d} d2={d2} shape={Fn.shape} nanrows={np.isnan(Fn[:,n-1]).sum()}")
