from common import *
from pyoma2.functions import ssi
rng=np.random.default_rng(int(sys.argv[1]) if len(sys.argv)>1 else 0)
exec(open("c17.py").read().split("ok=0;bad=0")[0].split("rng=np.random")[1].split("\n",1)[1])
def ident(H,br,n,ordmax,dt):
    Obs,A,C,*_=ssi.SSI_fast(H,br,ordmax)
    lam=np.linalg.eigvals(A[n]); lc=np.log(lam)/dt
    return abs(lc)/(2*np.pi), lc
for t in range(40):
    c=case(rng)
    if c is None: continue
    H,br,n,dt,l,r=c
    ordmax=n+int(rng.integers(0,3))
    if min(H.shape)<ordmax+1 or br*l<ordmax: continue
    s=np.linalg.svd(H,compute_uv=False)
    gaps=np.min(abs(np.diff(s[:ordmax+1]))/s[:ordmax])
    if gaps<1e-3: continue
    nb=int(rng.integers(1,6))
    dHs=[rng.standard_normal(H.shape) for _ in range(nb)]
    T=np.hstack([d.reshape(-1,1,order="F") for d in dHs])
    Obs,A,C,Q1,Q2,Q3,Q4=ssi.SSI_fast(H,br,ordmax,calc_unc=True,T=T,nb=nb)
    Fn,Xi,Phi,Lam,Fc,Xc,Pc=ssi.SSI_poles(Obs,A,C,ordmax,dt,calc_unc=True,Q1=Q1,Q2=Q2,Q3=Q3,Q4=Q4)
    for order in sorted(set([2,n,ordmax])):
        if order>ordmax: continue
        f0,l0=ident(H,br,order,ordmax,dt)
        if order>1 and min(abs(l0[i]-l0[j]) for i in range(order) for j in range(i))<0.05: print("skip sep"); continue
        tot=np.zeros(order)
        for dH in dHs:
            eps=1e-6
            fp,lp=ident(H+eps*dH,br,order,ordmax,dt); fm,lm=ident(H-eps*dH,br,order,ordmax,dt)
            for j in range(order):
                jp=np.argmin(abs(lp-l0[j])); jm=np.argmin(abs(lm-l0[j]))
                tot[j]+=((fp[jp]-fm[jm])/(2*eps))**2
        lam_tab=Lam[:order,order]
        rel=0
        for j in range(order):
            k=np.argmin(abs(lam_tab-l0[j])); rel=max(rel,abs(Fc[k,order]-tot[j])/tot[j])
        print(f"l={l} r={r} br={br} ordmax={ordmax} order={order} nb={nb} maxrel={rel:.2e}")
