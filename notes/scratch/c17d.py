from common import *
exec(open("c08.py").read().split("nch=4; N=20000")[0])
import time
rng=np.random.default_rng(5)
data,fn=sim(rng,3,20000,100.)
ss=SingleSetup(data,100.)
a=SSIcov(name="a",br=8,ordmax=12,method="cov_mm",calc_unc=True,nb=50,ref_ind=[0,1])
ss.add_algorithms(a); t=time.time(); ss.run_all(); print("time",time.time()-t)
r=a.result
print(fn)
o=10
for i in range(o):
    if np.isfinite(r.Fn_poles[i,o]): print(r.Fn_poles[i,o], r.Xi_poles[i,o], "std f", np.sqrt(r.Fn_poles_cov[i,o]), r.Lab[i,o])
print(np.array_equal(np.isnan(r.Fn_poles),np.isnan(r.Fn_poles_cov)))
