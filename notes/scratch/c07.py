from common import *
from pyoma2.functions import fdd
rng = np.random.default_rng(int(sys.argv[1]) if len(sys.argv)>1 else 0)
worst=[0,0,1]
skipped=0
for trial in range(200):
    nxseg=int(rng.choice([1024,2048,4096,8192])); fs=10**rng.uniform(0,3); nch=int(rng.integers(2,7))
    fn=rng.uniform(0.04,0.25)*fs; xi=rng.uniform(0.02,0.05)
    df=fs/nxseg; bw=2*xi*fn
    if bw<4*df: skipped+=1; continue
    # 30 periods in half record: half record = nxseg/2 samples -> T=nxseg/2/fs ; periods = fn*T
    if fn*nxseg/2/fs<30: skipped+=1; continue
    freq=np.arange(nxseg//2+1)*df
    bell=1/((fn**2-freq**2)**2+(2*xi*fn*freq)**2)
    phi=rng.standard_normal(nch); 
    S=phi[:,None,None]*phi[None,:,None]*bell[None,None,:]
    W=rng.standard_normal((nch,nch)); S=S+(W@W.T)[:,:,None]*1e-9*np.max(S)
    S=S.astype(complex)
    DF2=max(4*bw, rng.uniform(4,10)*bw)
    for method in ("EFDD","FSDD"):
        try:
            Fn,Xi,Phi,_=fdd.EFDD_mpe(S,freq,1/fs,[fn],"per",method=method,DF1=max(df*2,0.1*bw),DF2=DF2)
        except Exception as e:
            print("EXC",type(e).__name__,e, nxseg,fs,fn,xi,DF2); continue
        ef=float(np.ravel(abs(Fn[0]-fn)/fn)[0]); ex=float(np.ravel(abs(Xi[0]-xi)/xi)[0]); m=mac(Phi[:,0],phi)
        # scale invariance
        Fn2,Xi2,Phi2,_=fdd.EFDD_mpe(S*123.4,freq,1/fs,[fn],"per",method=method,DF1=max(df*2,0.1*bw),DF2=DF2)
        sc=float(max(np.ravel(abs(Fn2[0]-Fn[0])/fn)[0], np.ravel(abs(Xi2[0]-Xi[0])/xi)[0]))
        worst=[max(worst[0],ef),max(worst[1],ex),min(worst[2],m)]
        W2=globals().setdefault("W2",{}); w=W2.setdefault(method,[0,0]); w[0]=max(w[0],ef); w[1]=max(w[1],ex)
        if ef>0.025 or ex>0.15 or sc>1e-9: print(f"{method} nx={nxseg} fs={fs:.3g} fn/fs={fn/fs:.3f} xi={xi:.3f} bw/df={bw/df:.1f} per={fn*nxseg/2/fs:.0f} DF2/bw={DF2/bw:.1f}: ef={ef:.2e} ex={ex:.2e} mac={m:.6f} sc={sc:.1e}")
print(W2); print("worst",worst,"skipped",skipped)
