from common import *
from pyoma2.functions import gen
rng = np.random.default_rng(0)
G = rng.standard_normal((7,3))  # global: refs 0,1 ; setup1 rov 2,3 ; setup2 rov 4,5,6
s1 = [2,0,3,1]  # channel order in setup 1 -> global idx
s2 = [4,1,5,0,6]
ref1 = [1,3]  # positions of global 0,1 in setup1
ref2 = [3,1]
c1 = np.array([1.0, -2.0, 0.5]); c2 = np.array([3.0, 0.5, -4.0])
P1 = G[s1]*c1; P2 = G[s2]*c2
M = gen.merge_mode_shapes([P1,P2],[ref1,ref2])
exp = np.vstack([G[[0,1]], G[[2,3]], G[[4,5,6]]])*c1
print(np.round(M.real/exp,3))
print("MSF test", gen.MSF(np.array([1,2,3.]), 2.5*np.array([1,2,3.])))
