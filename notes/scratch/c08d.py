from common import *
exec(open("c08.py").read().split("nch=4; N=20000")[0])
rng=np.random.default_rng(3)
nch=7; data,fn=sim(rng,nch,12000,100.)
# setups: refs global 0,1 ; s1 rov 2,3,4 ; s2 rov 5,6 ; different time segments
def build(data,fs,g=1.0):
    d1=data[:6000][:,[2,0,3,1,4]]*g; d2=data[6000:][:,[1,5,0,6]]*g
    return MultiSetup_PreGER(fs,[[1,3],[2,0]],[d1,d2])
def run(ms,fs,sel,meth="per"):
    algs=[FDD_MS(name="FDD",nxseg=512,method_SD=meth),EFDD_MS(name="EFDD",nxseg=1024,method_SD=meth),SSIcov_MS(name="SSIcov",br=10,ordmax=12),SSIdat_MS(name="SSIdat",br=10,ordmax=12),pLSCF_MS(name="pLSCF",ordmax=6,nxseg=512,method_SD=meth)]
    ms.add_algorithms(*algs); ms.run_all()
    ms.mpe("FDD",sel_freq=sel,DF=0.02*fs); ms.mpe("EFDD",sel_freq=sel,DF1=0.02*fs,DF2=0.05*fs)
    for n in ("SSIcov","SSIdat"): ms.mpe(n,sel_freq=sel,order=10,rtol=0.05)
    ms.mpe("pLSCF",sel_freq=sel,order=5,rtol=0.05)
    return {a.name:tables(a) for a in algs}
for meth in ("per","cor"):
    b=run(build(data,100.),100.,list(fn),meth); g=run(build(data,100.,g=1e-4),100.,list(fn),meth); k=0.37; t=run(build(data,100.*k),100.*k,[f*k for f in fn],meth)
    print("==",meth)
    for n in b: print(n,"GAIN",{kk:("%.1e"%v if isinstance(v,float) else v) for kk,v in cmp(b[n],g[n]).items()},"\n   TIME",{kk:("%.1e"%v if isinstance(v,float) else v) for kk,v in cmp(b[n],t[n],fscale=k).items()})
