from common import *
from pyoma2.functions import ssi, plscf
rng=np.random.default_rng(0)
# table: 3 modes at 5, 12, 20 Hz; orders 0..10 ; rows 10
nr=10; no=11
Fn=np.full((nr,no),np.nan); Xi=np.full((nr,no),np.nan); Phi=np.full((nr,no,3),np.nan,complex); Lab=np.zeros((nr,no),int)
modes=[5.0,12.0,20.0]
for o in range(2,no):
    rows=rng.permutation(nr)
    for k,f in enumerate(modes):
        if (k==1 and o in (4,5)) : continue   # mode 2 missing at orders 4,5
        r=rows[k]; Fn[r,o]=f*(1+1e-3*rng.standard_normal()); Xi[r,o]=0.01*(k+1); Phi[r,o]=[k+1,o,r]
        Lab[r,o]= 1 if o>=6 or (k!=1 and o>=3) else 0
    # spurious
    r=rows[5]; Fn[r,o]=rng.uniform(30,40); Xi[r,o]=0.5; Phi[r,o]=[9,o,r]
print("SSI int order=4 (mode 12 missing):")
F,X,P,oo,*_=ssi.SSI_mpe(modes,Fn,Xi,Phi,4,rtol=0.05)
print(F,X,oo)
print("SSI list order [4,4,4]:")
F,X,P,oo,*_=ssi.SSI_mpe(modes,Fn,Xi,Phi,[4,4,4],rtol=0.05)
print(F,X,oo)
print("SSI find_min:")
F,X,P,oo,*_=ssi.SSI_mpe(modes,Fn,Xi,Phi,"find_min",Lab=Lab,rtol=0.05)
print(F,X,oo, "expected lowest order with all 3 stable = 6")
print("SSI find_min rtol=0.001 (rel band 0.005..0.02, abs band 0.001):")
F,X,P,oo,*_=ssi.SSI_mpe(modes,Fn,Xi,Phi,"find_min",Lab=Lab,rtol=0.004)
print(F,X,oo)
print("pLSCF int 4:"); print(plscf.pLSCF_mpe(modes,Fn,Xi,Phi,4,Lab=Lab,rtol=0.05)[::3])
print("pLSCF find_min:"); 
try: print(plscf.pLSCF_mpe(modes,Fn,Xi,Phi,"find_min",Lab=Lab,rtol=0.05)[::3])
except Exception as e: print("EXC",type(e),e)
