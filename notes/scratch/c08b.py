from common import *
from pyoma2.functions import fdd, plscf
from scipy import signal
rng=np.random.default_rng(3)
for fs in (20.,200.):
  for xi0 in (0.01,0.03):
    f0=0.13*fs; N=400000; nx=1024
    w=2*np.pi*f0
    # exact discretisation of SDOF via impulse invariance: poles exp(lam dt)
    lam=w*(-xi0+1j*np.sqrt(1-xi0**2)); p=np.exp(lam/fs)
    a=np.poly([p,np.conj(p)]).real
    Y=np.vstack([signal.lfilter([1],a,rng.standard_normal(N)) for _ in range(2)])
    Y[1]=0.5*Y[0]+0.1*Y[1]
    fr,Sy=fdd.SD_est(Y,Y,1/fs,nx,method="cor")
    Ad,Bn=plscf.pLSCF(Sy,1/fs,6,sgn_basf=+1)
    res={}
    for name in ("none",):
        Fn,Xi,Phi,Lam=plscf.pLSCF_poles(Ad,Bn,1/fs,"per",nx)  # no correction
        col=Lam[:,3]; j=np.nanargmin(abs(abs(col)/(2*np.pi)-f0)); l=col[j]
        tau=-(nx-1)/np.log(0.01)
        # actual window length used: Rxy.shape[2] = nx ; tau_win=-nx/log(0.01)
        tauw=-nx/np.log(0.01)
        for nm,corr in (("none",0),("code -1/tau",-1/tau),("-fs/tau",-fs/tau),("+fs/tau",fs/tau),("+fs/tauw",fs/tauw)):
            ll=l+corr; print(f"fs={fs} xi0={xi0} {nm}: fn={abs(ll)/(2*np.pi):.4f} (true {f0:.4f}) xi={-ll.real/abs(ll):.5f}")
