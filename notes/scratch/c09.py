from common import *
exec(open("c08.py").read().split("nch=4; N=20000")[0])
from pyoma2.functions import gen
from pyoma2.algorithms import *
rng=np.random.default_rng(5)
data,fn=sim(rng,4,8000,100.)
neutral=dict(conj=False,xi_max=1e9,mpc_lim=-1.0,mpd_lim=1e9,cov_max=1e99)
def run(cls,hc,**kw):
    ss=SingleSetup(data,100.); a=cls(name="a",hc=hc,**kw); ss.add_algorithms(a); ss.run_all(); return a.result
for cls,kw in ((SSIcov,dict(br=10,ordmax=20,method="cov_mm")),(SSIdat,dict(br=10,ordmax=20)),(pLSCF,dict(ordmax=10,nxseg=512))):
    neu=dict(neutral); 
    if cls is pLSCF: neu.pop("cov_max")
    r0=run(cls,neu,**kw)
    F0=r0.Fn_poles; X0=r0.Xi_poles; P0=r0.Phi_poles
    print(cls.__name__,"unfiltered poles",np.isfinite(F0).sum(), "neg-damp", (X0<=0).sum(), "has Lambds", hasattr(r0,"Lambds"))
    for hc in (dict(conj=True,xi_max=0.05,mpc_lim=0.9,mpd_lim=0.1,cov_max=0.2),dict(conj=False,xi_max=0.2,mpc_lim=0.5,mpd_lim=0.05,cov_max=0.2)):
        h=dict(hc); 
        if cls is pLSCF: h.pop("cov_max")
        r=run(cls,h,**kw)
        F=r.Fn_poles; X=r.Xi_poles; P=r.Phi_poles
        keep=np.isfinite(F)
        # soundness per criterion
        mpd=np.full(F.shape,np.nan); mpc=np.full(F.shape,np.nan)
        for i in range(F.shape[0]):
            for j in range(F.shape[1]):
                if np.isfinite(F0[i,j]):
                    mpd[i,j]=gen.MPD(P0[i,j]); mpc[i,j]=gen.MPC(P0[i,j])
        bad_x=(keep&~((X0>0)&(X0<hc["xi_max"]))).sum()
        bad_mpc=(keep&~(mpc>=hc["mpc_lim"])).sum()
        bad_mpd=(keep&~(mpd<=hc["mpd_lim"])).sum()
        allok=np.isfinite(F0)&(X0>0)&(X0<hc["xi_max"])&(mpc>=hc["mpc_lim"])&(mpd<=hc["mpd_lim"])
        missing=(allok&~keep).sum()
        same = np.array_equal(np.isnan(F),np.isnan(X)) and np.array_equal(np.isnan(F),np.isnan(P[:,:,0]))
        lam = getattr(r,"Lambds",None)
        samel = None if lam is None else np.array_equal(np.isnan(F),np.isnan(lam))
        print(hc,"kept",keep.sum(),"bad_xi",bad_x,"bad_mpc",bad_mpc,"bad_mpd",bad_mpd,"missing(nonconj)",missing,"same nan F/X/P",same,"lambds",samel, "nan mpd among unfiltered", np.isnan(mpd[np.isfinite(F0)]).sum(), "nan mpc", np.isnan(mpc[np.isfinite(F0)]).sum())
