from common import *
from pyoma2.functions import ssi
from pyoma2.setup import SingleSetup
from pyoma2.algorithms import SSIcov, SSIdat
rng = np.random.default_rng(int(sys.argv[1]) if len(sys.argv)>1 else 0)
worst = {}
for trial in range(40):
    m = rng.integers(1,7); nch = rng.integers(2,9); fs = float(rng.choice([10,100,256,1000]))
    cplx = bool(rng.integers(0,2))
    fn, xi, Phi, lam = make_system(rng, m, nch, fs, cplx)
    nref = rng.integers(1,nch+1)
    ref = sorted(rng.choice(nch, nref, replace=False).tolist())
    # observability index: ceil(2m/nref)?
    import math
    br = max(math.ceil(2*m/nref)+1, 2*m//1) + int(rng.integers(0,6))
    N = int(rng.integers(400, 3000))
    Y = free_decay(rng, fn, xi, Phi, lam, fs, N)
    for meth, cls in (("cov_mm", SSIcov), ("dat", SSIdat)):
        ss = SingleSetup(Y.T.copy(), fs)
        alg = cls(name="a", br=br, ordmax=2*m, method=meth, ref_ind=ref, hc=dict(conj=False, xi_max=1.0, mpc_lim=0.0, mpd_lim=10.0, cov_max=1e9))
        ss.add_algorithms(alg); ss.run_by_name("a")
        r = alg.result
        F = r.Fn_poles[:, 2*m]; X = r.Xi_poles[:,2*m]; P = r.Phi_poles[:,2*m,:]
        errs=[]
        for k in range(m):
            j = np.nanargmin(abs(F-fn[k]))
            ef = abs(F[j]-fn[k])/fn[k]; ex = abs(X[j]-xi[k]); em = 1-mac(P[j], Phi[:,k])
            errs.append((ef,ex,em))
        e = np.max(np.array(errs),axis=0)
        s = np.linalg.svd(r.H, compute_uv=False)
        cond = s[0]/s[2*m-1]
        print(f"m={m} nch={nch} nref={nref} br={br} N={N} fs={fs} cplx={cplx} {meth}: ef={e[0]:.1e} ex={e[1]:.1e} emac={e[2]:.1e} cond={cond:.1e} gap={s[2*m-1]/ (s[2*m] if len(s)>2*m else 1e-300):.1e}")
