from common import *
import matplotlib
matplotlib.use("Agg")
from matplotlib.backends.backend_agg import FigureCanvasAgg
from matplotlib.backend_bases import MouseEvent, KeyEvent
import pyoma2.support.sel_from_plot as sfp
from unittest import mock
exec(open("c08.py").read().split("nch=4; N=20000")[0])

class FakeRoot:
    def __init__(self,script): self.script=script
    def title(self,*a): pass
    def config(self,**k): pass
    def protocol(self,*a): pass
    def mainloop(self): self.script()
    def quit(self): pass
    def destroy(self): pass
class FakeMenu:
    def __init__(self,*a,**k): pass
    def add_command(self,**k): pass
    def add_cascade(self,**k): pass
class FakeTkCanvas(FigureCanvasAgg):
    def __init__(self,fig,master=None): super().__init__(fig)
    def get_tk_widget(self):
        class W: 
            def pack(s,**k): pass
        return W()
def drive(algo,plot,actions):
    holder={}
    def script():
        self=holder["self"]; canvas=self.fig.canvas
        canvas.draw()
        for act in actions:
            kind=act[0]
            if kind=="key": 
                ev=KeyEvent("key_press_event" if act[2] else "key_release_event",canvas,act[1]); canvas.callbacks.process(ev.name,ev)
            else:
                _,button,xd,yd=act
                px,py=self.ax2.transData.transform((xd,yd))
                ev=MouseEvent("button_press_event",canvas,px,py,button=button); canvas.callbacks.process("button_press_event",ev)
    orig_init=sfp.SelFromPlot._initialize_gui
    def init(self):
        holder["self"]=self; orig_init(self)
    with mock.patch.object(sfp.tk,"Tk",lambda: FakeRoot(script)), mock.patch.object(sfp.tk,"Menu",FakeMenu), mock.patch.object(sfp,"FigureCanvasTkAgg",FakeTkCanvas), mock.patch.object(sfp,"NavigationToolbar2Tk",lambda *a,**k: None), mock.patch.object(sfp.SelFromPlot,"_initialize_gui",init):
        return sfp.SelFromPlot(algo,freqlim=None,plot=plot)
rng=np.random.default_rng(5)
data,fn=sim(rng,3,8000,100.)
ss=SingleSetup(data,100.)
a=SSIcov(name="a",br=8,ordmax=14,method="cov_mm"); ss.add_algorithms(a); ss.run_all()
F=a.result.Fn_poles
print(np.round(F[:,10],2)); print(np.round(F[:,12],2))
f1=np.nanmax(F[:,12]); f2=np.nanmin(F[:,10])
acts=[("key","shift",True),("click",1,f1+0.1,12.2),("click",1,f2-0.05,9.8)]
S=drive(a,"SSI",acts)
print("result",S.result, "expected pairs", [(f2,10),(f1,12)])
acts2=acts+[("click",2,f1,11.0)]
S=drive(a,"SSI",acts2); print("after deselect nearest to f1:",S.result)
acts3=acts+[("click",3,f1,11.0)]
S=drive(a,"SSI",acts3); print("after deselect one:",S.result)
acts4=[("click",1,f1,12)]
S=drive(a,"SSI",acts4); print("no shift:",S.result)
