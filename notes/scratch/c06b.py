from common import *
from pyoma2.functions import fdd
rng = np.random.default_rng(5)
nch=3; nf=60; fs=100.
freq=np.arange(nf)*fs/(2*(nf-1)); df=freq[1]
S=np.zeros((nch,nch,nf),complex)
for k in range(2):
    a=rng.standard_normal(nch)+1j*rng.standard_normal(nch)
    f0=rng.uniform(0.05,0.95)*freq[-1]; w=rng.uniform(1,10)*df
    bell=1/((freq-f0)**2+w**2)
    S+=np.conj(a)[:,None,None]*a[None,:,None]*bell[None,None,:]
W=rng.standard_normal((nch,nch))+1j*rng.standard_normal((nch,nch)); S+= (W@W.conj().T)[:,:,None]*1e-3*np.max(abs(S))
Sval,Svec=fdd.SD_svalsvec(S)
ratios=np.array([(lambda s:s[0]/s[1])(np.linalg.svd(S[:,:,k],compute_uv=False)) for k in range(nf)])
code_ratio = Sval[0,0,:]/Sval[1,1,:]
print(np.max(abs(code_ratio**2-ratios)/ratios))
for f,DF in [(20.,3.3),(30.2,5.1),(10.0, 2.0)]:
    Fn,Phi=fdd.FDD_mpe(Sval,Svec,freq,[f],DF=DF)
    i0=np.argmin(abs(freq-(f-DF))); i1=np.argmin(abs(freq-(f+DF)))
    print(f,DF,"returned idx",np.argmin(abs(freq-Fn[0])),"code window",i0,i1,"argmax in window", i0+np.argmax(ratios[i0:i1]), "ratios", np.round(ratios[i0:i1+1],4))
