from common import *
from pyoma2.functions import ssi
rng=np.random.default_rng(int(sys.argv[1]) if len(sys.argv)>1 else 0)
def ident(H,br,n,dt):
    Obs,A,C,*_=ssi.SSI_fast(H,br,n)
    lam=np.linalg.eigvals(A[n]); lc=np.log(lam)/dt
    return abs(lc)/(2*np.pi), lc
def case(rng):
    l=int(rng.integers(1,4)); r=int(rng.integers(1,l+1)); br=int(rng.integers(2,6)); m=int(rng.integers(1,5)); n=2*m
    p=br;q=p+1
    rows=(p+1)*l; cols=q*r
    if min(rows,cols)<n+1 or p*l<n: return None
    fs=100.; dt=1/fs
    fn,xi,Phi,lam=make_system(rng,m,l,fs,False,(0.01,0.05),0.4,0.05)
    Ad=np.diag(np.concatenate([np.exp(lam*dt),np.exp(np.conj(lam)*dt)]))
    Cc=np.hstack([Phi,Phi]).astype(complex)
    G=(rng.standard_normal((2*m,r))+1j*rng.standard_normal((2*m,r))); G[m:]=np.conj(G[:m])
    O=np.vstack([Cc@np.linalg.matrix_power(Ad,k) for k in range(p+1)])
    Gam=np.hstack([np.linalg.matrix_power(Ad,k)@G for k in range(q)])
    H=(O@Gam).real
    H=H/np.linalg.norm(H,2)
    H=H+1e-3*rng.standard_normal(H.shape)  # small full rank part
    return H,br,n,dt,l,r
ok=0;bad=0
for t in range(60):
    c=case(rng)
    if c is None: continue
    H,br,n,dt,l,r=c
    s=np.linalg.svd(H,compute_uv=False)
    gaps=np.min(abs(np.diff(s[:n+1]))/s[:n])
    if gaps<1e-3: continue
    nb=1
    dH=rng.standard_normal(H.shape)
    T=dH.reshape(-1,1,order="F")
    try:
        Obs,A,C,Q1,Q2,Q3,Q4=ssi.SSI_fast(H,br,n,calc_unc=True,T=T,nb=nb)
        Fn,Xi,Phi,Lam,Fc,Xc,Pc=ssi.SSI_poles(Obs,A,C,n,dt,calc_unc=True,Q1=Q1,Q2=Q2,Q3=Q3,Q4=Q4)
    except Exception as e:
        print("EXC",type(e).__name__,e); continue
    f0,l0=ident(H,br,n,dt)
    # eigen separation
    sep=min(abs(l0[i]-l0[j]) for i in range(n) for j in range(i)) if n>1 else 1
    res=[]
    for eps in (1e-6,1e-7):
        fp,lp=ident(H+eps*dH,br,n,dt); fm,lm=ident(H-eps*dH,br,n,dt)
        # match by nearest lam
        d=[]
        for j in range(n):
            jp=np.argmin(abs(lp-l0[j])); jm=np.argmin(abs(lm-l0[j]))
            d.append((fp[jp]-fm[jm])/(2*eps))
        res.append(np.array(d))
    # table order: Fn[:,n] corresponds to ac2mp order; match by freq/lam
    lam_tab=Lam[:n,n]
    errs=[]
    for j in range(n):
        k=np.argmin(abs(lam_tab-l0[j]))
        fd=res[0][j]**2; fd2=res[1][j]**2
        errs.append((Fc[k,n],fd,abs(fd-fd2)/max(fd,1e-300)))
    rel=max(abs(a-b)/max(b,1e-300) for a,b,_ in errs)
    print(f"l={l} r={r} br={br} n={n} gap={gaps:.1e} sep={sep:.2f} maxrel={rel:.2e} fdagree={max(e[2] for e in errs):.1e}  sample cov={errs[0][0]:.3e} fd={errs[0][1]:.3e}")
