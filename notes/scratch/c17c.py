from common import *
from pyoma2.functions import ssi
rng=np.random.default_rng(0)
l=2;r=1;br=3;nb=10;Nd=5000
Y=rng.standard_normal((l,Nd)); Y=np.cumsum(Y,axis=1)*0.05+Y; Yref=Y[:r]
H,T=ssi.build_hank(Y,Yref,br,"cov_mm",calc_unc=True,nb=nb)
p=br;q=p+1;N=Nd-p-q
Yf=np.vstack([Y[:,q+1+i:N+q+i] for i in range(p+1)]); Yp=np.vstack([Yref[:,q+i:N+q-1+i] for i in range(0,-q,-1)])
print("H check",np.allclose(H,Yf@Yp.T/N))
Nb=N//nb
Hk=[Yf[:,k*Nb:(k+1)*Nb]@Yp[:,k*Nb:(k+1)*Nb].T/Nb for k in range(nb)]
Hbar=sum(Hk)/nb
print("rel diff Hbar vs H",np.linalg.norm(Hbar-H)/np.linalg.norm(H))
for nm,order in (("C",'C'),("F",'F')):
    Texp=np.hstack([(hk-H).reshape(-1,1,order=order) for hk in Hk])/np.sqrt(nb*(nb-1))
    print(nm,"T matches def:",np.linalg.norm(T-Texp)/np.linalg.norm(Texp))
print("norm T col", np.linalg.norm(T[:,0]), "norm H/sqrt(nb(nb-1))", np.linalg.norm(H)/np.sqrt(nb*(nb-1)), "expected dev norm", np.linalg.norm(Hk[0]-H)/np.sqrt(nb*(nb-1)))
