from common import *
from pyoma2.setup import SingleSetup
from pyoma2.algorithms import SSIcov, SSIdat, pLSCF
from pyoma2.functions import gen
from scipy import signal
import collections
rng=np.random.default_rng(1)
def sim_c(rng,nch,N,fs,m=3):
    fn,xi,Phi,lam=make_system(rng,m,nch,fs,True,(0.01,0.04),0.4,0.06)
    Phi=Phi.real+1j*rng.uniform(0,1.0,m)[None,:]*Phi.imag*2
    Y=np.zeros((nch,N))
    for k in range(m):
        p=np.exp(lam[k]/fs); a=np.poly([p,np.conj(p)]).real
        q1=signal.lfilter([1],a,rng.standard_normal(N)); q2=signal.lfilter([1],a,rng.standard_normal(N))
        Y+=np.real(Phi[:,[k]])*q1[None,:]/np.std(q1)+np.imag(Phi[:,[k]])*q2[None,:]/np.std(q2)
    Y+=0.2*rng.standard_normal(Y.shape)
    return Y.T
data=sim_c(rng,4,6000,100.)
neu=dict(conj=False,xi_max=1e9,mpc_lim=-1.0,mpd_lim=1e9,cov_max=1e99)
ss=SingleSetup(data,100.); a=SSIcov(name="a",br=10,ordmax=24,hc=neu); ss.add_algorithms(a); ss.run_all(); r=a.result
F=r.Fn_poles; ok=np.isfinite(F)
mpc=np.array([[gen.MPC(r.Phi_poles[i,j]).real if ok[i,j] else np.nan for j in range(F.shape[1])] for i in range(F.shape[0])])
mpd=np.array([[gen.MPD(r.Phi_poles[i,j]) if ok[i,j] else np.nan for j in range(F.shape[1])] for i in range(F.shape[0])])
xi=r.Xi_poles
print("n",ok.sum(),"mpc quantiles",np.nanquantile(mpc,[.1,.3,.5,.7,.9]),"mpd q",np.nanquantile(mpd,[.1,.3,.5,.7,.9]),"xi q",np.nanquantile(xi,[.1,.5,.9]))
th=dict(xi=np.nanquantile(xi,.6),mpc=np.nanquantile(mpc,.4),mpd=np.nanquantile(mpd,.6))
combos=collections.Counter()
for i,j in zip(*np.where(ok)):
    combos[(bool(xi[i,j]<th["xi"]),bool(mpc[i,j]>=th["mpc"]),bool(mpd[i,j]<=th["mpd"]))]+=1
print(th); print(sorted(combos.items()))
