from common import *
from pyoma2.functions import ssi
rng=np.random.default_rng(0)
bad=0;tot=0
for t in range(200):
    l=int(rng.integers(1,5)); r=int(rng.integers(1,l+1)); br=int(rng.integers(1,6)); Nd=int(rng.integers(2*br+6,60))
    Y=rng.standard_normal((l,Nd)); refidx=sorted(rng.choice(l,r,replace=False)); Yref=Y[refidx]
    p=br;q=p+1;N=Nd-p-q
    if N<3: continue
    for meth in ("cov_mm","cov_R","dat"):
        if meth=="dat" and N-1<(p+1)*(l+r): continue
        H,_=ssi.build_hank(Y,Yref,br,meth)
        tot+=1
        assert H.shape==((br+1)*l,(br+1)*r),(meth,H.shape)
        if meth=="cov_mm":
            E=np.zeros_like(H)
            for i in range(p+1):
                for j in range(q):
                    lag=i+j+1
                    # t range: Yp index q-j+t, t=0..N-2
                    for a in range(l):
                        for b in range(r):
                            E[i*l+a,j*r+b]=sum(Y[a,q-j+tt+lag]*Yref[b,q-j+tt] for tt in range(N-1))/N
            ok=np.allclose(H,E,atol=1e-12)
        elif meth=="cov_R":
            E=np.zeros_like(H)
            for i in range(q):
                for j in range(q):
                    k=br+i-j
                    for a in range(l):
                        for b in range(r):
                            E[i*l+a,j*r+b]=sum(Y[a,tt]*Yref[b,tt+k] for tt in range(Nd-k))/(Nd-k)
            ok=np.allclose(H,E,atol=1e-12)
        else:
            Yf=np.vstack([Y[:,q+1+i:N+q+i] for i in range(p+1)])/np.sqrt(N); Yp=np.vstack([Yref[:,q-j:N+q-1-j] for j in range(q)])/np.sqrt(N)
            if Yp.shape[0]>Yp.shape[1]: continue
            P=Yf@Yp.T@np.linalg.pinv(Yp@Yp.T)@Yp
            ok=np.allclose(H@H.T,P@P.T,atol=1e-9*max(1,abs(P@P.T).max()))
        if not ok: bad+=1; print("BAD",meth,l,r,br,Nd)
print(bad,tot)
