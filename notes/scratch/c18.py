from common import *
from pyoma2.functions import gen
rng=np.random.default_rng(0)
cnt=dict(mpd_nan=0,mpc_nan=0,mcf_nan=0,mac_bad=0,n=0, mpd_nan_zero=0, mpc_oob=0, mpd_oob=0)
for t in range(4000):
    n=int(rng.integers(2,65)); v=rng.standard_normal(n)
    kind=rng.integers(0,4)
    if kind==1: v[rng.integers(0,n)]=0.0
    if kind==2: v=v/v[np.argmax(abs(v))]
    if kind==3: v=np.round(v*2)/2
    if not np.any(v): continue
    c=10**rng.uniform(-6,6)*np.exp(1j*rng.uniform(0,2*np.pi))
    if rng.random()<0.2: c=complex(rng.choice([1,-1,1j,-1j,2,0.5]))
    phi=c*v
    cnt["n"]+=1
    mpd=gen.MPD(phi); mpc=gen.MPC(phi); mcf=gen.MCF(phi)[0]; mac=gen.MAC(phi,v.astype(complex))
    if np.isnan(mpd):
        cnt["mpd_nan"]+=1
        if np.any(v==0): cnt["mpd_nan_zero"]+=1
    elif mpd>1e-6: cnt["mpd_oob"]+=1
    if np.isnan(mpc): cnt["mpc_nan"]+=1
    elif abs(mpc-1)>1e-9: cnt["mpc_oob"]+=1
    if np.isnan(mcf) or abs(mcf)>1e-9: cnt["mcf_nan"]+=1
    if abs(mac-1)>1e-9: cnt["mac_bad"]+=1
print(cnt)
print("const:",gen.MPC(np.array([1,1,1.+0j])),gen.MPD(np.array([1,1,1.+0j])))
print("MPC 2comp [1,-0.5]:",gen.MPC(np.array([1,-0.5+0j])), gen.MPD(np.array([1,-0.5+0j])))
print("MPD test pinned:",gen.MPD(np.array([1+2j,2+3j,3+4j])),gen.MPC(np.array([1+2j,2+3j,3+4j])))
print("MSF degenerate:",gen.MSF(np.array([1,1j]),2*np.array([1,1j])))
# general complex bounds + invariance
bad=0
for t in range(2000):
    n=int(rng.integers(2,65)); phi=rng.standard_normal(n)+1j*rng.standard_normal(n)*rng.choice([1e-8,1e-3,1])
    c=10**rng.uniform(-6,6)*np.exp(1j*rng.uniform(0,2*np.pi))
    a=(gen.MPC(phi),gen.MPD(phi),gen.MCF(phi)[0]); b=(gen.MPC(c*phi),gen.MPD(c*phi),gen.MCF(c*phi)[0])
    if not all(abs(x-y)<1e-6 for x,y in zip(a,b)) or not (0-1e-12<=a[0]<=1+1e-12 and 0<=a[1]<=np.pi/2+1e-12 and -1e-12<=a[2]<=1+1e-12): bad+=1; print(a,b)
print("bad general",bad)
