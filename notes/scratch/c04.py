from common import *
from pyoma2.functions import fdd
rng = np.random.default_rng(0)
N=5000; nch=6
X = rng.standard_normal((nch,N)); X = np.cumsum(X,axis=1)*0.01 + X  # coloured
refs=[0,1]; s1=[2,3]; s2=[4,5]
for method in ("per","cor"):
  for pov in (0.5, 0.25, 0.0):
    Y=[{"ref":X[refs],"mov":X[s1]},{"ref":3.0*X[refs],"mov":3.0*X[s2]}]
    f, S = fdd.SD_PreGER(Y, fs=100., nxseg=256, pov=pov, method=method)
    allc = refs+s1+s2
    f2, S2 = fdd.SD_est(X[allc], X[refs], 0.01, 256, method=method, pov=pov)
    # expected: ref block mean = (1+9)/2 * S2ref ; roving: T * mean
    sc = (1+9)/2
    err = np.max(abs(S - sc*S2))/np.max(abs(S2))
    f3, S3 = fdd.SD_est(X[allc], X[refs], 0.01, 256, method=method, pov=0.5)
    err05 = np.max(abs(S - sc*S3))/np.max(abs(S3))
    print(method, pov, S.shape, "err vs same pov", err, "err vs pov0.5", err05, np.allclose(f,f2))
