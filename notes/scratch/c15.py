from common import *
import pickle, hashlib, itertools, tempfile
exec(open("c08.py").read().split("nch=4; N=20000")[0])
from pyoma2.setup import MultiSetup_PoSER
from pyoma2.functions import gen
rng=np.random.default_rng(5)
data,fn=sim(rng,3,6000,100.)
def mk():
    return [FDD(name="FDD",nxseg=256),EFDD(name="EFDD",nxseg=512),FSDD(name="FSDD",nxseg=512),SSIcov(name="SSIcov",br=6,ordmax=10),SSIdat(name="SSIdat",br=6,ordmax=10),pLSCF(name="pLSCF",ordmax=5,nxseg=256)]
def h(o):
    if o is None: return None
    d=o.model_dump() if hasattr(o,"model_dump") else o
    m=hashlib.sha1()
    def walk(x):
        if isinstance(x,dict):
            for k in sorted(x): m.update(k.encode()); walk(x[k])
        elif isinstance(x,(list,tuple)):
            for y in x: walk(y)
        elif isinstance(x,np.ndarray): m.update(str(x.dtype).encode()+str(x.shape).encode()+np.ascontiguousarray(x).tobytes())
        else: m.update(repr(x).encode())
    walk(d); return m.hexdigest()[:10]
# gating
for a in mk():
    try: a.mpe(sel_freq=[10.]); print(a.name,"mpe before run: no exception!", a.result)
    except Exception as e: print(a.name,"mpe before run ->",type(e).__name__, "result None:",a.result is None)
    try: a._pre_run(); print("prerun ok?!")
    except Exception as e: pass
a=SSIcov(name="x")
ss=SingleSetup(data.copy(),100.); ss.add_algorithms(a)
try: ss.run_by_name("x"); print("ran without params?!")
except Exception as e: print("no params ->",type(e).__name__,a.result is None)
# isolation
ref={}
for a in mk():
    ss=SingleSetup(data.copy(),100.); ss.add_algorithms(a); ss.run_all(); ref[a.name]=h(a.result)
d0=data.copy(); ss=SingleSetup(d0,100.); algs=mk()[::-1]; ss.add_algorithms(*algs); dh=hashlib.sha1(d0.tobytes()).hexdigest()
ss.run_all(); ss.run_all()
print("order/repeat independent:",all(ref[a.name]==h(a.result) for a in algs), "data unchanged:",dh==hashlib.sha1(ss.data.tobytes()).hexdigest())
for a in algs:
    try:
        if a.name=="FDD": ss.mpe(a.name,sel_freq=list(fn),DF=2.0)
        elif a.name in("EFDD","FSDD"): ss.mpe(a.name,sel_freq=list(fn),DF1=2.,DF2=5.)
        elif a.name.startswith("SSI"): ss.mpe(a.name,sel_freq=list(fn),order=8,rtol=0.1)
        else: ss.mpe(a.name,sel_freq=list(fn),order=4,rtol=0.1)
    except Exception as e: print("mpe",a.name,type(e).__name__,e)
with tempfile.TemporaryDirectory() as td:
    gen.save_to_file(ss,td+"/s.pkl"); s2=gen.load_from_file(td+"/s.pkl")
print("pickle equal:",all(h(s2[a.name].result)==h(a.result) and h(s2[a.name].run_params)==h(a.run_params) for a in algs), np.array_equal(s2.data,ss.data))
