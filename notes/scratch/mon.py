import sys, numpy as np
from common import *
from pyoma2.functions import ssi
mon=sys.monitoring; TOOL=mon.COVERAGE_ID
mon.use_tool_id(TOOL,"verif")
hits={}
def on_line(code,line):
    hits.setdefault(code.co_qualname,set()).add(line); return mon.DISABLE
mon.register_callback(TOOL,mon.events.LINE,on_line)
targets=[ssi.build_hank,ssi.SSI_fast,ssi.SSI_poles,ssi.ac2mp,ssi.SSI_mpe]
for f in targets: mon.set_local_events(TOOL,f.__code__,mon.events.LINE)
rng=np.random.default_rng(0)
Y=rng.standard_normal((3,2000))
import time; t=time.time()
for _ in range(20):
    H,_=ssi.build_hank(Y,Y[:2],6,"cov_mm"); Obs,A,C,*_=ssi.SSI_fast(H,6,8); ssi.SSI_poles(Obs,A,C,8,0.01)
print("time",time.time()-t)
for f in targets:
    lines={l for _,_,l in f.__code__.co_lines() if l is not None and l>f.__code__.co_firstlineno}
    h=hits.get(f.__code__.co_qualname,set())
    print(f.__name__,len(h&lines),"/",len(lines))
mon.free_tool_id(TOOL)
