from common import *
from pyoma2.setup import SingleSetup, MultiSetup_PreGER
from pyoma2.algorithms import FDD, EFDD, FSDD, SSIcov, SSIdat, pLSCF, FDD_MS, EFDD_MS, SSIcov_MS, SSIdat_MS, pLSCF_MS
from scipy import signal
rng = np.random.default_rng(int(sys.argv[1]) if len(sys.argv)>1 else 0)
def sim(rng, nch, N, fs, m=3):
    fn, xi, Phi, lam = make_system(rng, m, nch, fs, False, (0.01,0.03), 0.4, 0.08)
    t=np.arange(N)/fs
    Y=np.zeros((nch,N))
    for k in range(m):
        # filter white noise through SDOF
        w=2*np.pi*fn[k]; 
        b,a=signal.bilinear([1],[1,2*xi[k]*w,w*w],fs)
        q=signal.lfilter(b,a,rng.standard_normal(N))
        Y+=Phi[:,[k]]*q[None,:]/np.std(q)
    Y+=0.05*rng.standard_normal(Y.shape)
    return Y.T, fn
def tables(alg):
    r=alg.result; out={}
    for k in ("Fn_poles","Xi_poles","Phi_poles","Fn","Xi","Phi","freq","Sy","S_val"):
        v=getattr(r,k,None)
        if v is not None: out[k]=np.array(v)
    return out
def cmp(a,b,fscale=1.0,perm=None,name=""):
    res={}
    for k in a:
        x=a[k]; y=b[k]
        if k in("Fn_poles","Fn","freq"): x=x*fscale
        if k=="Sy" or k=="S_val": continue
        if perm is not None and k=="Phi_poles": y=y[:,:,np.argsort(perm)] if False else y  # handled below
        if x.shape!=y.shape: res[k]=("shape",x.shape,y.shape); continue
        nanx=np.isnan(x); nany=np.isnan(y)
        if not np.array_equal(nanx,nany): res[k]=("nanpattern",int((nanx!=nany).sum())); continue
        d=np.nanmax(abs(x-y)/(1e-300+np.maximum(abs(x),abs(y)))) if (~nanx).any() else 0
        res[k]=float(d)
    return res
nch=4; N=20000; fs=100.
data,fn=sim(rng,nch,N,fs)
sel=list(fn)
def run_all(data,fs,sel,methods):
    ss=SingleSetup(data,fs)
    algs=[FDD(name="FDD",nxseg=512,method_SD=methods[0]),EFDD(name="EFDD",nxseg=1024,method_SD=methods[0]),FSDD(name="FSDD",nxseg=1024,method_SD=methods[0]),
          SSIcov(name="SSIcov",br=12,ordmax=16,method="cov_mm"),SSIcov(name="SSIcovR",br=12,ordmax=16,method="cov_R"),SSIdat(name="SSIdat",br=12,ordmax=16),
          pLSCF(name="pLSCF",ordmax=8,nxseg=512,method_SD=methods[0])]
    ss.add_algorithms(*algs); ss.run_all()
    out={}
    for a in algs:
        try:
            if a.name in("FDD",): ss.mpe(a.name,sel_freq=sel,DF=0.02*fs)
            elif a.name in("EFDD","FSDD"): ss.mpe(a.name,sel_freq=sel,DF1=0.02*fs,DF2=0.05*fs)
            elif a.name.startswith("SSI"): ss.mpe(a.name,sel_freq=sel,order=12,rtol=0.05)
            else: ss.mpe(a.name,sel_freq=sel,order=6,rtol=0.05)
        except Exception as e: print("mpe fail",a.name,type(e).__name__,e)
        out[a.name]=tables(a)
    return out
for meth in ("per","cor"):
    base=run_all(data,fs,sel,[meth])
    g=run_all(data*1e4,fs,sel,[meth])
    k=7.3
    t=run_all(data,fs*k,[f*k for f in sel],[meth])
    print("==",meth)
    for n in base:
        print(n,"GAIN",cmp(base[n],g[n])); print(n,"TIME",cmp(base[n],t[n],fscale=k))
