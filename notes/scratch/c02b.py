from common import *
from pyoma2.setup import SingleSetup, MultiSetup_PoSER
from pyoma2.algorithms import SSIcov
rng=np.random.default_rng(2)
m=3; fs=100.; nset=3; nref=2; nmov=[2,1,3]; ndof=nref+sum(nmov)
fn,xi,Phi,lam=make_system(rng,m,ndof,fs,False)
setups=[]; ref_ind=[]; off=nref; order_rows=list(range(nref))
for k in range(nset):
    idx=list(range(off,off+nmov[k])); off+=nmov[k]; nch=nref+nmov[k]
    pos=rng.permutation(nch); refpos=[int(p) for p in pos[:nref]]; movpos=sorted(int(p) for p in pos[nref:])
    cg=[None]*nch
    for r,p in enumerate(refpos): cg[p]=r
    for g,p in zip(idx,movpos): cg[p]=g
    Y=10**rng.uniform(-2,2)*free_decay(rng,fn,xi,Phi[cg],lam,fs,1500)
    ss=SingleSetup(Y.T.copy(),fs); a=SSIcov(name=f"s{k}",br=8,ordmax=2*m,method="cov_mm",ref_ind=refpos); ss.add_algorithms(a); ss.run_all(); ss.mpe(f"s{k}",sel_freq=list(fn),order=2*m,rtol=0.01)
    setups.append(ss); ref_ind.append(refpos)
ms=MultiSetup_PoSER(ref_ind=ref_ind,single_setups=setups,names=["ssi"])
res=ms.merge_results()["ssi"]
print("Fn err",np.max(abs(res.Fn-fn)/fn),"Fn_cov",res.Fn_cov,"Xi err",np.max(abs(res.Xi-xi)))
for k in range(m):
    ratio=res.Phi[:,k]/Phi[:,k]; print("mode",k,"1-mac",1-mac(res.Phi[:,k],Phi[:,k]),"ratio spread",np.max(abs(ratio/ratio[0]-1)))
