from common import *
import pandas as pd, traceback
from pyoma2.setup import SingleSetup, MultiSetup_PreGER
from pyoma2.functions import gen
import pyoma2.support.geometry.mixin as mx
rng=np.random.default_rng(0)
names=["a","b","c","d"]
coord=pd.DataFrame(rng.integers(0,9,(4,3)).astype(float),index=pd.Index(["c","a","d","b"],name="label"),columns=["x","y","z"])
dirs=pd.DataFrame(np.eye(4,3),index=coord.index,columns=["x","y","z"])
def tables1(**extra):
    d={"sensors names":pd.DataFrame([names],index=pd.Index([1],name="setup No."),columns=[f"chann. {i+1}" for i in range(4)]),
       "sensors coordinates":coord.copy(),"sensors directions":dirs.copy()}
    d.update(extra); return d
ss=SingleSetup(rng.standard_normal((100,4)),10.)
def try_(label,fn):
    try: r=fn(); print(label,"OK"); return r
    except Exception as e: print(label,"EXC",type(e).__name__,str(e)[:100])
# by file (patched reader)
mx.read_excel_file=lambda path,**k: tables1()
try_("geo1 by file minimal",lambda: ss.def_geo1_by_file("x"))
print(ss.geo1.sens_coord.index.tolist(), ss.geo1.sens_dir)
mx.read_excel_file=lambda path,**k: tables1(**{"sensors lines":pd.DataFrame([[1,2],[2,3]],index=[1,2],columns=["start","end"]),"BG nodes":pd.DataFrame(np.ones((2,3)),index=[1,2]),"BG lines":pd.DataFrame([[1,2]],index=[1]),"BG surfaces":pd.DataFrame([[1,2,2]],index=[1])})
try_("geo1 by file full",lambda: ss.def_geo1_by_file("x")); print(ss.geo1.sens_lines,ss.geo1.bg_lines,ss.geo1.bg_surf)
# documented arg forms
try_("def_geo1 list+df+ndarray",lambda: ss.def_geo1(names,coord.copy(),dirs.values))
try_("def_geo1 list+df+df",lambda: ss.def_geo1(names,coord.copy(),dirs.copy()))
try_("def_geo1 + sens_lines ndarray",lambda: ss.def_geo1(names,coord.copy(),dirs.copy(),sens_lines=np.array([[1,2]])))
try_("def_geo1 all DF",lambda: ss.def_geo1(pd.DataFrame([names]),coord.copy(),dirs.copy()))
try_("def_geo1 all DF + lines DF",lambda: ss.def_geo1(pd.DataFrame([names]),coord.copy(),dirs.copy(),sens_lines=pd.DataFrame([[1,2]])))
try_("def_geo1 ndarray names",lambda: ss.def_geo1(np.array(names),coord.copy(),dirs.copy()))
# geo2
pts=pd.DataFrame(rng.integers(0,9,(3,3)).astype(float),index=pd.Index([1,2,3],name="ptName"),columns=["x","y","z"])
mp=pd.DataFrame([["a","b",0],["c","d",0],["k1",0,0]],index=pts.index,columns=["x","y","z"])
cst=pd.DataFrame([[0.5,0.5]],index=["k1"],columns=["a","c"])
sign=pd.DataFrame([[1,-1,0],[1,1,0],[-1,0,0]],index=pts.index,columns=["x","y","z"])
def tables2(**extra):
    d={"sensors names":pd.DataFrame([names],index=[1]),"points coordinates":pts.copy(),"mapping":mp.copy(),"constraints":cst.copy(),"sensors sign":sign.copy()}
    d.update(extra); return d
mx.read_excel_file=lambda path,**k: tables2()
try_("geo2 by file",lambda: ss.def_geo2_by_file("x"))
print(ss.geo2.cstrn)
def drop(d,k): d=dict(d); d.pop(k); return d
mx.read_excel_file=lambda path,**k: drop(tables2(),"constraints")
try_("geo2 by file no constraints sheet (mapping uses k1)",lambda: ss.def_geo2_by_file("x"))
mp2=pd.DataFrame([["a","b",0],["c","d",0],[0,0,0]],index=pts.index,columns=["x","y","z"])
mx.read_excel_file=lambda path,**k: drop(tables2(mapping=mp2),"constraints")
try_("geo2 by file no constraints sheet, none used",lambda: ss.def_geo2_by_file("x"))
mx.read_excel_file=lambda path,**k: drop(tables2(mapping=mp2,constraints=pd.DataFrame()),"sensors sign")
try_("geo2 by file no sign sheet",lambda: ss.def_geo2_by_file("x"))
print(ss.geo2.sens_sign)
try_("def_geo2 args minimal",lambda: ss.def_geo2(names,pts.copy(),mp2.copy()))
try_("def_geo2 args cstr",lambda: ss.def_geo2(names,pts.copy(),mp.copy(),cstr=cst.copy(),sens_sign=sign.copy(),sens_lines=np.array([[1,2]])))
# mapping
phi=np.array([1.,2.,3.,4.])
ss.def_geo2(names,pts.copy(),mp.copy(),cstr=cst.copy(),sens_sign=sign.copy()) if False else None
mx.read_excel_file=lambda path,**k: tables2()
ss.def_geo2_by_file("x")
print(gen.dfphi_map_func(phi,ss.geo2.sens_names,ss.geo2.sens_map,cstrn=ss.geo2.cstrn))
