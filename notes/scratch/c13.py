from common import *
from pyoma2.functions import fdd
from scipy import signal
rng=np.random.default_rng(0)
def welch_ref(x,y,fs,nx,nov):
    # independent Welch: hann, constant detrend, one-sided density, conj(X)*Y
    w=signal.get_window("hann",nx); step=nx-nov; segs=range(0,len(x)-nx+1,step)
    acc=0; 
    for s in segs:
        xs=x[s:s+nx]; ys=y[s:s+nx]; xs=(xs-xs.mean())*w; ys=(ys-ys.mean())*w
        acc=acc+np.conj(np.fft.rfft(xs))*np.fft.rfft(ys)
    P=acc/len(list(segs))/(fs*(w**2).sum())
    if nx%2==0: P[1:-1]*=2
    else: P[1:]*=2
    return P
for t in range(20):
    nch=int(rng.integers(1,5)); nref=int(rng.integers(1,nch+1)); nx=int(rng.choice([16,64,256,1024])); pov=float(rng.choice([0,0.25,0.5,0.75])); fs=10**rng.uniform(0,3)
    N=int(nx*rng.uniform(2,10))
    Y=rng.standard_normal((nch,N)); Yr=Y[:nref]
    f,S=fdd.SD_est(Y,Yr,1/fs,nx,method="per",pov=pov)
    assert S.shape==(nch,nref,nx//2+1) and np.allclose(f,np.arange(nx//2+1)*fs/nx)
    i=int(rng.integers(0,nch)); j=int(rng.integers(0,nref))
    P=welch_ref(Y[i],Yr[j],fs,nx,int(nx*pov))
    e=np.max(abs(S[i,j,2:]-P[2:]))/np.max(abs(P))
    f2,S2=fdd.SD_est(Y,Y,1/fs,nx,method="per",pov=pov)
    herm=max(np.max(abs(S2[:,:,k]-S2[:,:,k].conj().T)) for k in range(len(f2)))/np.max(abs(S2))
    mineig=min(np.linalg.eigvalsh((S2[:,:,k]+S2[:,:,k].conj().T)/2).min() for k in range(len(f2)))/np.max(abs(S2))
    print(f"nx={nx} pov={pov} welch err={e:.1e} herm={herm:.1e} mineig={mineig:.1e}")
# parseval (long record)
Y=rng.standard_normal((2,200000)); Y[1]=np.cumsum(Y[1])*0.001+Y[1]; Y=signal.detrend(Y,axis=1)
f,S=fdd.SD_est(Y,Y,1/50.,1024,method="per",pov=0.5)
print("integral vs ms", [ (np.sum(S[i,i].real)*(f[1]-f[0]), np.mean(Y[i]**2)) for i in range(2)])
# delay test
for meth in ("per","cor"):
    N=200000; nx=1024; d=5; g=-3.0; fs=100.
    x=rng.standard_normal(N+d); x1=x[d:]; x2=g*x[:N]   # x2(t)=g*x1(t-d)
    Y=np.vstack([x1,x2])
    f,S=fdd.SD_est(Y,Y,1/fs,nx,method=meth)
    ratio=S[0,1]/S[0,0]; exp=g*np.exp(-2j*np.pi*f*d/fs)
    err=abs(ratio-exp)/abs(exp); erro=abs(np.conj(ratio)-exp)/abs(exp)
    print(meth,"delay: max err",err[1:-1].max(),"median",np.median(err),"opposite median",np.median(erro))
# sinusoid
nx=256; fs=64.; k=37; N=nx*8; tt=np.arange(N)/fs; a=np.array([1.0,0.02*np.exp(1j*1.1),30*np.exp(-2.2j)])
Y=np.real(a[:,None]*np.exp(2j*np.pi*(k*fs/nx)*tt)[None,:])
f,S=fdd.SD_est(Y,Y,1/fs,nx,method="per",pov=0.5)
print("sinus ratio err",abs(S[0,:,k]/S[0,0,k]-a/a[0]))
