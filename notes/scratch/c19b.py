from common import *
import pandas as pd, copy
from pyoma2.functions import gen
rng=np.random.default_rng(0)
names=["a","b","c","d"]
def T1():
    coord=pd.DataFrame(rng.integers(0,9,(4,3)).astype(float),index=pd.Index(["c","a","d","b"],name="label"),columns=["x","y","z"])
    dirs=pd.DataFrame(np.eye(4,3),index=coord.index.copy(),columns=["x","y","z"])
    return {"sensors names":pd.DataFrame([names],index=pd.Index([1],name="setup No.")),"sensors coordinates":coord,"sensors directions":dirs,
            "sensors lines":pd.DataFrame([[1,2],[2,3]],index=[1,2]),"BG nodes":pd.DataFrame(np.ones((2,3)),index=[1,2]),"BG lines":pd.DataFrame([[1,2]],index=[1]),"BG surfaces":pd.DataFrame([[1,2,2]],index=[1])}
def T2():
    pts=pd.DataFrame(rng.integers(0,9,(3,3)).astype(float),index=pd.Index([1,2,3],name="ptName"),columns=["x","y","z"])
    mp=pd.DataFrame([["a","b",0],["c","d",0],["k1",0,0]],index=pts.index.copy(),columns=["x","y","z"])
    cst=pd.DataFrame([[0.5,0.5]],index=["k1"],columns=["a","c"])
    sign=pd.DataFrame([[1,-1,0],[1,1,0],[-1,0,0]],index=pts.index.copy(),columns=["x","y","z"])
    return {"sensors names":pd.DataFrame([names],index=[1]),"points coordinates":pts,"mapping":mp,"constraints":cst,"sensors sign":sign,
            "sensors lines":pd.DataFrame([[1,2]],index=[1]),"sensors surfaces":pd.DataFrame([[1,2,3]],index=[1]),"BG nodes":pd.DataFrame(np.ones((2,3)),index=[1,2]),"BG lines":pd.DataFrame([[1,2]],index=[1]),"BG surfaces":pd.DataFrame([[1,2,2]],index=[1])}
def attempt(label,fn,d):
    try: fn(d); print(f"{label:55s} -> accepted")
    except ValueError as e: print(f"{label:55s} -> ValueError")
    except Exception as e: print(f"{label:55s} -> {type(e).__name__}: {str(e)[:60]}")
def mut(d,k,f): d=dict(d); d[k]=f(d[k]); return d
def drop(d,k): d=dict(d); d.pop(k); return d
g1=gen.check_on_geo1; g2=gen.check_on_geo2
attempt("geo1 valid",g1,T1())
for k in ("sensors names","sensors coordinates","sensors directions"): attempt(f"geo1 missing required {k}",g1,drop(T1(),k))
for k in ("sensors lines","BG nodes","BG lines","BG surfaces"): attempt(f"geo1 omit optional {k}",g1,drop(T1(),k))
d=T1(); d["foo"]=pd.DataFrame([[1]]); attempt("geo1 unknown sheet",g1,d)
attempt("geo1 coord 2 cols",g1,mut(T1(),"sensors coordinates",lambda x:x.iloc[:,:2]))
attempt("geo1 dirs 2 cols",g1,mut(T1(),"sensors directions",lambda x:x.iloc[:,:2]))
attempt("geo1 dirs fewer rows",g1,mut(T1(),"sensors directions",lambda x:x.iloc[:3]))
attempt("geo1 dirs other index",g1,mut(T1(),"sensors directions",lambda x:x.set_axis(["c","a","d","zz"])))
attempt("geo1 BG nodes 2 cols",g1,mut(T1(),"BG nodes",lambda x:x.iloc[:,:2]))
attempt("geo1 BG lines 3 cols",g1,mut(T1(),"BG lines",lambda x:pd.DataFrame([[1,2,3]])))
attempt("geo1 BG surf 2 cols",g1,mut(T1(),"BG surfaces",lambda x:pd.DataFrame([[1,2]])))
attempt("geo1 sens lines 3 cols",g1,mut(T1(),"sensors lines",lambda x:pd.DataFrame([[1,2,3]])))
attempt("geo1 name not in coords",g1,mut(T1(),"sensors names",lambda x:pd.DataFrame([["a","b","c","zz"]])))
attempt("geo2 valid",g2,T2())
for k in ("sensors names","points coordinates","mapping"): attempt(f"geo2 missing required {k}",g2,drop(T2(),k))
for k in ("constraints","sensors sign","sensors lines","sensors surfaces","BG nodes","BG lines","BG surfaces"):
    dd=T2()
    if k=="constraints": dd["mapping"]=pd.DataFrame([["a","b",0],["c","d",0],[0,0,0]],index=dd["points coordinates"].index,columns=["x","y","z"])
    attempt(f"geo2 omit optional {k}",g2,drop(dd,k))
d=T2(); d["foo"]=pd.DataFrame([[1]]); attempt("geo2 unknown sheet",g2,d)
attempt("geo2 pts 2 cols",g2,mut(T2(),"points coordinates",lambda x:x.iloc[:,:2]))
attempt("geo2 mapping fewer rows",g2,mut(T2(),"mapping",lambda x:x.iloc[:2]))
attempt("geo2 sign fewer rows",g2,mut(T2(),"sensors sign",lambda x:x.iloc[:2]))
attempt("geo2 name not in mapping",g2,mut(T2(),"sensors names",lambda x:pd.DataFrame([["a","b","c","d","zz"]])))
attempt("geo2 constraint unknown sensor col",g2,mut(T2(),"constraints",lambda x:pd.DataFrame([[0.5,0.5]],index=["k1"],columns=["a","zz"])))
attempt("geo2 constraint never used",g2,mut(T2(),"constraints",lambda x:pd.DataFrame([[0.5,0.5],[1,0]],index=["k1","k2"],columns=["a","c"])))
attempt("geo2 BG nodes 2 cols",g2,mut(T2(),"BG nodes",lambda x:x.iloc[:,:2]))
attempt("geo2 BG lines 3 cols",g2,mut(T2(),"BG lines",lambda x:pd.DataFrame([[1,2,3]])))
attempt("geo2 BG surf 2 cols",g2,mut(T2(),"BG surfaces",lambda x:pd.DataFrame([[1,2]])))
# multi-setup names
nm=pd.DataFrame([["r1","r2","m1","m2"],["m3","r1b","r2b",np.nan]],index=[1,2])
print(gen.flatten_sns_names(nm,[[0,1],[1,2]]), gen.flatten_sns_names([["r1","r2","m1","m2"],["m3","r1b","r2b"]],[[0,1],[1,2]]))
