from common import *
from pyoma2.functions import ssi, gen
from pyoma2.setup import MultiSetup_PreGER
from pyoma2.algorithms import SSIcov_MS, SSIdat_MS
import math
rng = np.random.default_rng(int(sys.argv[1]) if len(sys.argv)>1 else 0)
for trial in range(25):
    m = int(rng.integers(1,6)); fs = float(rng.choice([10,100,256]))
    nset = int(rng.integers(2,5)); nref = int(rng.integers(1,4))
    nmov = [int(rng.integers(1,5)) for _ in range(nset)]
    ndof = nref+sum(nmov)
    fn, xi, Phi, lam = make_system(rng, m, ndof, fs, bool(rng.integers(0,2)))
    datasets=[]; ref_ind=[]
    off = nref
    glob_order = list(range(nref))
    for k in range(nset):
        idx_mov = list(range(off, off+nmov[k])); off+=nmov[k]
        nch = nref+nmov[k]
        pos = rng.permutation(nch)
        refpos = [int(p) for p in pos[:nref]]          # positions of ref 0..nref-1 in channel list (any order)
        movpos = sorted(int(p) for p in pos[nref:])    # roving positions ascending <-> idx_mov order
        chan_glob = [None]*nch
        for r,p in enumerate(refpos): chan_glob[p]=r
        for g,p in zip(idx_mov, movpos): chan_glob[p]=g
        N = int(rng.integers(600,2500))
        gain = 10**rng.uniform(-2,2)
        Y = gain*free_decay(rng, fn, xi, Phi[chan_glob], lam, fs, N)
        datasets.append(Y.T.copy()); ref_ind.append(refpos)
    br = max(math.ceil(2*m/nref)+1, 2*m) + int(rng.integers(0,5))
    for meth, cls in (("cov_mm", SSIcov_MS),("dat", SSIdat_MS)):
        ms = MultiSetup_PreGER(fs=fs, ref_ind=ref_ind, datasets=datasets)
        alg = cls(name="a", br=br, ordmax=2*m, method=meth, hc=dict(conj=False, xi_max=1.0, mpc_lim=0.0, mpd_lim=10.0, cov_max=1e9))
        ms.add_algorithms(alg); ms.run_by_name("a")
        r = alg.result
        F = r.Fn_poles[:, 2*m]; X = r.Xi_poles[:,2*m]; P = r.Phi_poles[:,2*m,:]
        if np.all(np.isnan(F)): print("ALLNAN", m, nset, nref, nmov, br, meth, fs, [d.shape for d in datasets], r.Fn_poles.shape, r.Lambds[:,2*m]); continue
        errs=[]
        for k in range(m):
            j = np.nanargmin(abs(F-fn[k]))
            errs.append((abs(F[j]-fn[k])/fn[k], abs(X[j]-xi[k]), 1-mac(P[j], Phi[:,k])))
        e = np.max(np.array(errs),axis=0)
        print(f"m={m} nset={nset} nref={nref} nmov={nmov} br={br} {meth}: ef={e[0]:.1e} ex={e[1]:.1e} emac={e[2]:.1e} Pshape={P.shape}")
