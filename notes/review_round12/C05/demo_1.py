"""C05 demo 1: pLSCF aborts with LinAlgError("Singular matrix") on an exactly
rational spectrum as soon as ordmax exceeds the true order n, so the order-n
model (and every other order) is never returned.

Run:  PYTHONPATH=/tmp/wt12/C05/src MPLBACKEND=Agg /venv/bin/python demo_1.py
"""
import sys

import numpy as np

from pyoma2.functions import plscf

plscf.trange = lambda *a, **k: range(*a)  # silence the progress bar only


def rational_spectrum(n, Nch, Nref, Nf, dt, sgn, seed):
    """Sy[:, :, k] = B(x_k) A(x_k)^-1 on the library's own frequency grid,
    A, B real of order n, normalised as the library does (LO: A_0 = I for
    sgn = -1, HI: A_n = I for sgn = +1)."""
    rng = np.random.default_rng(seed)
    A = rng.standard_normal((n + 1, Nch, Nch))
    B = rng.standard_normal((n + 1, Nref, Nch))
    N = np.linalg.inv(A[0] if sgn == -1 else A[-1])
    A, B = A @ N, B @ N
    freq = np.linspace(0.0, (1 / dt) / 2, Nf)
    x = np.exp(sgn * 1j * 2 * np.pi * freq * dt)
    Sy = np.empty((Nref, Nch, Nf), complex)
    for k, xk in enumerate(x):
        Ax = sum(A[i] * xk**i for i in range(n + 1))
        Bx = sum(B[i] * xk**i for i in range(n + 1))
        Sy[:, :, k] = Bx @ np.linalg.inv(Ax)
    return A, B, Sy


n, Nch, Nref, Nf, dt = 1, 3, 2, 64, 0.01  # Nf = 64 >= 4 (n + 1) = 8
ordmax = 3  # >= n
seeds = range(60)

crashed = []
worst_err_alone = 0.0
used = 0
for sgn in (-1, +1):
    for seed in seeds:
        A, B, Sy = rational_spectrum(n, Nch, Nref, Nf, dt, sgn, seed)
        # keep only benign problems: with ordmax = n the order-n model must be
        # recovered to 1e-10 (anything worse is set aside as ill conditioned)
        Ad, Bn = plscf.pLSCF(Sy, dt, n, sgn_basf=sgn)
        err = np.abs(Ad[n - 1] - A).max() / np.abs(A).max()
        if err > 1e-10:
            continue
        used += 1
        worst_err_alone = max(worst_err_alone, err)
        try:
            Ad, Bn = plscf.pLSCF(Sy, dt, ordmax, sgn_basf=sgn)
            plscf.pLSCF_poles(Ad, Bn, dt, "per", 128)
        except np.linalg.LinAlgError as e:
            crashed.append((sgn, seed, str(e)))

print(f"{used} of {2 * len(seeds)} random spectra kept; with ordmax = n their order-{n} coefficients are "
      f"recovered to {worst_err_alone:.1e} (well conditioned)")
print(f"same spectra with ordmax = {ordmax}: {len(crashed)} of {used} calls raised LinAlgError")
for c in crashed[:10]:
    print("   sgn_basf=%+d seed=%d -> LinAlgError: %s" % c)

assert used > 50 and worst_err_alone <= 1e-10
assert not crashed, (
    f"pLSCF/pLSCF_poles raised LinAlgError for {len(crashed)} of {used} exactly rational, well-conditioned "
    f"order-{n} spectra when ordmax={ordmax} > n: no order-{n} model and no pole table is returned "
    f"(first: sgn_basf={crashed[0][0]:+d}, seed={crashed[0][1]})"
)
sys.exit(0)
