"""C07 demo 1: EFDD / FSDD raise instead of returning the modal parameters of an exact
single-mode spectrum when the frequency line spacing fs/nxseg exceeds 2*DF1 - which, with the
library defaults (nxseg=1024, DF1=0.1 Hz), is every record sampled faster than ~205 Hz.

Run:  PYTHONPATH=/tmp/wt12/C07/src MPLBACKEND=Agg /venv/bin/python demo_1.py
"""
import logging
import sys

import numpy as np

from pyoma2.algorithms.data.result import EFDDResult
from pyoma2.algorithms.fdd import EFDD, FSDD
from pyoma2.functions import fdd

logging.disable(logging.CRITICAL)
fdd.tqdm = lambda x, *a, **k: x          # silence the progress bars only
fdd.trange = lambda *a, **k: range(*a)

# ---- an exact SDOF spectral bell, well inside the range of the property ------------------
fs = 1000.0            # Hz  ("any fs")
nxseg = 1024           # library default segment length -> line spacing 0.977 Hz
fn, xi = 100.3, 0.03   # 0.1003 fs, 3 % damping
phi = np.array([1.0, -0.6, 0.3])          # real shape, 3 channels
freq = np.fft.rfftfreq(nxseg, 1 / fs)     # periodogram convention, nxseg/2+1 lines
df = fs / nxseg
bw = 2 * xi * fn                          # half-power bandwidth = 6.0 Hz = 6.2 lines
assert 0.04 * fs <= fn <= 0.25 * fs and 0.02 <= xi <= 0.05
assert bw >= 4 * df, "bell resolved by at least four lines"
assert fn * (nxseg / 2) / fs >= 30, "at least 30 periods in the half record"
bell = fn**4 / ((fn**2 - freq**2) ** 2 + (2 * xi * fn * freq) ** 2)   # displacement PSD
Sy = bell[None, None, :] * np.outer(phi, phi)[:, :, None]
Sy = Sy + 1e-10 * bell.max() * np.eye(3)[:, :, None]                  # negligible floor
Sy = Sy.astype(complex)
DF2 = 4 * bw                              # analysis band of four bandwidths


def judge(Fn, Xi, Phi):
    p = Phi[:, 0]
    mac = abs(np.vdot(p, phi)) ** 2 / (np.vdot(p, p).real * (phi @ phi))
    return abs(float(np.ravel(Fn)[0]) / fn - 1), abs(float(np.ravel(Xi)[0]) / xi - 1), mac


problems = []

# control: the very same spectrum is identified accurately when DF1 spans a few lines,
# so nothing is wrong with the input.
for method in ("EFDD", "FSDD"):
    Fn, Xi, Phi, _ = fdd.EFDD_mpe(Sy, freq, 1 / fs, [fn], "per", method=method, DF1=3 * df, DF2=DF2)
    ef, ex, mac = judge(Fn, Xi, Phi)
    print(f"control {method} DF1=3 lines : freq err {ef:.4%}  damping err {ex:.4%}  MAC {mac:.6f}")
    assert ef < 0.025 and ex < 0.15 and mac > 0.999, "control must pass"

# 1) function level, default DF1
for method in ("EFDD", "FSDD"):
    try:
        Fn, Xi, Phi, _ = fdd.EFDD_mpe(Sy, freq, 1 / fs, [fn], "per", method=method, DF2=DF2)
        ef, ex, mac = judge(Fn, Xi, Phi)
        print(f"{method} default DF1: freq err {ef:.4%} damping err {ex:.4%} MAC {mac:.6f}")
    except Exception as exc:  # noqa: BLE001
        print(f"{method} default DF1: raised {type(exc).__name__}: {exc}")
        problems.append(f"fdd.EFDD_mpe(method={method!r}) with the default DF1=0.1 raised "
                        f"{type(exc).__name__}: {exc}")

# 2) the public algorithm classes, default DF1
for cls in (EFDD, FSDD):
    algo = cls(name="x", nxseg=nxseg, method_SD="per")
    algo._set_data(np.zeros((10, 3)), fs)
    S_val, S_vec = fdd.SD_svalsvec(Sy)
    algo.result = EFDDResult(freq=freq, Sy=Sy, S_val=S_val, S_vec=S_vec)
    try:
        algo.mpe(sel_freq=[fn], DF2=DF2)
        ef, ex, mac = judge(algo.result.Fn, algo.result.Xi, algo.result.Phi)
        print(f"{cls.__name__}.mpe default DF1: freq err {ef:.4%} damping err {ex:.4%}")
    except Exception as exc:  # noqa: BLE001
        print(f"{cls.__name__}.mpe default DF1: raised {type(exc).__name__}: {exc}")
        problems.append(f"{cls.__name__}.mpe(sel_freq=[{fn}], DF2=...) with the default DF1 raised "
                        f"{type(exc).__name__}: {exc}")

# 3) how often: slide the picked frequency over one line spacing around the peak
picks = fn + np.linspace(-0.5, 0.5, 41) * df
crashed = 0
for s in picks:
    try:
        fdd.EFDD_mpe(Sy, freq, 1 / fs, [float(s)], "per", method="FSDD", DF2=DF2)
    except ValueError:
        crashed += 1
print(f"picked frequency slid over one line spacing: {crashed}/{len(picks)} picks raise "
      f"(expected fraction 1 - 2*DF1/df = {1 - 2 * 0.1 / df:.2f})")
if crashed:
    problems.append(f"{crashed} of {len(picks)} picked frequencies within half a line of the peak raise")

if problems:
    msg = ("C07 VIOLATED: exact SDOF bell at fs=1000 Hz, nxseg=1024 (line spacing 0.977 Hz), "
           "fn=100.3 Hz, xi=3 %, DF2 = 4 bandwidths, default DF1/sppk/npmax/MAClim: EFDD/FSDD do not "
           "return the mode's parameters but raise, because FDD_mpe's search band "
           "[sel-DF1, sel+DF1) contains no frequency line:\n  - " + "\n  - ".join(problems))
    raise AssertionError(msg)
print("no violation")
sys.exit(0)
