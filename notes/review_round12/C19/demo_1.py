"""C19 / finding 1: Geometry 2 accepts 'points coordinates', 'mapping' and
'sensors sign' tables whose row indices (the ptName column of the Excel
template) do not agree.  No ValueError is raised, a geometry is produced, and the
tables are paired by row POSITION, so the mode shape is displayed at the wrong
points.  (Geometry 1 does raise for the analogous coordinates/directions fault.)

run:  PYTHONPATH=/tmp/wt12/C19/src MPLBACKEND=Agg /venv/bin/python demo_1.py
"""
import sys
import warnings

import matplotlib

matplotlib.use("Agg")
import matplotlib.pyplot as plt
import numpy as np
import pandas as pd

warnings.simplefilter("ignore")

from pyoma2.algorithms.data.result import BaseResult
from pyoma2.functions.gen import check_on_geo1, check_on_geo2
from pyoma2.setup.single import SingleSetup

names = ["ch1", "ch2", "ch3"]
pt = pd.Index([1, 2, 3], name="ptName")


def tables():
    """A valid table set, shaped like the sheets of the Geo2 Excel template
    (first column = index, header row = x, y, z)."""
    return {
        "sensors names": pd.DataFrame(
            [names], index=pd.Index([1], name="setup No."),
            columns=["chann. 1", "chann. 2", "chann. 3"],
        ),
        "points coordinates": pd.DataFrame(
            [[0.0, 0.0, 0.0], [10.0, 0.0, 0.0], [20.0, 0.0, 0.0]],
            index=pt, columns=list("xyz"),
        ),
        "mapping": pd.DataFrame(
            [["ch1", 0, 0], ["ch2", 0, 0], ["ch3", 0, 0]],
            index=pt, columns=list("xyz"),
        ),
        "sensors sign": pd.DataFrame(
            [[1, 0, 0], [1, 0, 0], [-1, 0, 0]], index=pt, columns=list("xyz")
        ),
    }


problems = []

# --- sanity: the valid set is accepted -------------------------------------
check_on_geo2(tables())

# --- reference behaviour of Geometry 1 for the same kind of fault ----------
ix = pd.Index(names, name="label")
g1 = {
    "sensors names": tables()["sensors names"],
    "sensors coordinates": pd.DataFrame(np.zeros((3, 3)), index=ix, columns=list("xyz")),
    "sensors directions": pd.DataFrame(np.eye(3), index=ix, columns=list("xyz")).iloc[[2, 0, 1]],
}
try:
    check_on_geo1(g1)
    print("geo1: mismatched index accepted (unexpected)")
except ValueError as e:
    print("geo1: mismatched coordinates/directions index -> ValueError (as the property demands)")

# --- single faults on the Geometry 2 tables --------------------------------
faults = {
    "rows of 'mapping' in another order (ptName 3,1,2)":
        lambda d: d.__setitem__("mapping", d["mapping"].iloc[[2, 0, 1]]),
    "'mapping' indexed by point names the coordinate table does not have (7,8,9)":
        lambda d: d.__setitem__("mapping", d["mapping"].set_axis(pd.Index([7, 8, 9], name="ptName"))),
    "rows of 'sensors sign' in another order (ptName 3,1,2)":
        lambda d: d.__setitem__("sensors sign", d["sensors sign"].iloc[[2, 0, 1]]),
    "rows of 'points coordinates' in another order (ptName 2,3,1)":
        lambda d: d.__setitem__("points coordinates", d["points coordinates"].iloc[[1, 2, 0]]),
}
for label, corrupt in faults.items():
    d = tables()
    corrupt(d)
    try:
        check_on_geo2(d)
    except ValueError:
        print(f"geo2: {label} -> ValueError (ok)")
    else:
        print(f"geo2: {label} -> ACCEPTED, geometry produced")
        problems.append(label)

# --- consequence through the public API -------------------------------------
# mapping sheet with its rows sorted differently; every row still carries its
# ptName, so the table says unambiguously: ch1 at point 1, ch2 at 2, ch3 at 3.
d = tables()
mapping_perm = d["mapping"].iloc[[2, 0, 1]]
ss = SingleSetup(np.random.default_rng(0).normal(size=(100, 3)), fs=10.0)
raised = False
try:
    ss.def_geo2(
        sens_names=names,
        pts_coord=d["points coordinates"],
        sens_map=mapping_perm,
        sens_sign=d["sensors sign"],
    )
except ValueError:
    raised = True

if not raised:
    phi = np.array([[1.0], [2.0], [3.0]])  # ch1 = 1, ch2 = 2, ch3 = 3
    res = BaseResult(Fn=np.array([1.0]), Phi=phi)
    fig, ax = ss.plot_mode_geo2_mpl(res, mode_nr=1, scaleF=1, color="b")
    shown = np.array(ax.collections[0]._offsets3d).T  # displayed (deformed) points
    plt.close(fig)
    pts = d["points coordinates"].to_numpy()
    disp = (shown - pts)[:, 0]
    # what the tables say (aligned on ptName): value * sign at the named point
    expected = np.array([1.0 * 1, 2.0 * 1, 3.0 * -1])
    print("displayed x-displacement at points 1,2,3 :", disp)
    print("displacement the tables prescribe        :", expected)
    if not np.allclose(disp, expected):
        problems.append(
            "def_geo2 paired mapping rows with points by position: displayed "
            f"displacements {disp.tolist()} instead of {expected.tolist()} "
            f"(max error {np.abs(disp - expected).max():g})"
        )

assert not problems, (
    "C19 violated: Geometry 2 tables with mismatched indices did not raise "
    "ValueError but produced a geometry:\n  - " + "\n  - ".join(problems)
)
print("no violation")
