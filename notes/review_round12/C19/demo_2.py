"""C19 / finding 2: the column count of the 'sensors lines' sheet (Geometry 1 and 2)
and of the 'sensors surfaces' sheet (Geometry 2) is never checked.  Tables with a
wrong number of columns do not raise ValueError - a geometry is produced - while
the very same fault on 'BG lines' / 'BG surfaces' does raise.  The malformed
arrays then either crash later, at plot time, or are silently mis-read.

run:  PYTHONPATH=/tmp/wt12/C19/src MPLBACKEND=Agg /venv/bin/python demo_2.py
"""
import warnings

import matplotlib

matplotlib.use("Agg")
import matplotlib.pyplot as plt
import numpy as np
import pandas as pd

warnings.simplefilter("ignore")

from pyoma2.algorithms.data.result import BaseResult
from pyoma2.functions.gen import check_on_geo1, check_on_geo2
from pyoma2.setup.single import SingleSetup

names = ["ch1", "ch2", "ch3", "ch4"]
pt = pd.Index([1, 2, 3, 4], name="ptName")
xyz = list("xyz")
P = [[0.0, 0.0, 0.0], [1.0, 0.0, 0.0], [1.0, 1.0, 0.0], [0.0, 1.0, 0.0]]
names_tab = pd.DataFrame([names], index=pd.Index([1], name="setup No."))
lines_ok = pd.DataFrame([[1, 2], [2, 3], [3, 4]], index=pd.Index([1, 2, 3], name="label"),
                        columns=["start", "end"])
surf_ok = pd.DataFrame([[1, 2, 3], [1, 3, 4]], index=pd.Index([1, 2], name="lab"),
                       columns=list("ijk"))


def geo1_tables():
    ix = pd.Index(names, name="label")
    return {
        "sensors names": names_tab,
        "sensors coordinates": pd.DataFrame(P, index=ix, columns=xyz),
        "sensors directions": pd.DataFrame([[0, 0, 1]] * 4, index=ix, columns=xyz),
        "sensors lines": lines_ok.copy(),
        "BG nodes": pd.DataFrame(P, index=pt, columns=xyz),
        "BG lines": lines_ok.copy(),
    }


def geo2_tables():
    return {
        "sensors names": names_tab,
        "points coordinates": pd.DataFrame(P, index=pt, columns=xyz),
        "mapping": pd.DataFrame([[0, 0, n] for n in names], index=pt, columns=xyz),
        "sensors lines": lines_ok.copy(),
        "sensors surfaces": surf_ok.copy(),
        "BG nodes": pd.DataFrame(P, index=pt, columns=xyz),
        "BG lines": lines_ok.copy(),
        "BG surfaces": surf_ok.copy(),
    }


def wider(df):
    return df.assign(extra=1)


def narrower(df):
    return df.iloc[:, :-1]


check_on_geo1(geo1_tables())
check_on_geo2(geo2_tables())

cases = [
    ("geo1", "BG lines", wider), ("geo1", "BG lines", narrower),
    ("geo1", "sensors lines", wider), ("geo1", "sensors lines", narrower),
    ("geo2", "BG lines", wider), ("geo2", "BG surfaces", wider), ("geo2", "BG surfaces", narrower),
    ("geo2", "sensors lines", wider), ("geo2", "sensors lines", narrower),
    ("geo2", "sensors surfaces", wider), ("geo2", "sensors surfaces", narrower),
]
problems = []
for geo, sheet, fault in cases:
    d = geo1_tables() if geo == "geo1" else geo2_tables()
    d[sheet] = fault(d[sheet])
    ncol = d[sheet].shape[1]
    try:
        out = (check_on_geo1 if geo == "geo1" else check_on_geo2)(d)
    except ValueError:
        print(f"{geo}: '{sheet}' with {ncol} columns -> ValueError (ok)")
    else:
        print(f"{geo}: '{sheet}' with {ncol} columns -> ACCEPTED, geometry produced")
        problems.append(f"{geo}: '{sheet}' with {ncol} columns accepted")

# --- the same through the documented argument forms + what happens afterwards ---
ss = SingleSetup(np.random.default_rng(0).normal(size=(100, 4)), fs=10.0)
res = BaseResult(Fn=np.array([1.0]), Phi=np.array([[1.0], [2.0], [3.0], [4.0]]))
pts = pd.DataFrame(P, index=pt, columns=xyz)
smap = pd.DataFrame([[0, 0, n] for n in names], index=pt, columns=xyz)

# (a) four-column surfaces (e.g. quadrilaterals typed into the triangle sheet)
try:
    ss.def_geo2(names, pts, smap, sens_surf=np.array([[1, 2, 3, 4]]))
except ValueError:
    print("def_geo2(sens_surf with 4 columns) -> ValueError (ok)")
else:
    shape = ss.geo2.sens_surf.shape
    try:
        fig, ax = ss.plot_mode_geo2_mpl(res, mode_nr=1, scaleF=1, color="b")
        plt.close(fig)
        later = "plotted without complaint"
    except Exception as e:  # noqa: BLE001
        later = f"plot_mode_geo2_mpl fails later with {type(e).__name__}: {e}"
    print(f"def_geo2(sens_surf with 4 columns) -> geometry with sens_surf.shape={shape}; {later}")
    problems.append(f"def_geo2 stored sens_surf of shape {shape}; {later}")

# (b) one-column sensor lines
try:
    ss.def_geo2(names, pts, smap, sens_lines=np.array([[1], [2]]))
except ValueError:
    print("def_geo2(sens_lines with 1 column) -> ValueError (ok)")
else:
    shape = ss.geo2.sens_lines.shape
    try:
        fig, ax = ss.plot_mode_geo2_mpl(res, mode_nr=1, scaleF=1, color="b")
        plt.close(fig)
        later = "plotted without complaint"
    except Exception as e:  # noqa: BLE001
        later = f"plot_mode_geo2_mpl fails later with {type(e).__name__}: {e}"
    print(f"def_geo2(sens_lines with 1 column) -> geometry with sens_lines.shape={shape}; {later}")
    problems.append(f"def_geo2 stored sens_lines of shape {shape}; {later}")

# (c) three-column sensor lines in Geometry 1: silently mis-read (3rd node dropped)
sc = pd.DataFrame(P, index=names, columns=xyz)
try:
    ss.def_geo1(names, sc, np.array([[0, 0, 1]] * 4), sens_lines=np.array([[1, 2, 3], [3, 4, 1]]))
except ValueError:
    print("def_geo1(sens_lines with 3 columns) -> ValueError (ok)")
else:
    shape = ss.geo1.sens_lines.shape
    fig, ax = ss.plot_geo1()
    plt.close(fig)
    print(f"def_geo1(sens_lines with 3 columns) -> geometry with sens_lines.shape={shape}; "
          "plot_geo1 draws it, silently ignoring the third column")
    problems.append(f"def_geo1 stored sens_lines of shape {shape} and plots it, ignoring column 3")

assert not problems, (
    "C19 violated: tables with a wrong column count did not raise ValueError "
    "but produced a geometry:\n  - " + "\n  - ".join(problems)
)
print("no violation")
