"""C01 / finding 2: with the documented run parameter step > 1 the SSI run cannot
produce the poles of ANY model order: SSI_fast / SSI build the realisations for the
orders 0, step, 2*step, ... (a list indexed by position), but SSI_poles walks the
orders 1, 1+step, ... and uses the ORDER as list index and as column index.

Run:  PYTHONPATH=/tmp/wt12/C01/src MPLBACKEND=Agg /venv/bin/python demo_2.py
"""
import logging
import sys

import numpy as np

logging.disable(logging.CRITICAL)

from pyoma2.algorithms.ssi import SSIcov, SSIdat  # noqa: E402
from pyoma2.functions import gen, ssi as fssi  # noqa: E402
from pyoma2.setup.single import SingleSetup  # noqa: E402

fs = 100.0
f = np.array([4.0, 11.0, 23.0])
xi = np.array([0.01, 0.02, 0.03])
phi = np.array([[1.0, 0.8, 0.3, -0.4], [1.0, -0.2, -0.9, 0.5], [0.6, -1.0, 0.7, 0.2]]).T
m = 3
wn = 2 * np.pi * f
lam = -xi * wn + 1j * wn * np.sqrt(1 - xi**2)
t = np.arange(1500) / fs
Y = sum(2 * np.real(np.outer(phi[:, j] * np.exp(0.7j * j), np.exp(lam[j] * t))) for j in range(m))
data = Y.T  # noise-free free vibration, (N, nch)
hc = dict(conj=True, xi_max=0.5, mpc_lim=0.0, mpd_lim=10.0, cov_max=1e9)  # nothing filtered


def exact_column(Fn, Xi, Phi):
    """index of a column that holds exactly the m conjugate pairs of the system"""
    for c in range(Fn.shape[1]):
        ok = ~np.isnan(Fn[:, c])
        if ok.sum() != 2 * m:
            continue
        good = True
        for j in range(m):
            k = np.flatnonzero(ok)[np.argmin(np.abs(Fn[ok, c] - f[j]))]
            good &= abs(Fn[k, c] - f[j]) / f[j] < 1e-8 and abs(Xi[k, c] - xi[j]) < 1e-8
            good &= gen.MAC(Phi[k, c, :], phi[:, j]) > 1 - 1e-8
        if good:
            return c
    return None


problems = []
for step in (1, 2, 3):
    ordmax = 12  # 2m = 6 is a multiple of every step tried
    for cls in (SSIcov, SSIdat):
        ss = SingleSetup(data, fs=fs)
        alg = cls(name="ssi", br=10, ordmax=ordmax, step=step, hc=hc)
        ss.add_algorithms(alg)
        try:
            ss.run_by_name("ssi")
            r = alg.result
            c = exact_column(r.Fn_poles, r.Xi_poles, r.Phi_poles)
            print(f"step={step} {cls.__name__}: exact poles of order {2*m} found in column {c}")
            if c is None:
                problems.append(f"step={step} {cls.__name__}: no column holds the exact {m} pole pairs")
        except Exception as e:  # noqa: BLE001
            print(f"step={step} {cls.__name__}: run raised {e!r}")
            problems.append(f"step={step} {cls.__name__}: run raised {e!r}")

    # the same through the functions, both realisation routines
    H, _ = fssi.build_hank(Y, Y, 10, "cov_mm")
    for name in ("SSI_fast", "SSI"):
        try:
            if name == "SSI_fast":
                Obs, A, C, *_ = fssi.SSI_fast(H, 10, ordmax, step=step)
            else:
                A, C = fssi.SSI(H, 10, ordmax, step=step)
                Obs = None
            Fn, Xi, Phi, *_ = fssi.SSI_poles(Obs, A, C, ordmax, 1 / fs, step=step)
            c = exact_column(Fn, Xi, Phi)
            print(f"step={step} {name}+SSI_poles: exact poles found in column {c}")
            if c is None:
                problems.append(f"step={step} {name}+SSI_poles: exact pole pairs not found")
        except Exception as e:  # noqa: BLE001
            print(f"step={step} {name}+SSI_poles raised {e!r} (orders realised: {[a.shape[0] for a in A]})")
            problems.append(f"step={step} {name}+SSI_poles raised {e!r}")

assert not problems, (
    "SSI with the legal option step>1 does not deliver the poles of model order 2m "
    f"for noise-free free-vibration data ({len(problems)} failing combinations): " + "; ".join(problems)
)
print("OK")
sys.exit(0)
