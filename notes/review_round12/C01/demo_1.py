"""C01 / finding 1: a perfectly real mode whose shape is the same on every
channel (e.g. a rigid floor translation seen by parallel sensors) is thrown away
by the DEFAULT hard criteria of SSIcov / SSIdat, because gen.MPC() centres the
real and imaginary parts (np.cov) before measuring collinearity.

Run:  PYTHONPATH=/tmp/wt12/C01/src MPLBACKEND=Agg /venv/bin/python demo_1.py
"""
import logging
import sys

import numpy as np

logging.disable(logging.CRITICAL)

from pyoma2.algorithms.ssi import SSIcov, SSIdat  # noqa: E402
from pyoma2.functions import gen, ssi as fssi  # noqa: E402
from pyoma2.setup.single import SingleSetup  # noqa: E402

fs = 100.0
# two real modes on four channels; mode 1 moves all four sensors identically
phi = np.array([[1.0, 1.0, 1.0, 1.0], [1.0, 0.5, -0.5, -1.0]]).T  # (nch, m)
m = phi.shape[1]


def free_decay(f, xi, q0, N):
    wn = 2 * np.pi * f
    lam = -xi * wn + 1j * wn * np.sqrt(1 - xi**2)
    t = np.arange(N) / fs
    Y = np.zeros((phi.shape[0], N))
    for j in range(m):
        Y += 2 * np.real(np.outer(phi[:, j] * q0[j], np.exp(lam[j] * t)))
    return Y.T  # (N, nch) noise-free free vibration


rng = np.random.default_rng(2024)
failures = []
ncases = 0
for case in range(12):
    f = np.array([rng.uniform(2, 15), rng.uniform(20, 40)])
    xi = rng.uniform(0.002, 0.08, m)
    q0 = rng.uniform(0.5, 1.5, m) * np.exp(1j * rng.uniform(0, 2 * np.pi, m))
    N = int(rng.integers(600, 2000))
    br = int(rng.integers(4, 15))
    data = free_decay(f, xi, q0, N)
    for cls in (SSIcov, SSIdat):
        ncases += 1
        ss = SingleSetup(data, fs=fs)
        alg = cls(name="ssi", br=br, ordmax=2 * m)  # every option at its default
        ss.add_algorithms(alg)
        ss.run_by_name("ssi")
        col = alg.result.Fn_poles[:, 2 * m]
        kept = np.sort(col[~np.isnan(col)])
        # what the identification itself produced, before the hard criteria
        Fn_raw, Xi_raw, Phi_raw, *_ = fssi.SSI_poles(
            alg.result.Obs, alg.result.A, alg.result.C, 2 * m, 1 / fs
        )
        k = int(np.argmin(np.abs(Fn_raw[:, 2 * m] - f[0])))
        shape = Phi_raw[k, 2 * m, :]
        raw_ok = (
            abs(Fn_raw[k, 2 * m] - f[0]) / f[0] < 1e-9
            and abs(Xi_raw[k, 2 * m] - xi[0]) < 1e-9
            and gen.MAC(shape, phi[:, 0]) > 1 - 1e-9
        )
        if len(kept) != 2 * m:
            try:
                ss.mpe("ssi", sel_freq=[float(x) for x in f], order=2 * m)
                got = alg.result.Fn
            except Exception as e:  # noqa: BLE001
                got = repr(e)
            failures.append(
                f"case {case} {cls.__name__}: f={np.round(f, 3)} xi={np.round(xi, 4)} "
                f"br={br} N={N}: order {2*m} keeps only poles {np.round(kept, 4)}; "
                f"unfiltered pole of mode 1 exact: {raw_ok}, its shape max|imag|="
                f"{np.max(np.abs(shape.imag)):.1e}, max|real-1|={np.max(np.abs(shape.real-1)):.1e}, "
                f"gen.MPC(shape)={gen.MPC(shape).real:.3f} (< default mpc_lim 0.7); "
                f"mpe at order {2*m} -> {got}"
            )

for line in failures:
    print(line)
# the defect in isolation: a purely real shape must have MPC = 1
almost = np.array([1.0, 1.0 + 2e-16j, 1.0 - 4e-16 + 3e-16j, 1.0 + 2e-16 - 1e-16j])
print("gen.MPC of [1,1,1,1] with 1e-16 rounding noise:", gen.MPC(almost).real)
nearly_real = np.array([1.0, 0.98 + 0.02j, 1.02 + 0.01j, 0.99 - 0.02j])
print("gen.MPC of a nearly real, nearly uniform shape :", gen.MPC(nearly_real).real,
      "(1 - MCF, the uncentred collinearity:", 1 - gen.MCF(nearly_real)[0], ")")

# second, fully deterministic variant: a *slightly* complex, nearly uniform shape
# (MPD 0.013 rad, uncentred collinearity 0.999) is rejected in every run
phi = np.array([nearly_real, [1.0, 0.5, -0.5, -1.0]]).T
f = np.array([6.0, 27.0]); xi = np.array([0.02, 0.01]); q0 = np.array([1.0, 0.8j])
data = free_decay(f, xi, q0, 1500)
for cls in (SSIcov, SSIdat):
    ncases += 1
    ss = SingleSetup(data, fs=fs)
    alg = cls(name="ssi", br=10, ordmax=4)
    ss.add_algorithms(alg)
    ss.run_by_name("ssi")
    col = alg.result.Fn_poles[:, 4]
    kept = np.sort(col[~np.isnan(col)])
    if len(kept) != 4:
        failures.append(
            f"nearly-uniform slightly complex shape, {cls.__name__}: order 4 keeps only {np.round(kept, 4)}"
        )
        print(failures[-1])

assert not failures, (
    f"{len(failures)} of {ncases} default SSIcov/SSIdat runs on noise-free free-vibration "
    f"data lost the conjugate pole pair of the uniform (purely real) mode at model order 2m: "
    f"the identification is exact but HC_phi_comp/gen.MPC rejects the pole "
    f"(first: {failures[0]})"
)
print("OK")
sys.exit(0)
