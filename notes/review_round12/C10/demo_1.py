"""
C10 / finding 1: pLSCF (and pLSCF_MS) never label the poles of model order == ordmin
as stable when ordmin >= 2, although that order lies in [ordmin, ordmax] and its poles
satisfy the three soft criteria against the previous order.  With ordmin == ordmax no
pole at all is labelled.

Run:  PYTHONPATH=/tmp/wt12/C10/src MPLBACKEND=Agg /venv/bin/python demo_1.py
"""
import logging
import sys

import numpy as np
from scipy import signal

logging.disable(logging.CRITICAL)

from pyoma2.algorithms import pLSCF, pLSCF_MS  # noqa: E402
from pyoma2.setup import MultiSetup_PreGER, SingleSetup  # noqa: E402

FS = 100.0
N = 6000
ORDMAX = 12
SC = dict(err_fn=0.01, err_xi=0.05, err_phi=0.03)  # library defaults
FREQS, ZETAS = [5.0, 12.0, 21.0], [0.01, 0.015, 0.02]
SHAPES = np.random.default_rng(5).standard_normal((3, 8))


def record(channels, seed):
    """Three lightly damped modes driven by white noise, seen on `channels`."""
    rng = np.random.default_rng(seed)
    Y = np.zeros((N, len(channels)))
    for f0, z, sh in zip(FREQS, ZETAS, SHAPES):
        w0 = 2 * np.pi * f0
        num, den, _ = signal.cont2discrete(([w0**2], [1, 2 * z * w0, w0**2]), 1 / FS)
        q = signal.lfilter(num.ravel(), den, rng.standard_normal(N))
        Y += np.outer(q, sh[channels])
    return Y + 0.05 * Y.std() * rng.standard_normal(Y.shape)


def reference_labels(Fn, Xi, Phi, ordmin, ordmax, err_fn, err_xi, err_phi):
    """Property C10 written out; pLSCF convention: column c holds model order c + 1."""
    n, ncol = Fn.shape
    lab = np.zeros((n, ncol), dtype=int)
    for c in range(1, ncol):  # column 0 = order 1 = first order, never stable
        order = c + 1
        if not (ordmin <= order <= ordmax):
            continue
        prev = Fn[:, c - 1]
        if np.all(np.isnan(prev)):
            continue
        for i in range(n):
            f = Fn[i, c]
            if np.isnan(f):
                continue
            j = int(np.nanargmin(np.abs(prev - f)))
            d_f = abs(f - prev[j]) / f
            d_x = abs(Xi[i, c] - Xi[j, c - 1]) / Xi[i, c]
            a, b = Phi[i, c], Phi[j, c - 1]
            mac = abs(np.vdot(a, b)) ** 2 / (np.vdot(a, a).real * np.vdot(b, b).real)
            if d_f < err_fn and d_x < err_xi and (1 - mac) < err_phi:
                lab[i, c] = 1
    return lab


def margin_ok(Fn, Xi, Phi, c, rows, tol=1e-6):
    """True when the judged poles of column c are not within 1e-9 (we use 1e-6) of a tolerance."""
    for i in rows:
        j = int(np.nanargmin(np.abs(Fn[:, c - 1] - Fn[i, c])))
        d_f = abs(Fn[i, c] - Fn[j, c - 1]) / Fn[i, c]
        d_x = abs(Xi[i, c] - Xi[j, c - 1]) / Xi[i, c]
        a, b = Phi[i, c], Phi[j, c - 1]
        mac = abs(np.vdot(a, b)) ** 2 / (np.vdot(a, a).real * np.vdot(b, b).real)
        for v, t in ((d_f, SC["err_fn"]), (d_x, SC["err_xi"]), (1 - mac, SC["err_phi"])):
            if abs(v - t) < tol:
                return False
    return True


def run_single(ordmin):
    ss = SingleSetup(record([0, 1, 2, 3], 0), FS)
    alg = pLSCF(name="plscf", ordmax=ORDMAX, ordmin=ordmin, nxseg=256, sc=dict(SC))
    ss.add_algorithms(alg)
    ss.run_all()
    return alg.result


def run_multi(ordmin):
    data = [record([0, 1, 2, 3], 1), record([0, 1, 4, 5], 2), record([0, 1, 6, 7], 3)]
    ms = MultiSetup_PreGER(fs=FS, ref_ind=[[0, 1]] * 3, datasets=data)
    alg = pLSCF_MS(name="plscf_ms", ordmax=ORDMAX, ordmin=ordmin, nxseg=256, sc=dict(SC))
    ms.add_algorithms(alg)
    ms.run_all()
    return alg.result


failures = []
for label, runner in (("pLSCF (SingleSetup)", run_single), ("pLSCF_MS (MultiSetup_PreGER)", run_multi)):
    base = runner(0)  # same data, ordmin = 0: the library's own verdict on every column
    assert base.Fn_poles.shape[1] == ORDMAX, "one column per model order 1..ordmax expected"
    for ordmin in (8, ORDMAX):
        res = runner(ordmin)
        # the pole tables do not depend on ordmin
        assert np.array_equal(res.Fn_poles, base.Fn_poles, equal_nan=True)
        assert np.array_equal(res.Xi_poles, base.Xi_poles, equal_nan=True)
        assert np.array_equal(res.Phi_poles, base.Phi_poles, equal_nan=True)
        ref = reference_labels(res.Fn_poles, res.Xi_poles, res.Phi_poles, ordmin, ORDMAX, **SC)
        col = ordmin - 1  # column that holds model order == ordmin
        should = np.flatnonzero(ref[:, col] == 1)
        if not margin_ok(res.Fn_poles, res.Xi_poles, res.Phi_poles, col, should):
            continue
        got = np.flatnonzero(res.Lab[:, col] == 1)
        # cross-check of the reference with the library itself (ordmin = 0 run, same tables)
        assert np.array_equal(np.flatnonzero(base.Lab[:, col] == 1), should), "reference disagrees with ordmin=0 run"
        print(
            f"{label}: ordmax={ORDMAX} ordmin={ordmin}: order {ordmin} (column {col}) has "
            f"{len(should)} poles that meet all three criteria against order {ordmin - 1} "
            f"(f = {np.round(res.Fn_poles[should, col], 3)} Hz); library labels {len(got)} of them stable; "
            f"total stable labels in the run: {int(res.Lab.sum())} (property: {int(ref.sum())})"
        )
        if len(should) > 0 and not np.array_equal(got, should):
            failures.append(
                f"{label}, ordmin={ordmin}, ordmax={ORDMAX}: {len(should)} poles of model order {ordmin} "
                f"(inside [ordmin, ordmax], not the first order, criteria met) should be stable, "
                f"library labelled {len(got)}"
            )

if failures:
    print("\nPROPERTY C10 VIOLATED:")
    for f in failures:
        print("  -", f)
    sys.exit("AssertionError: stability labels of the order == ordmin are missing in pLSCF: " + "; ".join(failures))
print("no violation observed")
