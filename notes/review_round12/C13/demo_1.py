"""C13 demo 1: the periodogram estimator silently uses one sample less overlap
than requested whenever the float product nxseg*pov falls just below the integer
it represents (e.g. nxseg=700, pov=0.7 -> 489.99999999999994 -> noverlap 489
instead of 490), so the result is NOT Welch's estimate for the configured overlap.

Run:  PYTHONPATH=/tmp/wt12/C13/src MPLBACKEND=Agg /venv/bin/python demo_1.py
"""
import sys
import warnings
from fractions import Fraction

import numpy as np

from pyoma2.algorithms import FDD
from pyoma2.functions.fdd import SD_est
from pyoma2.setup import SingleSetup

warnings.simplefilter("ignore")


def welch_reference(X, R, fs, nxseg, noverlap):
    """Independent Welch estimate: Hann (periodic) window, segment means removed,
    averaged, one-sided density, entry (i, j) = conj(X_i) * R_j."""
    N = X.shape[1]
    step = nxseg - noverlap
    w = 0.5 - 0.5 * np.cos(2 * np.pi * np.arange(nxseg) / nxseg)
    starts = list(range(0, N - nxseg + 1, step))
    acc = 0.0
    for s in starts:
        xs = X[:, s : s + nxseg]
        rs = R[:, s : s + nxseg]
        xs = (xs - xs.mean(1, keepdims=True)) * w
        rs = (rs - rs.mean(1, keepdims=True)) * w
        acc = acc + np.conj(np.fft.rfft(xs, axis=1))[:, None, :] * np.fft.rfft(rs, axis=1)[None, :, :]
    S = acc / len(starts) / (fs * np.sum(w**2))
    if nxseg % 2 == 0:
        S[..., 1:-1] *= 2
    else:
        S[..., 1:] *= 2
    return np.arange(S.shape[-1]) * fs / nxseg, S, len(starts)


def rel_err(S, Sref):
    # lines >= 2 (segment-mean removal immaterial), error relative to the largest entry
    return np.abs(S - Sref)[..., 2:].max() / np.abs(Sref)[..., 2:].max()


fs = 100.0
rng = np.random.default_rng(20240613)
failures = []

# (nxseg, pov): the overlap nxseg*pov is an exact integer in every case
cases = [(700, 0.7), (100, 0.29), (90, 0.7), (200, 0.58), (360, 0.35), (400, 0.57), (256, 0.5), (1000, 0.7)]
for nxseg, pov in cases:
    exact = Fraction(str(pov)) * nxseg
    assert exact.denominator == 1, "case outside the property's range"
    noverlap = int(exact)
    N = 6 * nxseg + 17
    X = rng.standard_normal((3, N))
    R = X[:2]
    f, S = SD_est(X, R, 1 / fs, nxseg, "per", pov)
    fr, Sr, nseg = welch_reference(X, R, fs, nxseg, noverlap)
    _, Sm1, nseg_m1 = welch_reference(X, R, fs, nxseg, noverlap - 1)
    e = rel_err(S, Sr)
    e_m1 = rel_err(S, Sm1)
    print(
        f"nxseg={nxseg:5d} pov={pov:<5} nxseg*pov={nxseg * pov!r:<22} requested overlap={noverlap:4d} "
        f"| err vs Welch(requested)={e:.2e} ({nseg} segments) | err vs Welch(requested-1)={e_m1:.2e} ({nseg_m1} segments)"
    )
    if e > 1e-9:
        failures.append((nxseg, pov, noverlap, e, e_m1))

# the same through the public API (SingleSetup + FDD)
nxseg, pov = 700, 0.7
data = rng.standard_normal((6 * nxseg + 17, 3))
ss = SingleSetup(data, fs=fs)
alg = FDD(name="FDD", nxseg=nxseg, method_SD="per", pov=pov)
ss.add_algorithms(alg)
ss.run_by_name("FDD")
fr, Sr, _ = welch_reference(data.T, data.T, fs, nxseg, 490)
e_api = rel_err(alg.result.Sy, Sr)
print(f"public API (SingleSetup+FDD, nxseg=700, pov=0.7): err vs Welch with overlap 490 = {e_api:.2e}")
if e_api > 1e-9:
    failures.append(("API", nxseg, pov, e_api))

if failures:
    msg = (
        "C13 VIOLATED: for 'per' the spectral matrix is not Welch's estimate for the configured overlap "
        "nxseg*pov (an exact integer); the library truncates the float product and uses one sample less. "
        f"Failing cases (nxseg, pov, requested overlap, rel. error, rel. error against overlap-1): {failures}"
    )
    raise AssertionError(msg)
print("no violation")
sys.exit(0)
