"""
C06 / demo 1 -- FDD never searches the upper end of the requested band.

FDD_mpe turns the band [sel - DF, sel + DF] into line indices with
    idxlim = (argmin|freq - (sel-DF)|, argmin|freq - (sel+DF)|)
and then searches  Sval[..., idxlim[0] : idxlim[1]]  -- a half-open slice that
drops the uppermost line.  Whenever (sel + DF) / df has a fractional part below
0.5 (in particular: sel on a grid line and DF a multiple of the line spacing,
which is what mpe_from_plot produces, or DF = 0.1 Hz default with df = 0.0977 Hz)
the last line that lies INSIDE the band is never looked at.  If the S1/S2 ratio
peaks there, FDD / FDD_MS / the first stage of EFDD / FSDD return another line
and that line's singular vector.

Run:  PYTHONPATH=/tmp/wt12/C06/src MPLBACKEND=Agg /venv/bin/python demo_1.py
Exits non-zero (AssertionError) on the unchanged library.
"""
import logging
import sys
import warnings

import numpy as np
from scipy import signal

logging.disable(logging.CRITICAL)
warnings.filterwarnings("ignore")

from pyoma2.algorithms.fdd import EFDD, FDD, FDD_MS  # noqa: E402
from pyoma2.functions import fdd as ffdd  # noqa: E402
from pyoma2.functions.gen import MAC  # noqa: E402
from pyoma2.setup.multi import MultiSetup_PreGER  # noqa: E402
from pyoma2.setup.single import SingleSetup  # noqa: E402


# ----------------------------------------------------------------------------
# deterministic 6-channel, 3-mode random response
def simulate(seed, fs=100.0, N=120_000, fn=(6.2, 14.7, 23.1), xi=0.01, nch=6):
    rng = np.random.default_rng(seed)
    X = np.zeros((N, nch))
    for m, f in enumerate(fn):
        r = np.exp(-xi * 2 * np.pi * f / fs)
        th = 2 * np.pi * f * np.sqrt(1 - xi**2) / fs
        q = signal.lfilter([1.0], [1.0, -2 * r * np.cos(th), r * r], rng.standard_normal(N))
        shape = np.sin((m + 1) * np.pi * (np.arange(nch) + 1) / (nch + 1))
        X += np.outer(q / q.std(), shape)
    X += 0.05 * rng.standard_normal(X.shape)
    return X


# ----------------------------------------------------------------------------
# independent oracle: straight from the stored spectral matrix
def oracle(freq, Sy, sel, DF):
    """line with the largest s1/s2 among the grid lines f with sel-DF <= f <= sel+DF,
    and the conjugated dominant left singular vector there"""
    inband = np.where((freq >= sel - DF) & (freq <= sel + DF))[0]
    ratio = []
    for k in inband:
        s = np.linalg.svd(Sy[:, :, k], compute_uv=False)
        ratio.append(s[0] / s[1])
    k = inband[int(np.argmax(ratio))]
    u = np.linalg.svd(Sy[:, :, k])[0][:, 0].conj()
    return k, u, inband


def ratio_peak_line(freq, Sy, f_lo, f_hi):
    idx = np.where((freq >= f_lo) & (freq <= f_hi))[0]
    rat = [(lambda s: s[0] / s[1])(np.linalg.svd(Sy[:, :, k], compute_uv=False)) for k in idx]
    return idx[int(np.argmax(rat))]


failures = []


def report(tag, freq, sel, DF, fn_lib, phi_lib, k_or, u_or, inband):
    df = freq[1] - freq[0]
    off = (fn_lib - freq[k_or]) / df
    mac = MAC(phi_lib, u_or).real
    ok = abs(off) < 1e-6 and abs(mac - 1) < 1e-8
    print(
        f"{tag:34s} sel={sel:.6f} DF={DF:.6f} band lines={freq[inband[0]]:.4f}..{freq[inband[-1]]:.4f}"
        f" | library Fn={fn_lib:.6f}  oracle Fn={freq[k_or]:.6f}  ({off:+.0f} lines)"
        f"  MAC(Phi, oracle vector)={mac:.6f}  {'ok' if ok else 'VIOLATION'}"
    )
    if not ok:
        failures.append(tag)


# ============================================================================
# 1. single setup, FDD, default DF = 0.1 Hz, selection on grid lines
#    (exactly what mpe_from_plot hands to FDD_mpe)
# ============================================================================
fs = 100.0
X = simulate(seed=11)
ss = SingleSetup(X, fs)
alg = FDD(name="FDD", nxseg=1024, method_SD="per", pov=0.5)
efdd = EFDD(name="EFDD", nxseg=1024, method_SD="per", pov=0.5)
ss.add_algorithms(alg, efdd)
ss.run_all()
freq, Sy = alg.result.freq, alg.result.Sy
df = freq[1] - freq[0]  # 0.09765625 Hz  -> DF = 0.1 Hz is more than one line spacing
DF = 0.1
assert DF >= df

kp = ratio_peak_line(freq, Sy, 13.7, 15.7)  # line where s1/s2 peaks for mode 2
print(f"df = {df:.8f} Hz, s1/s2 of mode 2 peaks at line {kp} = {freq[kp]:.6f} Hz\n")

# the user picks the grid line just BELOW the peak line: band = {kp-2, kp-1, kp}
sel_below = float(freq[kp - 1])
# the user picks the grid line just ABOVE the peak line: band = {kp, kp+1, kp+2}
sel_above = float(freq[kp + 1])
for tag, sel in (("FDD  pick one line above peak", sel_above), ("FDD  pick one line below peak", sel_below)):
    ss.mpe("FDD", sel_freq=[sel], DF=DF)
    k_or, u_or, inband = oracle(freq, Sy, sel, DF)
    assert k_or == kp  # the peak line lies inside both bands
    report(tag, freq, sel, DF, alg.result.Fn[0], alg.result.Phi[:, 0], k_or, u_or, inband)

# a selection that is not on the grid, DF not a multiple of df: peak line strictly inside
sel = float(freq[kp]) - 0.25
DF2 = 0.28  # band upper limit = peak + 0.03 Hz  (strictly inside, 0.3 lines of margin)
ss.mpe("FDD", sel_freq=[sel], DF=DF2)
k_or, u_or, inband = oracle(freq, Sy, sel, DF2)
report("FDD  off-grid pick, DF=0.28", freq, sel, DF2, alg.result.Fn[0], alg.result.Phi[:, 0], k_or, u_or, inband)

# first stage of EFDD: the mode shape it returns is the FDD shape
ss.mpe("EFDD", sel_freq=[sel_below], DF1=DF, DF2=1.0)
k_or, u_or, inband = oracle(efdd.result.freq, efdd.result.Sy, sel_below, DF)
mac = MAC(efdd.result.Phi[:, 0], u_or).real
print(f"{'EFDD first stage (shape only)':34s} MAC(Phi, oracle vector)={mac:.6f}  {'ok' if abs(mac-1)<1e-8 else 'VIOLATION'}")
if abs(mac - 1) >= 1e-8:
    failures.append("EFDD first stage")

# ============================================================================
# 2. the size of the error is not bounded by one line: a synthetic spectral
#    matrix whose only dominant line is the top line of the band
# ============================================================================
rng = np.random.default_rng(5)
nf, nch = 201, 4
fgrid = np.arange(nf) * 0.05
Ssyn = np.zeros((nch, nch, nf), complex)
for k in range(nf):
    U, _ = np.linalg.qr(rng.standard_normal((nch, nch)) + 1j * rng.standard_normal((nch, nch)))
    s = np.array([1.0 + 0.5 * rng.random(), 1.0, 0.5, 0.2])  # flat: s1/s2 in [1, 1.5]
    if k == 110:
        s[0] = 50.0  # the resonance: s1/s2 = 50 at 5.5 Hz
    Ssyn[:, :, k] = (U * s) @ U.conj().T
Sval, Svec = ffdd.SD_svalsvec(Ssyn)
sel, DFs = 5.0, 0.5  # band [4.5, 5.5]: 21 lines, resonance on its last line
Fn, Phi = ffdd.FDD_mpe(Sval, Svec, fgrid, [sel], DF=DFs)
k_or, u_or, inband = oracle(fgrid, Ssyn, sel, DFs)
report("FDD_mpe synthetic Hermitian 4ch", fgrid, sel, DFs, Fn[0], Phi[:, 0], k_or, u_or, inband)

# ============================================================================
# 3. multi setup (PreGER, rectangular 'half' spectral matrix 6 x 2)
# ============================================================================
Xa, Xb = simulate(seed=21), simulate(seed=22)
ms = MultiSetup_PreGER(fs=fs, ref_ind=[[0, 1], [0, 1]], datasets=[Xa[:, [0, 1, 2, 3]], Xb[:, [0, 1, 4, 5]]])
fms = FDD_MS(name="FDD_MS", nxseg=1024, method_SD="per", pov=0.5)
ms.add_algorithms(fms)
ms.run_all()
fq, Sm = fms.result.freq, fms.result.Sy
kpm = ratio_peak_line(fq, Sm, 13.7, 15.7)
sel = float(fq[kpm - 1])
ms.mpe("FDD_MS", sel_freq=[sel], DF=DF)
k_or, u_or, inband = oracle(fq, Sm, sel, DF)
report("FDD_MS pick one line below peak", fq, sel, DF, fms.result.Fn[0], fms.result.Phi[:, 0], k_or, u_or, inband)

print()
assert not failures, (
    "C06 violated: FDD did not return the in-band line with the largest s1/s2 "
    "(the uppermost in-band line is never searched) in: " + "; ".join(failures)
)
print("no violation")
sys.exit(0)
