"""
C06 / demo 2 -- FDD returns a natural frequency that lies OUTSIDE the requested band.

Second face of the same index computation as demo 1: the lower band limit
sel - DF is mapped to the NEAREST grid line (np.argmin(|freq - (sel-DF)|)).
Whenever (sel - DF) / df has a fractional part below 0.5 that line lies below
the band, is searched nevertheless, and -- if its s1/s2 ratio is the largest of
the searched lines -- is returned: |Fn - sel| > DF.  Together with the dropped
upper line (demo 1) the searched window is [round(lo), round(hi)) instead of
[ceil(lo), floor(hi)], i.e. shifted towards low frequencies by up to one line.

Run:  PYTHONPATH=/tmp/wt12/C06/src MPLBACKEND=Agg /venv/bin/python demo_2.py
Exits non-zero (AssertionError) on the unchanged library.
"""
import logging
import sys
import warnings

import numpy as np
from scipy import signal

logging.disable(logging.CRITICAL)
warnings.filterwarnings("ignore")

from pyoma2.algorithms.fdd import FDD  # noqa: E402
from pyoma2.functions.gen import MAC  # noqa: E402
from pyoma2.setup.single import SingleSetup  # noqa: E402


def simulate(seed, fs=100.0, N=120_000, fn=(6.2, 14.7, 23.1), xi=0.01, nch=6):
    rng = np.random.default_rng(seed)
    X = np.zeros((N, nch))
    for m, f in enumerate(fn):
        r = np.exp(-xi * 2 * np.pi * f / fs)
        th = 2 * np.pi * f * np.sqrt(1 - xi**2) / fs
        q = signal.lfilter([1.0], [1.0, -2 * r * np.cos(th), r * r], rng.standard_normal(N))
        shape = np.sin((m + 1) * np.pi * (np.arange(nch) + 1) / (nch + 1))
        X += np.outer(q / q.std(), shape)
    X += 0.05 * rng.standard_normal(X.shape)
    return X


def ratios(Sy):
    out = np.empty(Sy.shape[2])
    for k in range(Sy.shape[2]):
        s = np.linalg.svd(Sy[:, :, k], compute_uv=False)
        out[k] = s[0] / s[1]
    return out


fs = 100.0
X = simulate(seed=11)
ss = SingleSetup(X, fs)
alg = FDD(name="FDD", nxseg=1024, method_SD="per", pov=0.5)
ss.add_algorithms(alg)
ss.run_all()
freq, Sy = alg.result.freq, alg.result.Sy
df = freq[1] - freq[0]
rat = ratios(Sy)
kp = int(np.argmax(np.where((freq > 13.7) & (freq < 15.7), rat, 0)))  # peak of mode 2
print(f"df = {df:.8f} Hz ; s1/s2 of mode 2 peaks at line {kp} = {freq[kp]:.6f} Hz")

# The analyst wants the best line within +-0.1 Hz (default DF, > one line spacing)
# of 14.785 Hz.  The peak line of mode 2 (14.648 Hz) is 0.137 Hz away: outside.
DF = 0.1
sel = float(freq[kp]) + 1.4 * df
assert DF >= df
ss.mpe("FDD", sel_freq=[sel], DF=DF)
Fn = float(alg.result.Fn[0])

inband = np.where((freq >= sel - DF) & (freq <= sel + DF))[0]
k_or = inband[int(np.argmax(rat[inband]))]
u_or = np.linalg.svd(Sy[:, :, k_or])[0][:, 0].conj()
mac = MAC(alg.result.Phi[:, 0], u_or).real
print(f"requested band  [{sel - DF:.6f}, {sel + DF:.6f}]  -> grid lines inside: {freq[inband]}")
print(f"oracle  : Fn = {freq[k_or]:.6f}  (largest s1/s2 among the in-band lines)")
print(f"library : Fn = {Fn:.6f}  |Fn - sel| = {abs(Fn - sel):.6f}  (DF = {DF})   MAC(Phi, oracle vector) = {mac:.6f}")

assert sel - DF <= Fn <= sel + DF, (
    f"C06 violated: FDD.mpe(sel_freq=[{sel:.6f}], DF={DF}) returned Fn={Fn:.6f} Hz, which is "
    f"{abs(Fn - sel):.4f} Hz away from the selected frequency, i.e. outside the requested band "
    f"[{sel - DF:.6f}, {sel + DF:.6f}] (in-band argmax is {freq[k_or]:.6f} Hz)"
)
assert abs(Fn - freq[k_or]) < 1e-9
print("no violation")
sys.exit(0)
