"""
C03 / finding 1 -- a physical mode is thrown away by the default hard criterion
because gen.MPC subtracts the mean of the mode shape before measuring collinearity.

Global system: 2 modes, 2 shared reference sensors, 3 setups with 2, 1 and 3 roving
sensors (8 sensors in total).  Mode 1 moves every sensor by the same amount (a rigid
translation of a slab, the first mode of a stiff deck, ...): its global shape is
[1, 1, 1, 1, 1, 1, 1, 1].  Mode 2 is an arbitrary real shape.  Every setup is a
noise-free free decay with its own gain (1, 1e-2, 1e2) and its own initial condition.

The identification itself is exact (shown with the plain functions
SSI_multi_setup + SSI_poles), but MultiSetup_PreGER + SSIcov_MS / SSIdat_MS with
their DEFAULT run parameters return NaN for the uniform mode at order 2m in most
runs: MPC() is np.cov-based, i.e. it removes the mean of the real and imaginary
parts; for a uniform shape nothing but rounding noise is left, MPC is 0/0 (NaN or
any number between 0 and 1) and the pole fails `MPC >= 0.7`.

Part B shows the same mechanism without any dependence on rounding: an almost
uniform shape with 1..2 degrees of phase scatter (standard MPC 0.998) gets the
library MPC 0.68 and is rejected as well.

Run:  PYTHONPATH=/tmp/wt12/C03/src MPLBACKEND=Agg /venv/bin/python demo_1.py
"""
import logging
import sys

import numpy as np

logging.disable(logging.CRITICAL)

from pyoma2.algorithms.ssi import SSIcov_MS, SSIdat_MS  # noqa: E402
from pyoma2.functions import gen, ssi  # noqa: E402
from pyoma2.setup.multi import MultiSetup_PreGER  # noqa: E402

ssi.trange = lambda *a, **k: range(*a)  # silence the progress bars

FS = 100.0
NDAT = 2000
FN = np.array([5.0, 13.0])  # Hz
XI = np.array([0.01, 0.02])
N_REF = 2
N_MOV = [2, 1, 3]
GAINS = [1.0, 1e-2, 1e2]
M = len(FN)
BR = 4  # observability index of the two references is 2 -> br >= 3


def mac(a, b):
    return abs(np.vdot(a, b)) ** 2 / (np.vdot(a, a).real * np.vdot(b, b).real)


def free_decay(phi_rows, c):
    wn = 2 * np.pi * FN
    lam = -XI * wn + 1j * wn * np.sqrt(1 - XI**2)
    t = np.arange(NDAT) / FS
    return (2 * np.real(phi_rows @ (np.exp(np.outer(lam, t)) * c[:, None]))).T


def make_campaign(Phi, seed):
    """datasets (Ndat x Nch, references are channels 0 and 1) and ref_ind."""
    rng = np.random.default_rng(seed)
    datasets, ref_ind, off = [], [], N_REF
    for k, nm in enumerate(N_MOV):
        rows = list(range(N_REF)) + list(range(off, off + nm))
        off += nm
        c = rng.normal(size=M) + 1j * rng.normal(size=M)  # initial condition
        datasets.append(GAINS[k] * free_decay(Phi[rows], c))
        ref_ind.append(list(range(N_REF)))
    return datasets, ref_ind


def errors(Fn, Xi, Ph, Phi, order):
    """worst relative frequency error, damping error, 1-MAC over the modes."""
    out = []
    for j in range(M):
        col = Fn[:, order]
        if np.all(np.isnan(col)) or not np.nanmin(abs(col - FN[j])) < 0.05 * FN[j]:
            out.append((np.inf, np.inf, np.inf))
            continue
        i = np.nanargmin(abs(col - FN[j]))
        out.append(
            (
                abs(col[i] - FN[j]) / FN[j],
                abs(Xi[i, order] - XI[j]),
                1 - mac(Ph[i, order, :], Phi[:, j]),
            )
        )
    return np.array(out)


def run_class(datasets, ref_ind, method):
    ms = MultiSetup_PreGER(fs=FS, ref_ind=ref_ind, datasets=datasets)
    cls = SSIcov_MS if method == "cov_mm" else SSIdat_MS
    alg = cls(name="alg", br=BR, ordmax=2 * M)  # everything else: defaults
    ms.add_algorithms(alg)
    ms.run_all()
    r = alg.result
    return r.Fn_poles, r.Xi_poles, r.Phi_poles


def run_functions(datasets, ref_ind, method):
    Y = gen.pre_multisetup(datasets, ref_ind)
    Obs, A, C = ssi.SSI_multi_setup(Y, FS, BR, 2 * M, method_hank=method)
    Fn, Xi, Ph, *_ = ssi.SSI_poles(Obs, A, C, 2 * M, 1 / FS)
    return Fn, Xi, Ph


def standard_mpc(phi):
    re, im = phi.real, phi.imag
    S = np.array([[re @ re, re @ im], [re @ im, im @ im]])
    l1, l2 = np.linalg.eigvalsh(S)
    return ((l2 - l1) / (l2 + l1)) ** 2


failures = []

# ---------------------------------------------------------------- part A
n_dof = N_REF + sum(N_MOV)
Phi_A = np.random.default_rng(2024).normal(size=(n_dof, M))
Phi_A[:, 0] = 1.0  # mode 1: all sensors move together

print("Part A: uniform real mode shape [1,...,1] at 5 Hz, second mode arbitrary")
for seed in range(8):
    datasets, ref_ind = make_campaign(Phi_A, seed)
    for method in ("cov_mm", "dat"):
        e_fun = errors(*run_functions(datasets, ref_ind, method), Phi_A, 2 * M)
        assert e_fun.max() < 1e-8, "the plain functions must be exact on these data"
        Fn, Xi, Ph = run_class(datasets, ref_ind, method)
        e_cls = errors(Fn, Xi, Ph, Phi_A, 2 * M)
        ok = e_cls.max() < 1e-8
        print(
            f"  seed {seed} {method:6s} functions: exact (max err {e_fun.max():.1e});"
            f"  class, defaults: Fn_poles[:, {2 * M}] = {np.round(Fn[:, 2 * M], 4)}"
            f"  -> {'ok' if ok else 'MODE LOST'}"
        )
        if not ok:
            failures.append(("A", seed, method))

one = np.ones(n_dof) + 0j
print("  gen.MPC([1,...,1]) =", gen.MPC(one), "  standard MPC =", standard_mpc(one))

# ---------------------------------------------------------------- part B
re = np.array([1.0, 1.03, 0.97, 1.02, 0.99, 1.01, 0.98, 1.0])
im = np.array([0.03, -0.03, 0.02, -0.02, 0.01, -0.01, 0.02, -0.02])
Phi_B = Phi_A.astype(complex)
Phi_B[:, 0] = re + 1j * im  # almost uniform, phases within +-1.7 degrees
print("\nPart B: almost uniform, slightly complex shape at 5 Hz")
print(
    f"  standard MPC = {standard_mpc(Phi_B[:, 0]):.4f}   gen.MPC = {gen.MPC(Phi_B[:, 0]).real:.4f}"
    "   (default limit: keep if MPC >= 0.7)"
)
datasets, ref_ind = make_campaign(Phi_B, 0)
for method in ("cov_mm", "dat"):
    e_fun = errors(*run_functions(datasets, ref_ind, method), Phi_B, 2 * M)
    assert e_fun.max() < 1e-8, "the plain functions must be exact on these data"
    Fn, Xi, Ph = run_class(datasets, ref_ind, method)
    ok = errors(Fn, Xi, Ph, Phi_B, 2 * M).max() < 1e-8
    print(
        f"  {method:6s} functions: exact; class, defaults: Fn_poles[:, {2 * M}] = "
        f"{np.round(Fn[:, 2 * M], 4)} -> {'ok' if ok else 'MODE LOST'}"
    )
    if not ok:
        failures.append(("B", 0, method))

if failures:
    sys.exit(
        "AssertionError: PreGER multi-setup SSI (default run parameters) did not return "
        f"the 5 Hz global mode at order 2m = {2 * M} in {len(failures)} of 18 noise-free runs "
        f"{failures}; the plain SSI_multi_setup/SSI_poles functions identify it exactly on "
        "the same data.  Cause: gen.MPC removes the mean of the shape (np.cov) - a uniform "
        "or almost uniform shape gets an undefined / far too small MPC and fails mpc_lim."
    )
print("no violation observed")
