"""
C03 / finding 2 -- SSIcov_MS / SSIdat_MS cannot be run with the documented run
parameter `step` (model-order increment) other than 1: the order-2m result is never
produced, the run dies with an IndexError (or, for step >= ordmax, silently returns
a pole table that contains order 1 only).

Global system: 2 modes, 2 shared references, 2 setups with 2 and 3 roving sensors,
noise-free free decays with gains 1 and 1e-2.  step=2 (the usual choice for SSI,
poles come in conjugate pairs: orders 0, 2, 4, ...) must give the global modes at
order 2m = 4 exactly as step=1 does.

Run:  PYTHONPATH=/tmp/wt12/C03/src MPLBACKEND=Agg /venv/bin/python demo_2.py
"""
import logging
import sys
import traceback

import numpy as np

logging.disable(logging.CRITICAL)

from pyoma2.algorithms.ssi import SSIcov_MS, SSIdat_MS  # noqa: E402
from pyoma2.functions import ssi  # noqa: E402
from pyoma2.setup.multi import MultiSetup_PreGER  # noqa: E402

ssi.trange = lambda *a, **k: range(*a)  # silence the progress bars

FS, NDAT = 100.0, 2000
FN = np.array([6.0, 17.0])
XI = np.array([0.01, 0.02])
M, N_REF, N_MOV, GAINS, BR = 2, 2, [2, 3], [1.0, 1e-2], 4

rng = np.random.default_rng(7)
Phi = rng.normal(size=(N_REF + sum(N_MOV), M))


def free_decay(phi_rows, c):
    wn = 2 * np.pi * FN
    lam = -XI * wn + 1j * wn * np.sqrt(1 - XI**2)
    t = np.arange(NDAT) / FS
    return (2 * np.real(phi_rows @ (np.exp(np.outer(lam, t)) * c[:, None]))).T


datasets, ref_ind, off = [], [], N_REF
for k, nm in enumerate(N_MOV):
    rows = list(range(N_REF)) + list(range(off, off + nm))
    off += nm
    c = rng.normal(size=M) + 1j * rng.normal(size=M)
    datasets.append(GAINS[k] * free_decay(Phi[rows], c))
    ref_ind.append([0, 1])


def mac(a, b):
    return abs(np.vdot(a, b)) ** 2 / (np.vdot(a, a).real * np.vdot(b, b).real)


def modes_at_order(alg, order, step):
    """(fn, xi, 1-MAC) errors of the poles stored for model order `order`."""
    r = alg.result
    col = order // step  # column k of the pole tables <-> order k*step (as SC_apply / stab_plot read it)
    err = []
    if np.all(np.isnan(r.Fn_poles[:, col])):
        return np.inf  # no pole at all stored for this order
    for j in range(M):
        i = np.nanargmin(abs(r.Fn_poles[:, col] - FN[j]))
        err.append(
            max(
                abs(r.Fn_poles[i, col] - FN[j]) / FN[j],
                abs(r.Xi_poles[i, col] - XI[j]),
                1 - mac(r.Phi_poles[i, col, :], Phi[:, j]),
            )
        )
    return max(err)


problems = []
for cls in (SSIcov_MS, SSIdat_MS):
    for step, ordmax in ((1, 8), (2, 8), (2, 4), (4, 4)):
        ms = MultiSetup_PreGER(fs=FS, ref_ind=ref_ind, datasets=datasets)
        alg = cls(name="alg", br=BR, ordmax=ordmax, step=step)
        ms.add_algorithms(alg)
        try:
            ms.run_all()
            e = modes_at_order(alg, 2 * M, step)
            ok = e < 1e-8
            msg = f"order-4 error {e:.1e}, Fn_poles shape {alg.result.Fn_poles.shape}"
            if not ok:
                msg += f", Fn_poles = {np.round(alg.result.Fn_poles, 3).tolist()}"
        except Exception as exc:  # noqa: BLE001
            ok = False
            msg = f"{type(exc).__name__}: {exc}  (raised in {traceback.extract_tb(exc.__traceback__)[-1].name})"
        print(f"{cls.__name__:9s} step={step} ordmax={ordmax}: {'ok' if ok else 'FAIL'}  {msg}")
        if not ok:
            problems.append((cls.__name__, step, ordmax))

if problems:
    sys.exit(
        "AssertionError: multi-setup SSI with step > 1 does not deliver the global modes at order 2m = 4 "
        f"(fails for (class, step, ordmax) = {problems}); step = 1 on the same data is exact."
    )
print("no violation observed")
