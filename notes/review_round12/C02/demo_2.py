"""
C02 / demo 2 -- merge_mode_shapes breaks down (NaN / inf / garbage) for complex
global mode shapes whose reference part is "circular" (sum of squares = 0),
although every setup is exactly  real_factor * restriction_of_global_shape.

Typical physical case: a rotating / whirling / travelling-wave mode seen by
  * two orthogonal reference sensors in phase quadrature  -> (1, 1j)
  * three reference sensors 120 degrees apart on a ring    -> (1, e^{2pi i/3}, e^{4pi i/3})
For those vectors  g.T @ g == 0  while  g.conj().T @ g == |g|^2 > 0.

Run:  PYTHONPATH=/tmp/wt12/C02/src MPLBACKEND=Agg /venv/bin/python demo_2.py
"""
import sys
import warnings

import numpy as np

from pyoma2.functions.gen import merge_mode_shapes

warnings.simplefilter("ignore")
np.set_printoptions(precision=4, suppress=True, linewidth=140)
failures = []


def run_case(tag, G, chans, ref_ind, factors):
    """G: global shape (n x 1).  chans[i]: global rows seen by setup i (channel order)."""
    phis = [G[ch, :] * f for ch, f in zip(chans, factors)]
    merged = merge_mode_shapes(MSarr_list=phis, reflist=ref_ind)
    order = [chans[0][j] for j in ref_ind[0]]
    for ch, r in zip(chans, ref_ind):
        order += [c for j, c in enumerate(ch) if j not in r]
    expected = G[order, :] * factors[0]
    with np.errstate(all="ignore"):
        err = np.abs(merged - expected).max() / np.abs(expected).max()
    print(f"--- {tag}")
    print("  expected:", expected.ravel())
    print("  merged  :", merged.ravel())
    print("  relative error:", err)
    if not (err < 1e-9):  # also catches NaN
        failures.append(f"{tag}: relative error {err}")


# case A: two reference sensors in quadrature, 1 rover per setup, 1 mode, 2 setups
G = np.array([[1.0], [1.0j], [0.5 + 0.2j], [-0.3 + 0.7j]])
run_case(
    "A: refs (1, 1j), factors 2 and -0.5",
    G,
    chans=[[0, 1, 2], [0, 1, 3]],
    ref_ind=[[0, 1], [0, 1]],
    factors=[2.0, -0.5],
)

# case B: the same global shape multiplied by a unit complex number (still circular),
# non-dyadic factors -> the 0/0 becomes rounding/rounding: a finite but meaningless factor
run_case(
    "B: refs (1, 1j)*exp(0.3j), factors 1.7 and -0.3",
    G * np.exp(0.3j),
    chans=[[0, 1, 2], [0, 1, 3]],
    ref_ind=[[0, 1], [0, 1]],
    factors=[1.7, -0.3],
)

# case C: three reference sensors 120 degrees apart on a ring (travelling wave),
# reference sensors at different positions of the channel lists, 3 setups
w = np.exp(2j * np.pi / 3)
G = np.array([[1.0], [w], [w**2], [0.4 - 0.1j], [0.2 + 0.9j], [-0.6 + 0.3j], [0.1 + 0.1j]])
run_case(
    "C: refs (1, w, w^2), w = exp(2 pi i/3), 3 setups",
    G,
    chans=[[0, 1, 2, 3], [4, 0, 5, 1, 2], [2, 6, 1, 0]],
    ref_ind=[[0, 1, 2], [1, 3, 4], [3, 2, 0]],
    factors=[1.3, -4.1, 0.07],
)

# control: a generic complex shape through the very same code path is fine
rng = np.random.default_rng(0)
Gc = rng.standard_normal((7, 1)) + 1j * rng.standard_normal((7, 1))
n_before = len(failures)
run_case(
    "control: generic complex shape",
    Gc,
    chans=[[0, 1, 2, 3], [4, 0, 5, 1, 2], [2, 6, 1, 0]],
    ref_ind=[[0, 1, 2], [1, 3, 4], [3, 2, 0]],
    factors=[1.3, -4.1, 0.07],
)
assert len(failures) == n_before, "control case failed - demo is broken"

if failures:
    print("\nVIOLATION: merge_mode_shapes does not return the global mode shape:")
    for f in failures:
        print("   ", f)
    sys.exit(1)
print("OK")
