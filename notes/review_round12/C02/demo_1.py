"""
C02 / demo 1 -- PoSER merging of SSI results loses the imaginary part of the
re-scaling factor, so complex (non-classically damped) modes are merged wrongly.

One global 4-DOF system (two weakly coupled 2-DOF sub-structures, one local
dashpot -> non-proportional damping -> genuinely complex modes, but still
MPC > 0.98, MPD < 0.17, xi < 3.5 %, i.e. they pass all the DEFAULT hard
criteria of the SSI classes).  Three setups record noise-free free-decay
responses of that system with different amplitudes (1, -7, 0.2):

    setup 0: channels = global DOFs [0, 1]   reference = DOF 0 (index 0)
    setup 1: channels = global DOFs [2, 0]   reference = DOF 0 (index 1)
    setup 2: channels = global DOFs [0, 3]   reference = DOF 0 (index 0)

Each setup is identified with SSIdat (default options) and the three results
are merged with MultiSetup_PoSER.merge_results().

Expected (property C02): merged Phi[:, k] == global mode k in the scale of the
first setup, rows ordered [DOF0 (ref), DOF1, DOF2, DOF3].

Run:  PYTHONPATH=/tmp/wt12/C02/src MPLBACKEND=Agg /venv/bin/python demo_1.py
"""
import logging
import sys

import numpy as np
import scipy.linalg as sl

from pyoma2.algorithms import SSIdat
from pyoma2.setup import MultiSetup_PoSER, SingleSetup

logging.disable(logging.CRITICAL)

# ----------------------------------------------------------------------------
# global system
n = 4
k, kc = 400.0, 5.0
K = np.array(
    [
        [2 * k + kc, -k, -kc, 0],
        [-k, k, 0, 0],
        [-kc, 0, 2 * 1.02 * k + kc, -1.02 * k],
        [0, 0, -1.02 * k, 1.02 * k],
    ]
)
C = 0.0008 * K
C[3, 3] += 1.0  # local dashpot on DOF 3  -> non-proportional damping
A = np.block([[np.zeros((n, n)), np.eye(n)], [-K, -C]])  # M = I

lam, V = np.linalg.eig(A)
sel = np.where(lam.imag > 0)[0]
sel = sel[np.argsort(np.abs(lam[sel]))]
lam, G = lam[sel], V[:n, sel]  # G: exact global (complex) mode shapes, 4 x 4
fn_true = np.abs(lam) / 2 / np.pi
xi_true = -lam.real / np.abs(lam)

# ----------------------------------------------------------------------------
# three setups, noise-free free decay, different amplitudes
fs = 50.0
Ad = sl.expm(A / fs)
rng = np.random.default_rng(3)
chans = [[0, 1], [2, 0], [0, 3]]
ref_ind = [[0], [1], [0]]
amps = [1.0, -7.0, 0.2]
N = 3000

setups = []
for i, (ch, a) in enumerate(zip(chans, amps)):
    x = rng.standard_normal(2 * n) * a
    Y = np.empty((N, len(ch)))
    for t in range(N):
        Y[t] = x[ch]
        x = Ad @ x
    ss = SingleSetup(Y, fs=fs)
    ss.add_algorithms(SSIdat(name=f"ssi{i}", br=12, ordmax=2 * n))  # default hc / sc
    ss.run_all()
    ss.mpe(f"ssi{i}", sel_freq=list(fn_true), order=2 * n)
    setups.append(ss)

# sanity: each single-setup identification is exact (up to ONE complex factor per mode)
for i, ss in enumerate(setups):
    res = ss[f"ssi{i}"].result
    assert np.allclose(res.Fn, fn_true, rtol=1e-8), "identification of Fn failed"
    assert np.allclose(res.Xi, xi_true, rtol=1e-6), "identification of Xi failed"
    for m in range(n):
        g, p = G[chans[i], m], res.Phi[:, m]
        mac = abs(np.vdot(g, p)) ** 2 / (np.vdot(g, g).real * np.vdot(p, p).real)
        assert mac > 1 - 1e-9, "single-setup shape is not the restriction of the global shape"

# ----------------------------------------------------------------------------
msp = MultiSetup_PoSER(ref_ind=ref_ind, single_setups=setups, names=["ssi"])
merged = msp.merge_results()["ssi"]

# expected: global shape, rows [ref DOF0, rov of setup0 = DOF1, rov of setup1 = DOF2,
# rov of setup2 = DOF3], in the scale of the first setup
Phi_first = setups[0]["ssi0"].result.Phi
expected = G[[0, 1, 2, 3], :] * (Phi_first[ref_ind[0][0], :] / G[0, :])

rel_err = np.abs(merged.Phi - expected).max(axis=0) / np.abs(expected).max(axis=0)


# control: the same merging with the complex least-squares factor (Hermitian MSF)
def merge_ref(phis, refl):
    out = []
    for m in range(phis[0].shape[1]):
        r1 = phis[0][refl[0], m]
        col = [r1, np.delete(phis[0][:, m], refl[0])]
        for p, r in zip(phis[1:], refl[1:]):
            alpha = np.vdot(p[r, m], r1) / np.vdot(p[r, m], p[r, m])
            col.append(alpha * np.delete(p[:, m], r))
        out.append(np.concatenate(col))
    return np.array(out).T


control = merge_ref([s[f"ssi{i}"].result.Phi for i, s in enumerate(setups)], ref_ind)
ctrl_err = np.abs(control - expected).max(axis=0) / np.abs(expected).max(axis=0)

np.set_printoptions(precision=4, suppress=True, linewidth=140)
print("true fn [Hz]        :", fn_true)
print("true xi             :", xi_true)
print("merged Fn, Xi       :", merged.Fn, merged.Xi)
print("relative error of merged.Phi per mode (library) :", rel_err)
print("relative error with complex scale factor (control):", ctrl_err)
print("mode 2, expected :", expected[:, 1])
print("mode 2, library  :", merged.Phi[:, 1])

assert ctrl_err.max() < 1e-8, "control failed - the test case itself would be ill-posed"
if rel_err.max() > 1e-6:
    print(
        "\nVIOLATION: MultiSetup_PoSER.merge_results() does not reproduce the global mode "
        f"shape from exact SSI results of noise-free setups: relative error per mode = {rel_err} "
        f"(max {rel_err.max():.3f}); with the complex least-squares scale factor the error is "
        f"{ctrl_err.max():.1e}"
    )
    sys.exit(1)
print("OK")
