"""
C08 demo 2 -- multi-setup (PreGER) SSI: the poles of the model orders above
br * n_ref are not covariant under a gain (nor under a channel permutation).

Run as
    PYTHONPATH=/tmp/wt12/C08/src MPLBACKEND=Agg /venv/bin/python demo_2.py

A roving test with ONE reference sensor (the most common roving layout), two
setups, br = 10 block rows.  The Hankel matrix of a setup has
(br + 1) * n_ref = 11 columns, so SSIcov_MS / SSIdat_MS accept every
ordmax <= 11 (ordmax = 12 raises a shape error).  Inside
functions.ssi.SSI_multi_setup the reference part of the observability matrix
is taken from the first br block rows only: O_ref is (br * n_ref) x ordmax =
10 x 11.  The re-scaling  O_mov @ pinv(O_ref) @ O1_ref  therefore projects on a
10-dimensional space, the global observability matrix has 11 columns but rank
10, its QR factor R is singular to working precision, and the state matrix of
order 11 is  inv(R) @ S  of a singular R: rounding noise decides the poles.

Multiplying all records by 3.7 leaves the orders 1..10 unchanged to 1e-9 and
moves the poles of order 11 by several per cent (frequencies, damping ratios
and mode shapes; poles appear in / disappear from the table).
"""
import logging
import sys
from functools import partialmethod

import numpy as np
import tqdm
from scipy import linalg

logging.disable(logging.CRITICAL)
tqdm.tqdm.__init__ = partialmethod(tqdm.tqdm.__init__, disable=True)

from pyoma2.algorithms import SSIcov_MS, SSIdat_MS  # noqa: E402
from pyoma2.functions import gen, ssi  # noqa: E402
from pyoma2.setup import MultiSetup_PreGER  # noqa: E402


def shear_frame_response(n, N, fs, seed, noise=0.05):
    rng = np.random.default_rng(seed)
    k = 1e4 * (1 + 0.3 * rng.random(n + 1))
    K = np.zeros((n, n))
    for i in range(n):
        K[i, i] = k[i] + (k[i + 1] if i + 1 < n else 0.0)
        if i + 1 < n:
            K[i, i + 1] = K[i + 1, i] = -k[i + 1]
    M = np.diag(1 + 0.2 * rng.random(n))
    w2, V = linalg.eigh(K, M)
    wn = np.sqrt(w2)
    xi = 0.01 + 0.01 * rng.random(n)
    C = M @ V @ np.diag(2 * xi * wn) @ V.T @ M
    A = np.block(
        [[np.zeros((n, n)), np.eye(n)], [-np.linalg.solve(M, K), -np.linalg.solve(M, C)]]
    )
    B = np.vstack([np.zeros((n, n)), np.linalg.inv(M)])
    Ad = linalg.expm(A / fs)
    Bd = np.linalg.solve(A, Ad - np.eye(2 * n)) @ B
    x = np.zeros(2 * n)
    U = rng.standard_normal((N, n))
    Y = np.zeros((N, n))
    for t in range(N):
        Y[t] = x[:n]
        x = Ad @ x + Bd @ U[t]
    Y /= np.std(Y)
    Y += noise * rng.standard_normal(Y.shape)
    return Y, wn / (2 * np.pi)


fs = 100.0
Yall, fn_true = shear_frame_response(4, 9000, fs, seed=5)
# setup 1: storeys 0 (reference), 1, 2 ; setup 2: storeys 0 (reference), 3
datasets = [Yall[:4500][:, [0, 1, 2]], Yall[4500:][:, [0, 3]]]
ref_ind = [[0], [0]]
br, n_ref = 10, 1
ordmax = (br + 1) * n_ref  # the largest order the classes accept
gain = 3.7


def run(cls, data, method):
    ms = MultiSetup_PreGER(fs=fs, ref_ind=ref_ind, datasets=data)
    alg = cls(name="a", br=br, ordmax=ordmax, method=method)
    ms.add_algorithms(alg)
    ms.run_all()
    return alg.result


def column(res, o):
    """poles of one model order as a sorted list of (fn, xi)"""
    m = ~np.isnan(res.Fn_poles[:, o])
    rows = sorted(zip(res.Fn_poles[m, o], res.Xi_poles[m, o]))
    return np.array(rows).reshape(-1, 2)


# the rank of the global observability matrix
Y = gen.pre_multisetup(datasets, ref_ind)
Obs, _, _ = ssi.SSI_multi_setup(Y, fs, br, ordmax, "cov_mm")
sv = np.linalg.svd(Obs, compute_uv=False)
print(f"global observability matrix: {Obs.shape[1]} columns, singular values ratio "
      f"s_min/s_max = {sv[-1] / sv[0]:.1e}   (s_10/s_max = {sv[-2] / sv[0]:.1e})")

failures = []
for cls, method in [(SSIcov_MS, "cov_mm"), (SSIdat_MS, "dat")]:
    r0 = run(cls, datasets, method)
    r1 = run(cls, [d * gain for d in datasets], method)
    print(f"\n{cls.__name__} ({method}), br={br}, n_ref={n_ref}, ordmax={ordmax}, gain {gain}")
    for o in range(1, ordmax + 1):
        c0, c1 = column(r0, o), column(r1, o)
        if c0.shape != c1.shape:
            err = np.inf
        elif c0.size == 0:
            err = 0.0
        else:
            err = float(np.max(np.abs(c0 - c1) / np.abs(c0)))
        flag = "" if err < 1e-6 else "   <-- differs"
        print(f"  order {o:2d}: {len(c0):2d} / {len(c1):2d} poles, max rel. difference (fn, xi) = {err:.1e}{flag}")
        if err >= 1e-6:
            failures.append((cls.__name__, o, err))
            print("     data     : fn =", np.round(c0[:, 0], 4), " xi =", np.round(c0[:, 1], 4))
            print("     3.7*data : fn =", np.round(c1[:, 0], 4), " xi =", np.round(c1[:, 1], 4))

if failures:
    print(
        "\nASSERTION FAILED: multiplying all records by a constant changed the pole table of "
        "the multi-setup SSI at model orders above br*n_ref: "
        + "; ".join(f"{c} order {o}: rel. difference {e:.2g}" for c, o, e in failures)
    )
    sys.exit(1)
print("pole tables are invariant under the gain")
