"""
C08 demo 1 -- the mode shapes reported by MultiSetup_PoSER are not normalised
to a unit largest component.

Run as
    PYTHONPATH=/tmp/wt12/C08/src MPLBACKEND=Agg /venv/bin/python demo_1.py

A 7-storey shear frame is measured in three setups that share two reference
sensors on the two lowest storeys (where the first mode is small) and rove the
remaining sensors over the upper storeys.  Every single-setup algorithm
(SSIcov and EFDD here) reports shapes whose largest-magnitude component is
exactly 1, and so does the PreGER multi-setup variant on the very same records.
The PoSER merge (gen.merge_mode_shapes, called by
MultiSetup_PoSER.merge_results) rescales the roving parts of setups 2, 3, ...
onto the first setup and stores the concatenation as it is: whenever the
largest component of the global shape is not measured in the first setup, the
reported shape has a largest component different from 1 (here about 1.35 for
the first bending mode).
"""
import logging
import sys
from functools import partialmethod

import numpy as np
import tqdm
from scipy import linalg

logging.disable(logging.CRITICAL)
tqdm.tqdm.__init__ = partialmethod(tqdm.tqdm.__init__, disable=True)

from pyoma2.algorithms import EFDD, SSIcov, SSIcov_MS  # noqa: E402
from pyoma2.setup import MultiSetup_PoSER, MultiSetup_PreGER, SingleSetup  # noqa: E402


def shear_frame_response(n, N, fs, seed, noise=0.02):
    """white-noise driven n-storey shear frame, displacement records (N, n)"""
    rng = np.random.default_rng(seed)
    k = 1e4 * (1 + 0.3 * rng.random(n + 1))
    K = np.zeros((n, n))
    for i in range(n):
        K[i, i] = k[i] + (k[i + 1] if i + 1 < n else 0.0)
        if i + 1 < n:
            K[i, i + 1] = K[i + 1, i] = -k[i + 1]
    M = np.diag(1 + 0.2 * rng.random(n))
    w2, V = linalg.eigh(K, M)
    wn = np.sqrt(w2)
    xi = 0.01 + 0.01 * rng.random(n)
    C = M @ V @ np.diag(2 * xi * wn) @ V.T @ M
    A = np.block(
        [[np.zeros((n, n)), np.eye(n)], [-np.linalg.solve(M, K), -np.linalg.solve(M, C)]]
    )
    B = np.vstack([np.zeros((n, n)), np.linalg.inv(M)])
    Ad = linalg.expm(A / fs)
    Bd = np.linalg.solve(A, Ad - np.eye(2 * n)) @ B
    x = np.zeros(2 * n)
    U = rng.standard_normal((N, n))
    Y = np.zeros((N, n))
    for t in range(N):
        Y[t] = x[:n]
        x = Ad @ x + Bd @ U[t]
    Y /= np.std(Y)
    Y += noise * rng.standard_normal(Y.shape)
    return Y, wn / (2 * np.pi)


fs = 100.0
nch = 7
lens = [8000, 7000, 8000]
Yall, fn_true = shear_frame_response(nch, sum(lens), fs, seed=3)
# physical sensors of each setup (storey numbers); storeys 0 and 1 are the references
chs = [[0, 1, 2, 3], [0, 1, 4, 5], [0, 1, 6]]
ref_ind = [[0, 1], [0, 1], [0, 1]]
starts = np.cumsum([0] + lens[:-1])
datasets = [Yall[s : s + L][:, c] for s, L, c in zip(starts, lens, chs)]
sel = [float(f) for f in fn_true[:3]]

# --- every single setup: shapes normalised to a unit largest component ---------
setups = []
for d in datasets:
    ss = SingleSetup(d, fs)
    ss.add_algorithms(SSIcov(name="ssi", br=12, ordmax=30), EFDD(name="efdd", nxseg=1024))
    ss.run_all()
    ss.mpe("ssi", sel_freq=sel, order=24)
    ss.mpe("efdd", sel_freq=sel, DF1=0.2, DF2=1.0)
    for nm in ("ssi", "efdd"):
        mx = np.abs(ss[nm].result.Phi).max(axis=0)
        assert np.allclose(mx, 1.0, atol=1e-9), (nm, mx)
    setups.append(ss)
print("single setups: max |phi| = 1 for every mode of every setup (SSIcov, EFDD)")

# --- PreGER on the same records: normalised -------------------------------------
pre = MultiSetup_PreGER(fs=fs, ref_ind=ref_ind, datasets=datasets)
pre.add_algorithms(SSIcov_MS(name="ssi_ms", br=20, ordmax=24))
pre.run_all()
pre.mpe("ssi_ms", sel_freq=sel, order=24)
mx_pre = np.abs(pre["ssi_ms"].result.Phi).max(axis=0)
print("PreGER  SSIcov_MS : max |phi| per mode =", np.round(mx_pre, 6))
assert np.allclose(mx_pre, 1.0, atol=1e-9)

# --- PoSER merge -------------------------------------------------------------------
poser = MultiSetup_PoSER(ref_ind=ref_ind, single_setups=setups, names=["ssi", "efdd"])
res = poser.merge_results()
bad = []
for nm, r in res.items():
    mx = np.abs(r.Phi).max(axis=0)
    print(f"PoSER   {nm:9s}: Fn = {np.round(r.Fn, 3)}  max |phi| per mode = {np.round(mx, 4)}")
    for j, m in enumerate(mx):
        if abs(m - 1.0) > 1e-6:
            bad.append((nm, j, float(m)))
print("PoSER   ssi, mode 1 :", np.round(res["ssi"].Phi[:, 0], 3))

if bad:
    msg = "; ".join(f"{nm} mode {j + 1}: largest |component| = {m:.4f}" for nm, j, m in bad)
    print(
        "\nASSERTION FAILED: the mode shapes reported by MultiSetup_PoSER.merge_results() "
        "are not normalised to a unit largest component -- " + msg
    )
    sys.exit(1)
print("all merged shapes are normalised")
