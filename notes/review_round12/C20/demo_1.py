"""
C20 / demo 1 -- CMIF_plot (and the legacy Stab_plot, and stab_plot) cannot draw on a
caller-supplied Figure although the docstring promises it.

Documented contract (functions/plot.py, CMIF_plot docstring):
    fig : An existing matplotlib figure object to plot on. If None, a new figure is created.
    ax  : An existing axes object to plot on. If None, new axes are created on the
          provided or new figure.

So  CMIF_plot(S_val, freq, fig=my_fig)  must draw the singular-value curves on new axes of
my_fig.  The unchanged library raises AttributeError instead and draws nothing.

Run:  PYTHONPATH=/tmp/wt12/C20/src MPLBACKEND=Agg /venv/bin/python demo_1.py
"""
import sys

import matplotlib

matplotlib.use("Agg")
import matplotlib.pyplot as plt
import numpy as np

from pyoma2.functions import plot

rng = np.random.default_rng(20)
n, nf = 3, 64
sv = np.sort(rng.uniform(1e-3, 5.0, (n, nf)), axis=0)[::-1]
S_val = np.zeros((n, n, nf))
for k in range(n):
    S_val[k, k] = sv[k]
freq = np.linspace(0.0, 25.0, nf)

failures = []

# reference behaviour: nothing supplied -> n curves over the whole grid, in dB rel. to max of the first
fig0, ax0 = plot.CMIF_plot(S_val, freq)
assert len(ax0.lines) == n
for k, ln in enumerate(ax0.lines):
    assert np.array_equal(ln.get_xdata(), freq)
    assert np.allclose(ln.get_ydata(), 10 * np.log10(sv[k] / sv[0].max()))

# documented usage: the caller supplies the Figure only
my_fig = plt.figure()
try:
    fig1, ax1 = plot.CMIF_plot(S_val, freq, fig=my_fig)
    ncurves = len(ax1.lines)
    if ncurves != n or ax1.figure is not my_fig:
        failures.append(f"CMIF_plot(fig=my_fig): {ncurves} curves drawn, expected {n} on my_fig")
except Exception as e:  # noqa: BLE001
    failures.append(
        f"CMIF_plot(S_val, freq, fig=my_fig) raised {type(e).__name__}: {e} "
        f"(docstring: 'If None, new axes are created on the provided or new figure'); "
        f"curves drawn on my_fig: {sum(len(a.lines) for a in my_fig.axes)} instead of {n}"
    )

# same contract, same wording, in the legacy stabilisation chart
Fn = np.array([[3.0, 3.01, 3.02], [8.0, np.nan, 8.02]])
Lab7 = np.array([[0, 7, 7], [0, 0, 7]])
my_fig2 = plt.figure()
try:
    _, ax2 = plot.Stab_plot(Fn, Lab7, 1, 2, fig=my_fig2)
    if len(ax2.lines) != 1:
        failures.append("Stab_plot(fig=my_fig): no marker line drawn")
except Exception as e:  # noqa: BLE001
    failures.append(f"Stab_plot(..., fig=my_fig) raised {type(e).__name__}: {e}")

# current stabilisation chart (fig / ax are documented optional arguments there too)
Lab = (Lab7 == 7).astype(int)
my_fig3 = plt.figure()
try:
    plot.stab_plot(Fn, Lab, 1, 2, fig=my_fig3)
except Exception as e:  # noqa: BLE001
    failures.append(f"stab_plot(..., fig=my_fig) raised {type(e).__name__}: {e}")

# related: axes only -> the documented return value 'fig' is None
fig4, ax4 = plt.subplots()
rfig, rax = plot.CMIF_plot(S_val, freq, ax=ax4)
if rfig is None:
    failures.append("CMIF_plot(S_val, freq, ax=my_ax) returns fig=None (documented: 'The matplotlib figure object')")

if failures:
    print("C20 demo_1: caller-supplied figure is not honoured:")
    for f in failures:
        print("  -", f)
    sys.exit("ASSERTION FAILED: " + failures[0])
print("ok")
