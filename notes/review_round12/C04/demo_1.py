"""C04 demo 1: PreGER merging loses ~4 digits on single-precision / int16 records.

All setups are cut from ONE simultaneous recording (identical reference
records), so the merged PreGER spectral matrix must equal the single-setup
cross-spectral matrix [refs, rov(setup 1), rov(setup 2)] x [refs] computed from
the very same samples with the same estimator settings.

For float64 (and int32/int64) records it does, to ~1e-12.  For records stored
as float32 or int16 (raw ADC counts) scipy.signal.csd returns complex64
spectra; SD_PreGER then inverts the complex64 reference block in single
precision, and the round trip  G_mr @ inv(G_rr) @ mean(G_rr)  is wrong by
cond(G_rr) * 6e-8, i.e. 1e-4 .. 1e-3 of the spectrum at the resonance peaks,
while the single-setup matrix from the same samples is good to ~1e-7.

Run:  PYTHONPATH=/tmp/wt12/C04/src MPLBACKEND=Agg /venv/bin/python demo_1.py
"""
import logging
import sys

import numpy as np
import scipy.linalg as la

logging.disable(logging.CRITICAL)

from pyoma2.algorithms.fdd import FDD, FDD_MS  # noqa: E402
from pyoma2.setup.multi import MultiSetup_PreGER  # noqa: E402
from pyoma2.setup.single import SingleSetup  # noqa: E402


def simulate(nd, N, fs, noise, rng):
    """Displacements of an nd-DOF shear frame under white-noise loads + sensor noise."""
    K = 2 * np.eye(nd) - np.eye(nd, k=1) - np.eye(nd, k=-1)
    K[-1, -1] = 1
    K *= (2 * np.pi * 3) ** 2
    w2, Phi = la.eigh(K)
    C = Phi @ np.diag(2 * 0.01 * np.sqrt(w2)) @ Phi.T
    A = np.block([[np.zeros((nd, nd)), np.eye(nd)], [-K, -C]])
    B = np.vstack([np.zeros((nd, nd)), np.eye(nd)])
    Ad = la.expm(A / fs)
    Bd = np.linalg.solve(A, Ad - np.eye(2 * nd)) @ B
    u = rng.standard_normal((N + 2000, nd))
    xs = np.zeros(2 * nd)
    out = np.zeros((N + 2000, nd))
    for k in range(N + 2000):
        out[k] = xs[:nd]
        xs = Ad @ xs + Bd @ u[k]
    y = out[2000:]
    return y + noise * y.std() * rng.standard_normal(y.shape)


def rel_err_per_freq(S, Se):
    return np.max(np.abs(S - Se), axis=(0, 1)) / np.max(np.abs(Se), axis=(0, 1))


rng = np.random.default_rng(2024)
fs, nxseg, pov = 50.0, 512, 0.5
N = 30 * nxseg
y = simulate(6, N, fs, noise=0.05, rng=rng)  # 5 % sensor noise: ordinary data

records = {
    "float64": y,
    "int32 (counts)": np.round(y / np.abs(y).max() * 32000).astype(np.int32),
    "float32": y.astype(np.float32),
    "int16 (counts)": np.round(y / np.abs(y).max() * 32000).astype(np.int16),
}

refs = [0, 1, 2]  # three shared reference channels
# setup 1: channels [3, ref0, ref1, 4, ref2] ; setup 2: [ref2, ref1, 5, ref0]
cols = [[3, 0, 1, 4, 2], [2, 1, 5, 0]]
ref_ind = [[1, 2, 4], [3, 1, 0]]
order = [0, 1, 2, 3, 4, 5]  # refs first, then roving sensors in setup order

TOL = 1e-5  # 100x the resolution of single precision, 1e7 x what float64 achieves
failures = []
for label, rec in records.items():
    for method in ("per", "cor"):
        ms = MultiSetup_PreGER(
            fs=fs, ref_ind=ref_ind, datasets=[rec[:, c].copy() for c in cols]
        )
        a = FDD_MS(name="ms", nxseg=nxseg, method_SD=method, pov=pov)
        ms.add_algorithms(a)
        ms.run_all()

        ss = SingleSetup(rec[:, order].copy(), fs=fs)
        s = FDD(name="ss", nxseg=nxseg, method_SD=method, pov=pov)
        ss.add_algorithms(s)
        ss.run_all()

        S = a.result.Sy
        Se = s.result.Sy[:, : len(refs), :]
        assert S.shape == Se.shape
        assert np.array_equal(a.result.freq, s.result.freq)
        e = rel_err_per_freq(S, Se)
        k = int(np.argmax(e))
        print(
            f"{label:15s} {method}: merged dtype {S.dtype}, max |merged - single| / max|single| "
            f"per frequency line = {e.max():.2e} at {a.result.freq[k]:.3f} Hz"
        )
        if e.max() > TOL:
            failures.append((label, method, float(e.max()), float(a.result.freq[k])))

if failures:
    msg = "; ".join(f"{l} '{m}': {e:.1e} at {f:.2f} Hz" for l, m, e, f in failures)
    print(
        "\nASSERTION FAILED: with identical reference records the merged PreGER spectral "
        "matrix must equal the single-setup cross-spectral matrix of the same samples, "
        f"but it differs by more than {TOL:g} (relative, per frequency line) for: {msg}",
        file=sys.stderr,
    )
    sys.exit(1)
print("merged == single-setup for every record type")
