"""
C15 / finding 1: EFDD.mpe (hence FSDD, EFDD_MS) is not gated on a prior run.

Sequence inside the quantifier:  add(EFDD) ; mpe(EFDD)      (no run in between)

Property: "extracting modes requires a prior run - otherwise an exception is
raised and nothing is stored".

Observed on the unchanged library: an (unrelated) AttributeError is raised only
AFTER the seven mode-extraction parameters have been written into the
algorithm's run_params, so something IS stored; the documented
ValueError("Run algorithm first") that FDD / SSIdat / SSIcov / pLSCF raise is
never produced.

Run:  PYTHONPATH=/tmp/wt12/C15/src MPLBACKEND=Agg /venv/bin/python demo_1.py
"""
import copy
import logging
import os
import sys

import numpy as np

from pyoma2.algorithms import EFDD, EFDD_MS, FDD, FSDD, SSIcov, SSIdat, pLSCF
from pyoma2.functions.gen import load_from_file, save_to_file
from pyoma2.setup import MultiSetup_PreGER, SingleSetup

logging.disable(logging.CRITICAL)

rng = np.random.default_rng(0)
fs = 50.0
data = rng.standard_normal((2000, 4))


def params_equal(a: dict, b: dict) -> bool:
    if a.keys() != b.keys():
        return False
    for k in a:
        x, y = a[k], b[k]
        if isinstance(x, np.ndarray) or isinstance(y, np.ndarray):
            if x is None or y is None or not np.array_equal(x, y):
                return False
        elif x != y:
            return False
    return True


def probe(setup, alg, mpe_kwargs):
    """add ; mpe  (no run).  Returns (exception, params_before, params_after, result)."""
    setup.add_algorithms(alg)
    before = copy.deepcopy(alg.run_params.model_dump())
    exc = None
    try:
        setup.mpe(alg.name, **mpe_kwargs)
    except Exception as e:  # noqa: BLE001
        exc = e
    after = copy.deepcopy(alg.run_params.model_dump())
    return exc, before, after, alg.result


failures = []

# --- the classes that behave as the property says (control group) -----------
controls = [
    (FDD(name="FDD", nxseg=256), dict(sel_freq=[3.0, 7.5], DF=0.5)),
    (SSIdat(name="SSIdat", br=6, ordmax=10), dict(sel_freq=[3.0, 7.5], order=6)),
    (SSIcov(name="SSIcov", br=6, ordmax=10), dict(sel_freq=[3.0, 7.5], order=6)),
    (pLSCF(name="pLSCF", ordmax=8, nxseg=256), dict(sel_freq=[3.0, 7.5], order=6)),
]
for alg, kw in controls:
    exc, before, after, result = probe(SingleSetup(data, fs), alg, kw)
    ok = isinstance(exc, ValueError) and params_equal(before, after) and result is None
    print(f"[control] {alg.name:8s} exception={type(exc).__name__}: {exc} | "
          f"run_params untouched={params_equal(before, after)} | result={result}")
    assert ok, f"control {alg.name} unexpectedly misbehaves"

# --- the EFDD family ---------------------------------------------------------
efdd_kw = dict(sel_freq=[3.0, 7.5], DF1=0.4, DF2=2.0, cm=2, MAClim=0.9, sppk=2, npmax=10)
ds = [rng.standard_normal((1500, 4)), rng.standard_normal((1500, 4))]
cases = [
    ("EFDD   in SingleSetup", SingleSetup(data, fs), EFDD(name="EFDD", nxseg=256)),
    ("FSDD   in SingleSetup", SingleSetup(data, fs), FSDD(name="FSDD", nxseg=256)),
    ("EFDD_MS in MultiSetup_PreGER",
     MultiSetup_PreGER(fs=fs, ref_ind=[[0, 1], [0, 1]], datasets=ds),
     EFDD_MS(name="EFDD_MS", nxseg=256)),
]
for label, setup, alg in cases:
    exc, before, after, result = probe(setup, alg, efdd_kw)
    changed = {k: (before[k], after[k]) for k in before
               if not params_equal({k: before[k]}, {k: after[k]})}
    print(f"[EFDD family] {label}: exception={type(exc).__name__}: {exc}")
    print(f"              run_params fields written by the refused mpe: {changed}")
    if exc is None:
        failures.append(f"{label}: mpe without a prior run raised nothing")
    if not isinstance(exc, ValueError):
        failures.append(
            f"{label}: mpe without a prior run raised {type(exc).__name__} "
            f"('{exc}') instead of the documented ValueError('Run algorithm first')"
        )
    if changed:
        failures.append(
            f"{label}: the refused mpe nevertheless STORED {sorted(changed)} "
            f"in run_params (before -> after: {changed})"
        )
    if result is not None:
        failures.append(f"{label}: a result appeared without a run")

# --- the stored garbage survives a later run and a save / load ---------------
ss = SingleSetup(data, fs)
alg = EFDD(name="EFDD", nxseg=256)
ss.add_algorithms(alg)
try:
    ss.mpe("EFDD", **efdd_kw)
except Exception:  # noqa: BLE001
    pass
ss.run_by_name("EFDD")  # a plain run, no mode extraction has ever succeeded
_pkl = os.path.join(os.path.dirname(os.path.abspath(__file__)), "_demo_1.pkl")
save_to_file(ss, _pkl)
loaded = load_from_file(_pkl)
os.remove(_pkl)
print("after failed mpe + run + save/load: result.Fn =", loaded["EFDD"].result.Fn,
      "| run_params.sel_freq =", loaded["EFDD"].run_params.sel_freq,
      "| DF1, cm, npmax =", loaded["EFDD"].run_params.DF1, loaded["EFDD"].run_params.cm,
      loaded["EFDD"].run_params.npmax)

if failures:
    print("\nVIOLATIONS of C15 (mode extraction is gated on a prior run, nothing stored otherwise):")
    for f in failures:
        print("  -", f)
    raise AssertionError(
        "EFDD-family mpe() before run(): " + failures[0] + f"  [{len(failures)} violations in total]"
    )
print("no violation")
sys.exit(0)
