"""
C15 / finding 2 (secondary, depends on how "one name per algorithm" is read):
MultiSetup_PoSER accepts a `names` list in which two algorithms share one name.

Assignment inside the quantifier: 2 setups, algorithm type list [EFDD, SSIcov]
in both, every algorithm run and with modes extracted, name list ["x", "x"].

Property: "PoSER accepts only ... with one name per algorithm, and raises
ValueError otherwise".  `names` is what the merged results are keyed by
(docstring: "Used to retrieve results"), so two algorithms cannot share a name.

Observed on the unchanged library: the constructor only compares len(names)
with the number of algorithms, accepts ["x", "x"], and merge_results() then
lumps the EFDD and the SSIcov results of all setups into one group and dies
with an IndexError deep inside merge_mode_shapes.

Run:  PYTHONPATH=/tmp/wt12/C15/src MPLBACKEND=Agg /venv/bin/python demo_2.py
"""
import logging
import sys
import warnings

import numpy as np
from scipy import signal

from pyoma2.algorithms import EFDD, SSIcov
from pyoma2.setup import MultiSetup_PoSER, SingleSetup

logging.disable(logging.CRITICAL)
warnings.filterwarnings("ignore")


def make_data(seed, N=2000, nch=4, fs=50.0):
    """three lightly damped modes at 3.0, 7.5 and 12.0 Hz seen by nch channels"""
    rng = np.random.default_rng(seed)
    shapes = np.random.default_rng(1).standard_normal((nch, 3))
    y = np.zeros((N, nch))
    for k, (f, xi) in enumerate(zip([3.0, 7.5, 12.0], [0.01, 0.015, 0.02])):
        w = 2 * np.pi * f
        sysd = signal.lti([1.0], [1, 2 * xi * w, w * w]).to_discrete(1 / fs)
        _, q = signal.dlsim(sysd, rng.standard_normal(N))
        y += np.outer(q[:, 0] / np.std(q), shapes[:, k])
    return y + 0.05 * rng.standard_normal(y.shape), fs


def make_setup(seed):
    y, fs = make_data(seed)
    ss = SingleSetup(y, fs)
    ss.add_algorithms(
        EFDD(name="EFDD", nxseg=512), SSIcov(name="SSIcov", br=10, ordmax=20)
    )
    ss.run_all()
    ss.mpe("EFDD", sel_freq=[3.0, 7.5, 12.0], DF1=0.5, DF2=2.0)
    ss.mpe("SSIcov", sel_freq=[3.0, 7.5, 12.0], order=10)
    return ss


setups = [make_setup(11), make_setup(12)]
ref_ind = [[0, 1], [0, 1]]

# control: distinct names are accepted and merge fine
ok = MultiSetup_PoSER(ref_ind=ref_ind, single_setups=setups, names=["efdd", "ssi"])
res = ok.merge_results()
print("control, names=['efdd','ssi'] ->", {k: np.round(v.Fn, 3) for k, v in res.items()})

# control: a wrong NUMBER of names is rejected with ValueError
try:
    MultiSetup_PoSER(ref_ind=ref_ind, single_setups=setups, names=["x"])
    raise SystemExit("control failed: one name for two algorithms was accepted")
except ValueError as e:
    print("control, names=['x'] -> ValueError:", e)

# the case: the right number of names, but the two algorithms share one name
raised = None
poser = None
try:
    poser = MultiSetup_PoSER(ref_ind=ref_ind, single_setups=setups, names=["x", "x"])
except ValueError as e:
    raised = e

if raised is None:
    downstream = None
    try:
        merged = poser.merge_results()
        downstream = f"merge_results() returned keys {list(merged)} for 2 algorithms"
    except Exception as e:  # noqa: BLE001
        downstream = f"merge_results() then fails with {type(e).__name__}: {e}"
    print("names=['x','x'] was ACCEPTED by the constructor;", downstream)
    raise AssertionError(
        "MultiSetup_PoSER accepted names=['x', 'x'] for the algorithms [EFDD, SSIcov] "
        "(two algorithms, one name) instead of raising ValueError; " + downstream
    )
print("names=['x','x'] -> ValueError:", raised)
sys.exit(0)
