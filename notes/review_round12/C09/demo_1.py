"""
C09 demo 1 - single-channel records: every pole is blanked whatever the hard
criteria are, because the MPC of a one-component mode shape is undefined in
gen.MPC (0/0 -> NaN / LinAlgError) and gen.HC_phi_comp counts that as "MPC < mpc_lim".

Run:  PYTHONPATH=/tmp/wt12/C09/src MPLBACKEND=Agg /venv/bin/python demo_1.py
"""
import logging
import os
import sys
import warnings

os.environ["TQDM_DISABLE"] = "1"
warnings.filterwarnings("ignore")
logging.disable(logging.CRITICAL)

import numpy as np
from scipy import signal

from pyoma2.algorithms import SSIcov, SSIdat, pLSCF
from pyoma2.functions import fdd, plscf, ssi
from pyoma2.setup import SingleSetup

# ----------------------------------------------------------------------------
# one accelerometer on a 2-DOF structure (1.5 Hz and 4 Hz, 1 % damping), white
# noise excitation, 2 % sensor noise
# ----------------------------------------------------------------------------
rng = np.random.default_rng(2024)
fs, N = 50.0, 20000
K = (2 * np.pi) ** 2 * np.array([[8.0, -5.0], [-5.0, 8.0]])
w2, V = np.linalg.eigh(K)
Cd = V @ np.diag(2 * 0.01 * np.sqrt(w2)) @ V.T
A = np.block([[np.zeros((2, 2)), np.eye(2)], [-K, -Cd]])
B = np.vstack([np.zeros((2, 2)), np.eye(2)])
C = np.hstack([-K, -Cd])
D = np.eye(2)
sysd = signal.cont2discrete((A, B, C, D), 1 / fs)
_, acc, _ = signal.dlsim((*sysd[:4], 1 / fs), rng.standard_normal((N, 2)))
y = acc[:, :1] + 0.02 * acc[:, :1].std() * rng.standard_normal((N, 1))  # shape (N, 1)
f_true = np.sqrt(w2) / 2 / np.pi

# all hard criteria as permissive as the documented ranges allow
hc_ssi = dict(conj=False, xi_max=1.0, mpc_lim=0.0, mpd_lim=np.pi / 2, cov_max=1e300)
hc_pls = dict(conj=False, xi_max=1.0, mpc_lim=0.0, mpd_lim=np.pi / 2)
br, ordmax = 20, 12

failures = []


def report(name, Fn0, Xi0, Fn_res):
    """Fn0, Xi0: unfiltered solution; Fn_res: table after the run."""
    must_stay = (Xi0 > 0) & (Xi0 < 1.0)  # MPC >= 0 and MPD <= pi/2 hold for any shape
    kept = ~np.isnan(Fn_res)
    lost = must_stay & ~kept
    phys = [
        int((must_stay & (np.abs(Fn0 - f) < 0.03 * f)).sum()) for f in f_true
    ]
    print(
        f"{name:7s}: unfiltered poles {int((~np.isnan(Fn0)).sum()):4d}, "
        f"with 0<xi<1 {int(must_stay.sum()):4d} (of which near {f_true[0]:.2f} Hz: {phys[0]}, "
        f"near {f_true[1]:.2f} Hz: {phys[1]}), left after run {int(kept.sum()):4d}"
    )
    if lost.any():
        failures.append(
            f"{name}: {int(lost.sum())} of {int(must_stay.sum())} poles that satisfy every "
            f"hard criterion (0<xi<1, mpc_lim=0, mpd_lim=pi/2, conj off) were blanked"
        )


# --- SSIcov / SSIdat -----------------------------------------------------------
for cls, meth in [(SSIcov, "cov_mm"), (SSIdat, "dat")]:
    H, T = ssi.build_hank(Y=y.T, Yref=y.T, br=br, method=meth)
    Obs, AA, CC, *_ = ssi.SSI_fast(H, br, ordmax)
    Fn0, Xi0, Phi0, Lam0, *_ = ssi.SSI_poles(Obs, AA, CC, ordmax, 1 / fs)
    ss = SingleSetup(y, fs)
    alg = cls(name="alg", br=br, ordmax=ordmax, hc=hc_ssi)
    ss.add_algorithms(alg)
    ss.run_by_name("alg")
    report(cls.__name__, Fn0, Xi0, alg.result.Fn_poles)

# --- pLSCF ---------------------------------------------------------------------
nxseg = 1024
freq, Sy = fdd.SD_est(y.T, y.T, 1 / fs, nxseg, method="cor", pov=0.5)
Ad, Bn = plscf.pLSCF(Sy, 1 / fs, ordmax, sgn_basf=+1)
Fn0, Xi0, Phi0, Lam0 = plscf.pLSCF_poles(Ad, Bn, 1 / fs, nxseg=nxseg, methodSy="cor")
ss = SingleSetup(y, fs)
alg = pLSCF(name="alg", ordmax=ordmax, nxseg=nxseg, method_SD="cor", hc=hc_pls)
ss.add_algorithms(alg)
ss.run_by_name("alg")
report("pLSCF", Fn0, Xi0, alg.result.Fn_poles)

if failures:
    print()
    raise AssertionError(
        "C09 violated (completeness) on a one-channel record:\n  " + "\n  ".join(failures)
    )
print("no violation")
sys.exit(0)
