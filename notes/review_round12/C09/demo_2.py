"""
C09 demo 2 - the MPC hard criterion is enforced with a mean-centred MPC
(gen.MPC uses np.cov, which subtracts the mean of Re(phi) and of Im(phi)).
The modal phase collinearity is defined on the uncentred products
Sxx = Re'Re, Syy = Im'Im, Sxy = Re'Im (Pappa/Elliott/Schenk 1993, Reynders 2012).

 (a) completeness: three parallel sensors on a rigid body -> mode shape ~ [1, 1, 1].
     The physical poles have MPC = 1.0000 and MPD ~ 1e-4 rad, yet SSIcov with
     mpc_lim = 0.95 blanks a large share of them (library "MPC" 0.6 ... 0.99).
 (b) soundness: with two channels the centred 2-point covariance always has rank 1,
     so the library MPC is identically 1 and the criterion never rejects anything:
     poles with MPC as low as ~0.5 are left in the tables at mpc_lim = 0.9.

Run:  PYTHONPATH=/tmp/wt12/C09/src MPLBACKEND=Agg /venv/bin/python demo_2.py
"""
import logging
import os
import sys
import warnings

os.environ["TQDM_DISABLE"] = "1"
warnings.filterwarnings("ignore")
logging.disable(logging.CRITICAL)

import numpy as np
from scipy import signal

from pyoma2.algorithms import SSIcov
from pyoma2.functions import gen, ssi
from pyoma2.setup import SingleSetup


def mpc_ref(phi):
    """Modal phase collinearity, textbook (uncentred) definition."""
    x, y = phi.real, phi.imag
    ev = np.linalg.eigvalsh(np.array([[x @ x, x @ y], [x @ y, y @ y]]))
    return float(((ev[1] - ev[0]) / (ev[1] + ev[0])) ** 2)


def away(val, thr, rel=1e-9):
    return abs(val - thr) > rel * max(abs(val), abs(thr))


def run(y, fs, br, ordmax, hc):
    ss = SingleSetup(y, fs)
    alg = SSIcov(name="alg", br=br, ordmax=ordmax, hc=hc)
    ss.add_algorithms(alg)
    ss.run_by_name("alg")
    return alg.result


def unfiltered(y, fs, br, ordmax):
    H, _ = ssi.build_hank(Y=y.T, Yref=y.T, br=br, method="cov_mm")
    Obs, AA, CC, *_ = ssi.SSI_fast(H, br, ordmax)
    return ssi.SSI_poles(Obs, AA, CC, ordmax, 1 / fs)[:4]


failures = []

# ----------------------------------------------------------------------------
# (a) rigid body on a spring (2 Hz, 1 % damping) seen by three parallel sensors
# ----------------------------------------------------------------------------
rng = np.random.default_rng(0)
fs, N, f0, xi = 50.0, 20000, 2.0, 0.01
wn = 2 * np.pi * f0
A = np.array([[0, 1], [-(wn**2), -2 * xi * wn]])
B = np.array([[0], [1.0]])
C = np.array([[-(wn**2), -2 * xi * wn]])
D = np.array([[1.0]])
sysd = signal.cont2discrete((A, B, C, D), 1 / fs)
_, acc, _ = signal.dlsim((*sysd[:4], 1 / fs), rng.standard_normal((N, 1)))
y = acc * np.ones(3) + 0.02 * acc.std() * rng.standard_normal((N, 3))

br, ordmax = 20, 20
hc = dict(conj=True, xi_max=0.1, mpc_lim=0.95, mpd_lim=0.3, cov_max=0.2)
Fn0, Xi0, Phi0, Lam0 = unfiltered(y, fs, br, ordmax)
res = run(y, fs, br, ordmax, hc)

n_ok = n_lost = n_phys = n_phys_lost = 0
worst = None
min_mpc_lost = 1.0
for i, o in np.argwhere(~np.isnan(Fn0)):
    lam, ph = Lam0[i, o], Phi0[i, o]
    col = Lam0[:, o]
    conj_ok = np.any(col[~np.isnan(col)] == np.conj(lam))
    mpc, mpd = mpc_ref(ph), float(gen.MPD(ph))
    ok = conj_ok and 0 < Xi0[i, o] < hc["xi_max"] and mpc >= hc["mpc_lim"] and mpd <= hc["mpd_lim"]
    judged = away(Xi0[i, o], hc["xi_max"]) and away(mpc, hc["mpc_lim"]) and away(mpd, hc["mpd_lim"])
    if ok and judged:
        n_ok += 1
        phys = abs(Fn0[i, o] - f0) < 0.05  # the structural mode itself
        n_phys += phys
        if np.isnan(res.Fn_poles[i, o]):
            n_lost += 1
            n_phys_lost += phys
            min_mpc_lost = min(min_mpc_lost, mpc)
            lib = float(np.real(gen.MPC(ph)))
            if phys and (worst is None or lib < worst[0]):
                worst = (lib, mpc, mpd, o, Fn0[i, o], Xi0[i, o], ph)
print(
    f"(a) poles satisfying conj, 0<xi<{hc['xi_max']}, MPC>={hc['mpc_lim']}, MPD<={hc['mpd_lim']}: {n_ok} "
    f"(structural 2 Hz mode: {n_phys}); blanked by the run: {n_lost} (structural: {n_phys_lost})"
)
if n_lost:
    lib, mpc, mpd, o, f, x, ph = worst
    print(
        f"    e.g. order {o}: fn={f:.4f} Hz xi={x:.4f} phi={np.round(ph, 4)}\n"
        f"         MPC={mpc:.8f}  MPD={mpd:.2e} rad  but gen.MPC -> {lib:.4f} < mpc_lim"
    )
    failures.append(
        f"(a) completeness: {n_lost} of {n_ok} poles that satisfy all hard criteria "
        f"were blanked (their MPC is >= {min_mpc_lost:.6f}); of the {n_phys} poles of the structural "
        f"2 Hz mode {n_phys_lost} were blanked, library 'MPC' down to {worst[0]:.3f} where MPC = {worst[1]:.8f}"
    )

# ----------------------------------------------------------------------------
# (b) two channels of a non-proportionally damped 4-DOF chain
# ----------------------------------------------------------------------------
rng = np.random.default_rng(4)
ndof, fs, N = 4, 100.0, 5000
K = 6000.0 * (2 * np.eye(ndof) - np.eye(ndof, k=1) - np.eye(ndof, k=-1))
w2, V = np.linalg.eigh(K)
w = np.sqrt(w2)
Cd = V @ np.diag(2 * 0.02 * w) @ V.T + 3.0 * np.diag(np.arange(ndof)) * 2 * 0.02 * w[0]
A = np.block([[np.zeros((ndof, ndof)), np.eye(ndof)], [-K, -Cd]])
B = np.vstack([np.zeros((ndof, ndof)), np.eye(ndof)])
C = np.hstack([-K, -Cd])
D = np.eye(ndof)
sysd = signal.cont2discrete((A, B, C, D), 1 / fs)
_, acc, _ = signal.dlsim((*sysd[:4], 1 / fs), rng.standard_normal((N, ndof)))
y2 = (acc + 0.1 * acc.std() * rng.standard_normal(acc.shape))[:, :2]

br, ordmax = 12, 20
hc = dict(conj=True, xi_max=0.1, mpc_lim=0.9, mpd_lim=np.pi / 2, cov_max=0.2)
res = run(y2, fs, br, ordmax, hc)
kept = np.argwhere(~np.isnan(res.Fn_poles))
mpcs = np.array([mpc_ref(res.Phi_poles[i, o]) for i, o in kept])
bad = (mpcs < hc["mpc_lim"]) & np.array([away(m, hc["mpc_lim"]) for m in mpcs])
n0 = int((~np.isnan(run(y2, fs, br, ordmax, dict(hc, mpc_lim=0.0)).Fn_poles)).sum())
print(f"(b) poles left at mpc_lim={hc['mpc_lim']}: {len(kept)} (at mpc_lim=0: {n0}); of these with MPC < mpc_lim: {int(bad.sum())}, min MPC {mpcs.min():.3f}")
print(f"    gen.MPC([1, 1j]) = {np.real(gen.MPC(np.array([1, 1j]))):.3f}   (Re and Im orthogonal: MPC is 0)")
if bad.any():
    k = int(np.argmin(mpcs))
    i, o = kept[k]
    print(f"    e.g. order {o}: fn={res.Fn_poles[i, o]:.3f} Hz phi={np.round(res.Phi_poles[i, o], 3)} MPC={mpcs[k]:.3f}")
    failures.append(
        f"(b) soundness: {int(bad.sum())} of {len(kept)} poles left in the tables have MPC < mpc_lim={hc['mpc_lim']} "
        f"(min {mpcs.min():.3f}); with two channels the MPC criterion rejects nothing"
    )

if failures:
    print()
    raise AssertionError("C09 violated (MPC criterion):\n  " + "\n  ".join(failures))
print("no violation")
sys.exit(0)
