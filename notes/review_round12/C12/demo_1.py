"""
C12 - demo 1: the Toeplitz ('cov_R') matrix is filled with correlations of the
WRONG lag sign.

build_hank(..., method="cov_mm") puts  (1/N) sum_t  y_a[t + lag] * ref_b[t]   (lag = i+j+1 > 0,
output LATER than the reference) into block (i, j): the causal correlation R_lag = C A^(lag-1) G.

build_hank(..., method="cov_R") puts   mean_t  y_a[t] * ref_b[t + k]          (k = br+i-j >= 0,
output EARLIER than the reference) into block (i, j): that is the correlation at lag -k,
R_{-k}[:, ref] = (R_k[ref, :])^T.  The Toeplitz matrix therefore does not factor into
observability (C, A) times controllability; its column space is spanned by G^T, G^T A^T, ...
and the "mode shapes" identified from it are the stochastic participation vectors, not the
mode shapes.

Part A shows the sign with a pair of unit impulses (exact arithmetic).
Part B shows the consequence through the public API (SingleSetup + SSIcov): same data, same
settings, method="cov_mm" gives MAC = 1.00 with the exact mode shapes, method="cov_R" gives
MAC ~ 0.75 for the third mode - and the Toeplitz matrix built from the definition with the
positive lag gives MAC = 1.00 again.

run:  PYTHONPATH=/tmp/wt12/C12/src MPLBACKEND=Agg /venv/bin/python demo_1.py
"""
import logging
import sys

import numpy as np
from scipy import linalg, signal

logging.disable(logging.CRITICAL)

from pyoma2.functions import ssi  # noqa: E402
from pyoma2.setup import SingleSetup  # noqa: E402
from pyoma2.algorithms import SSIcov  # noqa: E402

ssi.trange = lambda *a, **k: range(*a)  # silence the progress bars only

failures = []

# ---------------------------------------------------------------------------------------
# Part A - one unit impulse in the channel, one in the reference
# ---------------------------------------------------------------------------------------
br, Ndat = 3, 40
s, t = 25, 20  # the channel "responds" 5 samples AFTER the reference: lag = s - t = +5
Y = np.zeros((1, Ndat))
Y[0, s] = 1.0
Yref = np.zeros((1, Ndat))
Yref[0, t] = 1.0


def blocks_hit(H):
    return sorted((int(i), int(j)) for i, j in zip(*np.nonzero(H)))


H_mm, _ = ssi.build_hank(Y, Yref, br, "cov_mm")
H_R, _ = ssi.build_hank(Y, Yref, br, "cov_R")
H_Rm, _ = ssi.build_hank(Yref, Y, br, "cov_R")  # roles swapped = lag -5 for (channel, ref)
want_mm = sorted((i, j) for i in range(br + 1) for j in range(br + 1) if i + j + 1 == s - t)
want_R = sorted((i, j) for i in range(br + 1) for j in range(br + 1) if br + i - j == s - t)
print("channel impulse at %d, reference impulse at %d  ->  lag of channel w.r.t. reference = %+d"
      % (s, t, s - t))
print("  cov_mm: non-zero blocks", blocks_hit(H_mm), " expected (i+j+1 == 5):", want_mm)
print("  cov_R : non-zero blocks", blocks_hit(H_R), " expected (br+i-j == 5):", want_R)
print("  cov_R with the impulses at lag -5 instead: non-zero blocks", blocks_hit(H_Rm))
if blocks_hit(H_mm) != want_mm:
    failures.append("cov_mm: lag +5 not at the blocks i+j+1 == 5")
if blocks_hit(H_R) != want_R:
    failures.append(
        "cov_R: a channel that follows the reference by +5 samples leaves the blocks with "
        "br+i-j == 5 EMPTY (all of H is zero: %s); the same blocks are filled when the channel "
        "PRECEDES the reference by 5 samples (%s) - cov_R uses lag -(br+i-j), the opposite sign "
        "convention of cov_mm" % (not H_R.any(), blocks_hit(H_Rm) == want_R)
    )

# ---------------------------------------------------------------------------------------
# Part B - consequence: mode shapes from SSIcov(method='cov_R')
# ---------------------------------------------------------------------------------------
n = 3
M = np.eye(n)
K = 1000.0 * np.array([[2, -1, 0], [-1, 2, -1], [0, -1, 1.0]])
w2, Phi = linalg.eigh(K, M)
fn_true = np.sqrt(w2) / 2 / np.pi
C = 0.002 * K + 0.5 * M  # proportional damping -> real normal modes Phi
Ac = np.block([[np.zeros((n, n)), np.eye(n)], [-K, -C]])
Bc = np.vstack([np.zeros((n, n)), np.eye(n)])
fs = 50.0
dt = 1 / fs
Ad = linalg.expm(Ac * dt)
Bd = np.linalg.solve(Ac, (Ad - np.eye(2 * n))) @ Bc
Cd = np.hstack([np.eye(n), np.zeros((n, n))])
rng = np.random.default_rng(1)
Nt = 100000
u = np.zeros((Nt, n))
u[:, 0] = rng.standard_normal(Nt)  # white noise acting on the first mass only
_, data, _ = signal.dlsim((Ad, Bd, Cd, np.zeros((n, n)), dt), u)


def mac(a, b):
    return float(abs(a.conj() @ b) ** 2 / ((a.conj() @ a).real * (b.conj() @ b).real))


ss = SingleSetup(data, fs=fs)
br, order = 20, 6
hc = dict(conj=True, xi_max=0.2, mpc_lim=0.0, mpd_lim=1.0, cov_max=1.0)
macs = {}
for ref in (None, [2]):
    for method in ("cov_mm", "cov_R"):
        name = "%s_%s" % (method, ref)
        alg = SSIcov(name=name, method=method, br=br, ordmax=order, ref_ind=ref, hc=hc)
        ss.add_algorithms(alg)
        ss.run_by_name(name)
        ss.mpe(name, sel_freq=list(fn_true), order=order)
        res = alg.result
        macs[(method, str(ref))] = [mac(res.Phi[:, k], Phi[:, k]) for k in range(n)]
        print("SSIcov method=%-6s ref_ind=%-5s fn=%s  MAC with exact shapes=%s"
              % (method, ref, np.round(res.Fn, 3), np.round(macs[(method, str(ref))], 4)))

# independent Toeplitz matrix from the definition, lag = +(br+i-j): y_a[t+k] * ref_b[t]
Yt = data.T
Nd = Yt.shape[1]
Rk = [Yt[:, k:] @ Yt[:, : Nd - k].T / (Nd - k) for k in range(2 * br + 1)]
T_def = np.vstack([np.hstack([Rk[br + i - j] for j in range(br + 1)]) for i in range(br + 1)])
_, A_, C_, *_ = ssi.SSI_fast(T_def, br, order)
fn_d, _, phi_d, *_ = ssi.ac2mp(A_[order], C_[order], dt)
mac_def = []
for k in range(n):
    idx = int(np.argmin(abs(fn_d - fn_true[k])))
    mac_def.append(mac(phi_d[idx], Phi[:, k]))
print("Toeplitz from the definition with positive lag: MAC =", np.round(mac_def, 4))
H_lib, _ = ssi.build_hank(Yt, Yt, br, "cov_R")
blk = lambda H, i, j: H[i * n:(i + 1) * n, j * n:(j + 1) * n]  # noqa: E731
transposed = all(
    np.allclose(blk(H_lib, i, j), blk(T_def, i, j).T, rtol=1e-6, atol=1e-9 * abs(T_def).max())
    for i in range(br + 1) for j in range(br + 1)
)
rel = np.linalg.norm(H_lib - T_def) / np.linalg.norm(T_def)
print("library cov_R blocks == TRANSPOSED definition blocks (all refs; up to end effects):",
      transposed, "  relative distance to the definition: %.3f" % rel)

if min(macs[("cov_mm", "None")]) < 0.99 or min(macs[("cov_mm", "[2]")]) < 0.99 or min(mac_def) < 0.99:
    failures.append("unexpected: reference constructions do not recover the shapes %s %s"
                    % (macs, mac_def))
for ref in ("None", "[2]"):
    if min(macs[("cov_R", ref)]) < 0.9:
        failures.append(
            "SSIcov(method='cov_R', ref_ind=%s): MAC with the exact mode shapes = %s "
            "(cov_mm on the same data: %s; Toeplitz with the positive lag: %s)"
            % (ref, np.round(macs[("cov_R", ref)], 3), np.round(macs[("cov_mm", ref)], 3),
               np.round(mac_def, 3))
        )

if failures:
    print("\nFAILURES:")
    for f in failures:
        print(" -", f)
    raise AssertionError(
        "C12 violated: the 'cov_R' Toeplitz matrix holds the correlations at lag -(br+i-j) "
        "(channel earlier than reference), not +(br+i-j); %d checks failed, first: %s"
        % (len(failures), failures[0])
    )
print("no violation")
sys.exit(0)
