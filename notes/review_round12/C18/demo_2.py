"""C18 / finding 2: plot_mac_matrix draws MAC(array1, array2) with rows = array1, columns = array2
but labels the horizontal (column) axis "Array 1" and the vertical (row) axis "Array 2",
and sizes the ticks accordingly: the displayed MAC matrix is the transpose of what the axes say.

Run:  PYTHONPATH=/tmp/wt12/C18/src MPLBACKEND=Agg /venv/bin/python demo_2.py
"""
import sys

import matplotlib

matplotlib.use("Agg")
import numpy as np

from pyoma2.functions import gen
from pyoma2.functions.plot import plot_mac_matrix

rng = np.random.default_rng(18)
n = 8
Q, _ = np.linalg.qr(rng.standard_normal((n, n)))  # orthonormal real shapes -> MAC is 0 or 1
array1 = Q[:, [0, 1, 2]]  # 3 shapes
array2 = Q[:, [1, 2, 0]] * (0.3 - 2.0j)  # the same shapes, cyclically renumbered and scaled
# truth: array1 shape 2 (index 1) == array2 shape 1 (index 0), and so on
M = gen.MAC(array1, array2)
assert np.allclose(M, [[0, 0, 1], [1, 0, 0], [0, 1, 0]], atol=1e-12)

errors = []

# ---- square case: read the picture through its own axis labels ---------------------------
fig, ax = plot_mac_matrix(array1, array2)
img = np.asarray(ax.images[0].get_array())
assert ax.get_xlabel() == "Array 1" and ax.get_ylabel() == "Array 2"
for row, col in zip(*np.where(img > 0.5)):  # bright cells: "these two shapes are the same"
    # imshow: column index = x coordinate, row index = y coordinate
    mode_of_array1 = col  # x axis is labelled "Array 1"
    mode_of_array2 = row  # y axis is labelled "Array 2"
    true_mac = gen.MAC(array1[:, mode_of_array1], array2[:, mode_of_array2])
    print(
        f"picture says: Array 1 mode nr. {mode_of_array1 + 1} ~ Array 2 mode nr. {mode_of_array2 + 1} "
        f"(cell value {img[row, col]:.3f});  true MAC of that pair = {true_mac:.3f}"
    )
    if abs(true_mac - img[row, col]) > 1e-6:
        errors.append(("square", int(mode_of_array1), int(mode_of_array2), float(true_mac)))

# ---- rectangular case: the ticks do not even fit the picture ------------------------------
array2r = Q[:, [1, 2, 0, 3, 4]] * (0.3 - 2.0j)  # 5 shapes
fig, ax = plot_mac_matrix(array1, array2r)
img = np.asarray(ax.images[0].get_array())
n_rows, n_cols = img.shape
nx, ny = len(ax.get_xticks()), len(ax.get_yticks())
print(
    f"3 shapes vs 5 shapes: image has {n_rows} rows x {n_cols} columns, "
    f"x axis '{ax.get_xlabel()}' has {nx} ticks, y axis '{ax.get_ylabel()}' has {ny} ticks, "
    f"ylim = {ax.get_ylim()}"
)
if (nx, ny) != (n_cols, n_rows):
    errors.append(("rectangular", (n_rows, n_cols), (nx, ny)))

if errors:
    print(
        "ASSERTION FAILED: the plotted MAC matrix has one row per shape of array1 and one column "
        "per shape of array2, but the axes are labelled/ticked the other way round: " + repr(errors)
    )
    sys.exit(1)
print("no violation")
