"""C18 / finding 1: gen.MAC collapses the MAC matrix of two one-shape SETS to a 0-d scalar.

Run:  PYTHONPATH=/tmp/wt12/C18/src MPLBACKEND=Agg /venv/bin/python demo_1.py
"""
import sys

import numpy as np

from pyoma2.functions import gen

rng = np.random.default_rng(18)
n = 6
X = rng.standard_normal((n, 4)) + 1j * rng.standard_normal((n, 4))  # set of 4 shapes
A = rng.standard_normal((n, 4)) + 1j * rng.standard_normal((n, 4))  # set of 4 shapes

failures = []
for m1 in range(1, 5):
    for m2 in range(1, 5):
        M = gen.MAC(X[:, :m1], A[:, :m2])  # both arguments are 2-D sets (n, m1), (n, m2)
        Mt = gen.MAC(A[:, :m2], X[:, :m1])
        ok_shape = np.shape(M) == (m1, m2) and np.shape(Mt) == (m2, m1)
        print(f"sets of {m1} and {m2} shapes -> MAC shape {np.shape(M)}, reversed {np.shape(Mt)}")
        if not ok_shape:
            failures.append((m1, m2, np.shape(M), type(M).__name__))

# the same thing seen from a caller that is generic in the number of modes
try:
    value = gen.MAC(X[:, :1], A[:, :1])[0, 0]
except Exception as exc:  # IndexError: invalid index to scalar variable
    print("indexing MAC(X[:, :1], A[:, :1])[0, 0] raised:", repr(exc))
    failures.append(("index", repr(exc)))

if failures:
    print(
        "ASSERTION FAILED: MAC of a set of m1 shapes and a set of m2 shapes must be an "
        f"(m1, m2) matrix, one row per shape of the first set and one column per shape of "
        f"the second; violations: {failures}"
    )
    sys.exit(1)
print("no violation")
