"""C18 / finding 3: gen.MPC returns a COMPLEX number (numpy.complex128), not a real value in [0, 1].

Run:  PYTHONPATH=/tmp/wt12/C18/src MPLBACKEND=Agg /venv/bin/python demo_3.py
"""
import sys
import warnings

import numpy as np

from pyoma2.functions import gen

rng = np.random.default_rng(18)
problems = []
for n in (2, 3, 7, 64):
    v = rng.standard_normal(n)
    shapes = {
        "generic complex": rng.standard_normal(n) + 1j * rng.standard_normal(n),
        "collinear (c * real)": (0.4 - 1.3j) * v,
        "real dtype": v,
    }
    for name, phi in shapes.items():
        mpc = gen.MPC(phi)
        others = (gen.MPD(phi), gen.MCF(phi)[0], gen.MAC(phi, phi))
        assert all(np.isrealobj(o) for o in others)  # MPD, MCF, MAC are real-typed
        print(f"n={n:2d} {name:22s} MPC = {mpc!r}")
        if np.iscomplexobj(mpc):
            problems.append((n, name, type(mpc).__name__))

# what a caller sees
mpc = gen.MPC((0.4 - 1.3j) * rng.standard_normal(5))
with warnings.catch_warnings():
    warnings.simplefilter("error")
    for what, fn in (("float(mpc)", float), ("round(mpc, 3)", lambda x: round(x, 3))):
        try:
            fn(mpc)
        except Exception as exc:
            print(f"{what} -> {exc!r}")
            problems.append((what, repr(exc)))

if problems:
    print(
        f"ASSERTION FAILED (numpy {np.__version__}): MPC is documented as a float in [0, 1] "
        f"but is returned as a complex number: {problems[:4]} ... ({len(problems)} cases)"
    )
    sys.exit(1)
print("no violation")
