"""
C11 - explicit-order extraction accepts a pole that is NOT within the relative
tolerance of the requested frequency: np.isclose() is called with its default
absolute tolerance atol=1e-8, so the acceptance test is
        |f_pole - f_req| <= 1e-8 + rtol * f_req
instead of  |f_pole - f_req| <= rtol * f_req.
The outcome therefore depends on the unit in which time/frequency is expressed
(and on how small rtol is); order='find_min' of SSI_mpe has no such slack.
Here: requests 0.2 % away from the poles, rtol = 0.01 %  ->  nothing may be returned.
In Hz nothing is returned; with the time axis in microseconds poles 20 x rtol away are returned.

Run:  PYTHONPATH=/tmp/wt12/C11/src MPLBACKEND=Agg /venv/bin/python demo_1.py
"""
import logging
import sys
import warnings

import numpy as np

logging.disable(logging.CRITICAL)
warnings.simplefilter("ignore")

import pyoma2.functions.plscf as P  # noqa: E402
import pyoma2.functions.ssi as S  # noqa: E402

S.tqdm = lambda x: x  # silence the progress bars
P.tqdm = lambda x: x

failures = []


def rel_dev(f_out, f_req):
    return abs(f_out - f_req) / f_req


# ----------------------------------------------------------------------------
# 1. function level: the same pole table in two frequency units
# ----------------------------------------------------------------------------
rng = np.random.default_rng(0)
n_rows, n_ord, n_ch = 6, 8, 3
modes_hz = np.array([1.5, 4.0, 6.5])  # three modes, conjugate pairs
Fn_hz = np.full((n_rows, n_ord), np.nan)
for o in range(2, n_ord):
    Fn_hz[:, o] = np.repeat(modes_hz * (1 + 1e-4 * rng.standard_normal(3)), 2)
Xi = np.where(np.isnan(Fn_hz), np.nan, 0.01)
Phi = rng.standard_normal((n_rows, n_ord, n_ch)) + 0j
Lab = (~np.isnan(Fn_hz)).astype(int)

rtol = 1e-4  # 0.01 %
order = 5
off = 1.002  # every request is 0.2 % away from the pole = 20 x rtol
req_hz = [1.5 * off, 4.0 * off, 6.5 * off]

for unit_name, scale in (("Hz", 1.0), ("MHz (time in microseconds)", 1e-6)):
    req = [f * scale for f in req_hz]
    for name, call in (
        ("SSI_mpe  order=int ", lambda: S.SSI_mpe(req, Fn_hz * scale, Xi, Phi, order, rtol=rtol)),
        ("SSI_mpe  order=list", lambda: S.SSI_mpe(req, Fn_hz * scale, Xi, Phi, [order] * 3, rtol=rtol)),
        ("pLSCF_mpe order=int ", lambda: P.pLSCF_mpe(req, Fn_hz * scale, Xi, Phi, order, rtol=rtol)),
        ("pLSCF_mpe order=list", lambda: P.pLSCF_mpe(req, Fn_hz * scale, Xi, Phi, [order] * 3, rtol=rtol)),
        ("SSI_mpe  find_min  ", lambda: S.SSI_mpe(req, Fn_hz * scale, Xi, Phi, "find_min", Lab=Lab, rtol=rtol)),
    ):
        Fn_out = np.atleast_1d(call()[0])
        # every returned pole must be within rtol of SOME requested frequency
        worst = 0.0
        for f in Fn_out:
            worst = max(worst, min(rel_dev(f, r) for r in req))
        print(f"[{unit_name:27s}] {name}: returned {len(Fn_out)} pole(s), "
              f"worst relative distance to its request = {worst:.2e} (rtol = {rtol:g})")
        if worst > rtol * (1 + 1e-9):
            failures.append(
                f"{name.strip()} in unit '{unit_name}': returned a pole {worst / rtol:.1f} x rtol "
                f"away from the requested frequency"
            )

# ----------------------------------------------------------------------------
# 2. class level: one record, sampling frequency given in Hz and in MHz
# ----------------------------------------------------------------------------
from scipy.signal import StateSpace, lsim  # noqa: E402

from pyoma2.algorithms.ssi import SSIcov  # noqa: E402
from pyoma2.setup.single import SingleSetup  # noqa: E402

rng = np.random.default_rng(1)
n = 3
K = 1000.0 * (2 * np.eye(n) - np.eye(n, k=1) - np.eye(n, k=-1))
w2, V = np.linalg.eigh(K)
w = np.sqrt(w2)
C = V @ np.diag(2 * 0.01 * w) @ V.T
A = np.block([[np.zeros((n, n)), np.eye(n)], [-K, -C]])
B = np.vstack([np.zeros((n, n)), np.eye(n)])
fs = 50.0
t = np.arange(12000) / fs
_, y, _ = lsim(StateSpace(A, B, np.hstack([-K, -C]), np.eye(n)), rng.standard_normal((len(t), n)), t)
y = y + 0.02 * y.std() * rng.standard_normal(y.shape)

out = {}
for unit_name, scale in (("Hz", 1.0), ("MHz", 1e-6)):
    ss = SingleSetup(y, fs * scale)
    alg = SSIcov(name="ssi", br=10, ordmax=12)
    ss.add_algorithms(alg)
    ss.run_all()
    col = alg.result.Fn_poles[:, 12]
    poles = np.unique(col[~np.isnan(col)])
    req = [float(p) * off for p in poles]  # each request 0.2 % above a pole of order 12
    ss.mpe("ssi", sel_freq=req, order=12, rtol=rtol)
    Fn_out = np.atleast_1d(alg.result.Fn)
    worst = max([min(rel_dev(f, r) for r in req) for f in Fn_out], default=0.0)
    out[unit_name] = len(Fn_out)
    print(f"[class SSIcov, fs in {unit_name:3s}] poles of order 12: {poles}; requested 0.2 % higher; "
          f"mpe(order=12, rtol={rtol:g}) returned {len(Fn_out)} pole(s), worst rel. distance {worst:.2e}")
    if worst > rtol * (1 + 1e-9):
        failures.append(
            f"SSIcov.mpe(order=12, rtol={rtol:g}) with fs in {unit_name}: returned a pole "
            f"{worst / rtol:.1f} x rtol away from the requested frequency"
        )

if failures:
    print()
    raise AssertionError(
        "C11 violated - explicit-order extraction returned poles outside the relative tolerance:\n  - "
        + "\n  - ".join(failures)
    )
print("no violation observed")
sys.exit(0)
