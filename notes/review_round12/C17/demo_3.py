"""C17 demo 3 - SSI_fast sizes its sensitivity matrices from the `nb` argument (default 100)
instead of from the covariance factor it is given: a factor with a single column is silently
broadcast into 100 identical columns (variance 100 x the squared directional derivative), a
factor with 2..99 columns raises a broadcasting ValueError unless nb is repeated by hand.

Run:  PYTHONPATH=/tmp/wt12/C17/src MPLBACKEND=Agg /venv/bin/python demo_3.py
Exits non-zero (AssertionError) on the unchanged library.
"""
import logging
from functools import partialmethod

import numpy as np
import tqdm

tqdm.tqdm.__init__ = partialmethod(tqdm.tqdm.__init__, disable=True)
logging.disable(logging.CRITICAL)
from pyoma2.functions import ssi  # noqa: E402

DT, BR, ORDMAX = 0.01, 4, 6
l, r = 2, 2


def identify(H):
    Obs, A, C, *_ = ssi.SSI_fast(H, BR, ORDMAX)
    Fn, _, _, Lam, *_ = ssi.SSI_poles(Obs, A, C, ORDMAX, DT)
    return Fn, Lam


rng = np.random.default_rng(1)
m, c = (BR + 1) * l, (BR + 1) * r
U, _ = np.linalg.qr(rng.standard_normal((m, 4)))
V, _ = np.linalg.qr(rng.standard_normal((c, 4)))
H = (U * np.array([9.0, 6.0, 4.0, 2.5])) @ V.T + 0.05 * rng.standard_normal((m, c))
t = 1e-3 * rng.standard_normal((m * c, 1))  # ONE perturbation direction, vec(H) column-stacked

# library: T handed over, everything else left at its default
Obs, A, C, Q1, Q2, Q3, Q4 = ssi.SSI_fast(H, BR, ORDMAX, calc_unc=True, T=t)
Fn, _, _, Lam, Fcov, _, _ = ssi.SSI_poles(
    Obs, A, C, ORDMAX, DT, calc_unc=True, Q1=Q1, Q2=Q2, Q3=Q3, Q4=Q4
)

# squared directional derivative by central differences (two steps)
D = (t[:, 0] / np.linalg.norm(t)).reshape(H.shape, order="F")
bad = []
for n in range(2, ORDMAX + 1):
    lam0 = Lam[:n, n]
    d = []
    for h in (1e-5, 1e-6):
        eps = h * np.linalg.norm(H)
        Fp, Lp = identify(H + eps * D)
        Fm, Lm = identify(H - eps * D)
        ip = [int(np.argmin(np.abs(Lp[:n, n] - z))) for z in lam0]
        im = [int(np.argmin(np.abs(Lm[:n, n] - z))) for z in lam0]
        d.append(((Fp[:n, n][ip] - Fm[:n, n][im]) / (2 * eps) * np.linalg.norm(t)) ** 2)
    for j in range(n):
        if abs(d[0][j] - d[1][j]) > 1e-3 * d[1][j]:
            continue
        ratio = Fcov[j, n] / d[1][j]
        print(f"order {n} f={Fn[j, n]:8.4f} Hz  reported var={Fcov[j, n]:.6e}  (df/dH . t)^2={d[1][j]:.6e}  ratio={ratio:.6f}")
        if abs(ratio - 1) > 1e-3:
            bad.append((n, j, ratio))

# a factor with 5 columns and the default nb
try:
    ssi.SSI_fast(H, BR, ORDMAX, calc_unc=True, T=np.hstack([t] * 5))
    five = "accepted"
except ValueError as exc:
    five = f"ValueError: {exc}"
print("5-column factor with default nb ->", five)

assert not bad, (
    "C17 violated: for a covariance factor consisting of a single perturbation direction "
    "SSI_fast(H, br, ordmax, calc_unc=True, T=t) + SSI_poles report %.1f times the squared "
    "directional derivative of the frequency in all %d judged cases (the column is broadcast "
    "into the nb=100 default columns of Q1..Q4)." % (np.median([b[2] for b in bad]), len(bad))
)
print("no violation")
