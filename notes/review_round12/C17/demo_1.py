"""C17 demo 1 - frequency variances are wrong (or SSI_fast raises LinAlgError) whenever a
right singular vector of the Hankel matrix has a zero last entry, e.g. for a Hankel
matrix of two uncoupled channel groups.

Run:  PYTHONPATH=/tmp/wt12/C17/src MPLBACKEND=Agg /venv/bin/python demo_1.py
Exits non-zero (AssertionError) on the unchanged library.
"""
import logging
from functools import partialmethod

import numpy as np
import tqdm

tqdm.tqdm.__init__ = partialmethod(tqdm.tqdm.__init__, disable=True)
logging.disable(logging.CRITICAL)
from pyoma2.functions import ssi  # noqa: E402

DT = 0.01
BR = 4  # block rows  (quantifier: 2..5)
ORDMAX = 4  # model orders 2..4 are judged (quantifier: 2..8)


# ---------------------------------------------------------------- helpers
def identify(H):
    """the identification itself: Hankel matrix -> frequencies / poles per order"""
    Obs, A, C, *_ = ssi.SSI_fast(H, BR, ORDMAX)
    Fn, _, _, Lam, *_ = ssi.SSI_poles(Obs, A, C, ORDMAX, DT)
    return Fn, Lam


def library_variance(H, T):
    Obs, A, C, Q1, Q2, Q3, Q4 = ssi.SSI_fast(
        H, BR, ORDMAX, calc_unc=True, T=T, nb=T.shape[1]
    )
    out = ssi.SSI_poles(
        Obs, A, C, ORDMAX, DT, calc_unc=True, Q1=Q1, Q2=Q2, Q3=Q3, Q4=Q4
    )
    return out[0], out[4]  # Fn, Fn_cov


def fd_variance(H, T, n, h):
    """sum over the columns of T of the squared central-difference directional
    derivative of every frequency of model order n (relative step h)"""
    Fn0, Lam0 = identify(H)
    lam0 = Lam0[:n, n]
    tot = np.zeros(n)
    eps = h * np.linalg.norm(H)
    for k in range(T.shape[1]):
        nt = np.linalg.norm(T[:, k])
        D = (T[:, k] / nt).reshape(H.shape, order="F")  # column-stacked vec(H)
        Fp, Lp = identify(H + eps * D)
        Fm, Lm = identify(H - eps * D)
        ip = [int(np.argmin(np.abs(Lp[:n, n] - z))) for z in lam0]
        im = [int(np.argmin(np.abs(Lm[:n, n] - z))) for z in lam0]
        tot += ((Fp[:n, n][ip] - Fm[:n, n][im]) / (2 * eps) * nt) ** 2
    return Fn0[:n, n], lam0, tot


def siso_hankel(rng, freqs, xis, noise):
    """exact Hankel matrix C A^(i+j) G of a one-channel system with the given modes
    (exactly low rank) plus a small full-rank part"""
    n = 2 * len(freqs)
    A = np.zeros((n, n))
    for i, (f, xi) in enumerate(zip(freqs, xis)):
        mu = np.exp(2 * np.pi * f * (-xi + 1j * np.sqrt(1 - xi**2)) * DT)
        A[2 * i : 2 * i + 2, 2 * i : 2 * i + 2] = [[mu.real, mu.imag], [-mu.imag, mu.real]]
    C = rng.standard_normal((1, n))
    G = rng.standard_normal((n, 1))
    H = np.array(
        [
            [(C @ np.linalg.matrix_power(A, i + j) @ G)[0, 0] for j in range(BR + 1)]
            for i in range(BR + 1)
        ]
    )
    H += noise * np.sqrt(np.mean(H**2)) * rng.standard_normal(H.shape)
    return H


def judge(H, T, label):
    """compare the library with finite differences on every guarded (order, pole)"""
    try:
        Fn, Fcov = library_variance(H, T)
    except np.linalg.LinAlgError as exc:
        print(f"[{label}] SSI_fast raised LinAlgError: {exc}")
        return [("LinAlgError", np.inf)]
    s = np.linalg.svd(H, compute_uv=False)
    Obs = ssi.SSI_fast(H, BR, ORDMAX)[0]
    bad = []
    for n in range(2, ORDMAX + 1):
        f0, lam0, v1 = fd_variance(H, T, n, 1e-5)
        _, _, v2 = fd_variance(H, T, n, 1e-6)
        mu = np.exp(lam0 * DT)
        sep = (np.abs(mu[:, None] - mu[None, :]) + 10 * np.eye(n)).min()
        gap = ((s[:-1] - s[1:]) / s[:-1])[:n].min()
        condOp = np.linalg.cond(Obs[:-2, :n])
        guarded = gap >= 1e-3 and sep >= 0.05 and condOp < 100
        for j in range(n):
            agree = abs(v1[j] - v2[j]) <= 1e-3 * abs(v2[j])
            rel = abs(Fcov[j, n] - v2[j]) / v2[j]
            flag = ""
            if guarded and agree and rel > 1e-3:
                bad.append((n, j, f0[j], Fcov[j, n], v2[j], rel))
                flag = "  <-- VIOLATION"
            print(
                f"[{label}] order {n} pole {j}: f={f0[j]:8.4f} Hz  library var={Fcov[j, n]:.6e}  "
                f"finite-diff var={v2[j]:.6e} (other step {v1[j]:.6e})  rel.err={rel:.2e}  "
                f"sv-gap={gap:.2g} eig-sep={sep:.2g} cond(O_up)={condOp:.1f}{flag}"
            )
    return bad


# ---------------------------------------------------------------- the case
rng = np.random.default_rng(1)
# channel 0 sits on structure A (two modes), channel 1 on an independent structure B
# (one mode): every cross-covariance is exactly zero -> checkerboard Hankel matrix.
HA = siso_hankel(rng, [4.0, 17.0], [0.02, 0.01], noise=1e-2)
HB = 0.6 * siso_hankel(rng, [9.0], [0.015], noise=1e-2)
l = r = 2
H = np.zeros(((BR + 1) * l, (BR + 1) * r))
H[0::2, 0::2] = HA
H[1::2, 1::2] = HB
T = 1e-4 * rng.standard_normal((H.size, 3))  # covariance factor with 3 columns

U, s, Vt = np.linalg.svd(H)
print("singular values      :", np.array2string(s, precision=4))
print("cond(H)              : %.0f" % (s[0] / s[-1]))
print("|last entry of v_i|  :", np.array2string(np.abs(Vt[:ORDMAX, -1]), precision=2))

bad = judge(H, T, "uncoupled")

# control: the same matrix with a 1e-8 coupling between the groups.  The identification
# and its derivatives change by ~1e-8, and now the library agrees with them.
E = np.random.default_rng(99).standard_normal(H.shape)
bad_ctrl = judge(H + 1e-8 * np.linalg.norm(H) * E, T, "coupled 1e-8")
assert not bad_ctrl, "control case unexpectedly fails as well"

assert not bad, (
    "C17 violated: for a well-conditioned Hankel matrix of two uncoupled channel groups "
    "(cond(H)=%.0f, simple singular values and poles) the frequency variance returned by "
    "SSI_fast/SSI_poles differs from the first-order propagation of the same factor T; "
    "worst guarded case: %s; the same matrix with a 1e-8 coupling is propagated correctly. "
    "Cause: K_i in SSI_fast pins the LAST entry of v_i, which is zero here."
    % (s[0] / s[-1], max(bad, key=lambda b: b[-1]))
)
print("no violation")
