"""C17 demo 2 - a float32 record makes SSIcov report frequency variances that are off by
10-90 % (physical modes included) although the frequencies themselves are accurate to 1e-5.

Run:  PYTHONPATH=/tmp/wt12/C17/src MPLBACKEND=Agg /venv/bin/python demo_2.py
Exits non-zero (AssertionError) on the unchanged library.
"""
import logging
from functools import partialmethod

import numpy as np
import tqdm
from scipy import signal

tqdm.tqdm.__init__ = partialmethod(tqdm.tqdm.__init__, disable=True)
logging.disable(logging.CRITICAL)
from pyoma2.algorithms.ssi import SSIcov  # noqa: E402
from pyoma2.functions import ssi  # noqa: E402
from pyoma2.setup.single import SingleSetup  # noqa: E402

FS = 100.0
DT = 1 / FS
BR, ORDMAX, NB = 4, 8, 20
REF = [0, 2]


def simulate(rng, nch, ndat, freqs=(3.0, 8.0, 14.0), xi=0.02):
    y = np.zeros((ndat, nch))
    shapes = rng.standard_normal((len(freqs), nch))
    for f, s in zip(freqs, shapes):
        w = 2 * np.pi * f
        bd, ad, _ = signal.cont2discrete(([1.0], [1, 2 * xi * w, w * w]), DT)
        y += np.outer(signal.lfilter(bd.flatten(), ad, rng.standard_normal(ndat)), s)
    y /= y.std()
    return y + 0.02 * rng.standard_normal(y.shape)  # 2 % measurement noise


def identify(H):
    Obs, A, C, *_ = ssi.SSI_fast(H, BR, ORDMAX)
    Fn, _, _, Lam, *_ = ssi.SSI_poles(Obs, A, C, ORDMAX, DT)
    return Fn, Lam


def functions_variance(H, T):
    Obs, A, C, Q1, Q2, Q3, Q4 = ssi.SSI_fast(H, BR, ORDMAX, calc_unc=True, T=T, nb=NB)
    out = ssi.SSI_poles(Obs, A, C, ORDMAX, DT, calc_unc=True, Q1=Q1, Q2=Q2, Q3=Q3, Q4=Q4)
    return out[0], out[4]


def fd_variance(H, T, n, h):
    Fn0, Lam0 = identify(H)
    lam0 = Lam0[:n, n]
    tot = np.zeros(n)
    eps = h * np.linalg.norm(H)
    for k in range(T.shape[1]):
        nt = np.linalg.norm(T[:, k])
        D = (T[:, k] / nt).reshape(H.shape, order="F")
        Fp, Lp = identify(H + eps * D)
        Fm, Lm = identify(H - eps * D)
        ip = [int(np.argmin(np.abs(Lp[:n, n] - z))) for z in lam0]
        im = [int(np.argmin(np.abs(Lm[:n, n] - z))) for z in lam0]
        tot += ((Fp[:n, n][ip] - Fm[:n, n][im]) / (2 * eps) * nt) ** 2
    return Fn0[:n, n], lam0, tot


rng = np.random.default_rng(3)
y32 = simulate(rng, 3, 6000).astype(np.float32)  # e.g. a record loaded from a float32 file

# ---- the public API on the float32 record
ss = SingleSetup(y32, fs=FS)
alg = SSIcov(
    name="ssicov", br=BR, ordmax=ORDMAX, ref_ind=REF, calc_unc=True, nb=NB,
    hc=dict(conj=False, xi_max=1e9, mpc_lim=-1.0, mpd_lim=1e9, cov_max=1e99),
)
ss.add_algorithms(alg)
ss.run_all()
R = alg.result
print("dtype of the record:", y32.dtype, "  dtype of result.H:", R.H.dtype)

# ---- reference: the SAME Hankel matrix (same numbers, held in float64) and the SAME
# covariance factor, first-order propagated by central differences of the identification
H32, T = ssi.build_hank(y32.T, y32.T[REF], BR, "cov_mm", calc_unc=True, nb=NB)
assert np.array_equal(H32, R.H)
H = H32.astype(np.float64)  # exactly the same values
s = np.linalg.svd(H, compute_uv=False)
Fn64, Fcov64 = functions_variance(H, T)  # the library itself, fed the float64 copy

bad = []
for n in range(2, ORDMAX + 1):
    f0, lam0, v1 = fd_variance(H, T, n, 1e-5)
    _, _, v2 = fd_variance(H, T, n, 1e-6)
    mu = np.exp(lam0 * DT)
    sep = (np.abs(mu[:, None] - mu[None, :]) + 10 * np.eye(n)).min()
    gap = ((s[:-1] - s[1:]) / s[:-1])[:n].min()
    for j in range(n):
        if not (gap >= 1e-3 and sep >= 0.05 and abs(v1[j] - v2[j]) <= 1e-3 * abs(v2[j])):
            continue  # outside the property's guards
        if not np.isfinite(R.Fn_poles[:, n]).any():
            continue
        jj = int(np.nanargmin(np.abs(R.Fn_poles[:, n] - f0[j])))  # same pole in the API result
        if abs(R.Fn_poles[jj, n] - f0[j]) > 1e-3 * f0[j]:
            continue  # this pole was removed by the (fixed) positive-damping criterion
        if not np.isfinite(R.Fn_poles_cov[jj, n]):
            continue  # removed by the (fixed) positive-damping criterion
        j64 = int(np.argmin(np.abs(Fn64[:n, n] - f0[j])))
        rel32 = abs(R.Fn_poles_cov[jj, n] - v2[j]) / v2[j]
        rel64 = abs(Fcov64[j64, n] - v2[j]) / v2[j]
        dfreq = abs(R.Fn_poles[jj, n] - f0[j]) / f0[j]
        flag = "  <-- VIOLATION" if rel32 > 1e-3 else ""
        print(
            f"order {n} f={f0[j]:8.4f} Hz (API: rel.diff {dfreq:.1e})  var API/float32={R.Fn_poles_cov[jj, n]:.5e}  "
            f"first-order={v2[j]:.5e}  rel.err={rel32:.2e}   [same H as float64: rel.err={rel64:.1e}]  "
            f"s1/s{n}={s[0] / s[n - 1]:.0f}{flag}"
        )
        assert rel64 <= 1e-3, "the float64 control is not clean"
        if rel32 > 1e-3:
            bad.append((n, round(float(f0[j]), 3), float(R.Fn_poles_cov[jj, n]), float(v2[j]), float(rel32)))

assert not bad, (
    "C17 violated: with a float32 record SSIcov(calc_unc=True) reports frequency variances that "
    "differ from the first-order propagation of its own covariance factor through its own Hankel "
    "matrix in %d guarded (order, pole) cases, worst %s (order, f, reported, first-order, rel.err); "
    "the very same Hankel matrix held in float64 is propagated to 1e-4 or better."
    % (len(bad), max(bad, key=lambda b: b[-1]))
)
print("no violation")
